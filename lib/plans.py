"""Per-property check plans (what TLC explores, what is replayed, what is recorded and validated)."""
import json
import time
import os
import random

import vlib
from vlib import ToolError, log

LEVEL = {"C05": "exploration"}
PLANS = {}


def plan(prop):
    def deco(f):
        PLANS[prop] = f
        return f
    return deco


def q(chk, quick, thorough):
    return quick if chk.tier == "quick" else thorough


# ------------------------------------------------------------------------------------------------
# generic helpers
# ------------------------------------------------------------------------------------------------

def flip_ok_in_trace(evs):
    """canary mutation: flip one recorded result flag in the middle of the trace"""
    idxs = [i for i, e in enumerate(evs) if isinstance(e.get("res"), dict) and isinstance(e["res"].get("ok"), bool)
            and e.get("op", {}).get("name") not in ("reset",)]
    if not idxs:
        raise ToolError("canary: no boolean result in trace")
    i = idxs[len(idxs) // 2]
    evs[i]["res"]["ok"] = not evs[i]["res"]["ok"]
    return "event %d res.ok flipped" % (i + 1)


def drop_post_elem_in_trace(field="post"):
    def m(evs):
        for i in range(len(evs) // 2, len(evs)):
            p = evs[i].get(field)
            if isinstance(p, list) and p:
                p.pop()
                return "event %d %s element dropped" % (i + 1, field)
            if isinstance(p, dict) and isinstance(p.get("items"), list) and len(p["items"]) > 1:
                p["items"].pop()
                return "event %d %s.items element dropped" % (i + 1, field)
        raise ToolError("canary: nothing to drop")
    return m


def flip_case_expectation(rows, k=3):
    """canary mutation for direction R: alter the predicted result of k cases"""
    out = []
    for r in rows:
        if isinstance(r.get("res"), dict) and isinstance(r["res"].get("ok"), bool):
            r = json.loads(json.dumps(r))
            r["res"]["ok"] = not r["res"]["ok"]
            out.append(r)
            if len(out) >= k:
                break
    if not out:
        raise ToolError("canary: no case with boolean result")
    return out


def record_and_validate(chk, driver, trace_module, trace_cfg, n_events, n_traces, key, canary=None, timeout=900, silent=False,
                        tag=""):
    wd = vlib.workdir(chk.prop)
    first = None
    for t in range(n_traces):
        seed = chk.seed * 1000 + t
        p = os.path.join(wd, "%s%s.%d.ndjson" % (driver, tag, t))
        vlib.vh_record(driver, seed, n_events, p)
        v = chk.validate(trace_module, trace_cfg, p, key, timeout=timeout, silent=silent)
        if not v["accepted"]:
            chk.violations[-1]["detail"]["reproduce"] = dict(driver=driver, seed=seed, n=n_events,
                                                             trace_module=trace_module, trace_cfg=trace_cfg)
        if first is None and v["accepted"]:
            first = p
    if canary and first:
        chk.canary_trace(trace_module, trace_cfg, first, canary, silent=silent)


def replay_file(prop, path):
    """Re-executes a replay file written by a failing check against the current /repo tree."""
    with open(path) as f:
        rp = json.load(f)
    d = rp["detail"]
    wd = vlib.workdir(prop)
    if d.get("backend") == "stronghold" and vlib.VH != vlib.VH_SH:
        vlib.build_harness_sh()
        with vlib.stronghold_backend(prop):
            return replay_file(prop, path)
    if d.get("kind") == "trace-rejected":
        r = d.get("reproduce")
        if not r:
            log("replay: trace rejection without reproduce info; first unmatched event:\n%s" % json.dumps(d.get("first_unmatched_event")))
            return 1
        p = os.path.join(wd, "replay.ndjson")
        vlib.vh_record(r["driver"], r["seed"], r["n"], p)
        v = vlib.validate_trace(prop, r["trace_module"], r["trace_cfg"], p)
        if v["accepted"]:
            log("replay: trace now accepted (%d events)" % v["total"])
            return 0
        evs = vlib.read_ndjson(p)
        log("replay: trace rejected at event %d: %s" % (v["matched"] + 1, json.dumps(evs[v["matched"]])[:2000]))
        log("VIOLATION property=%s replay=%s" % (prop, path))
        return 1
    if d.get("kind") == "tlc-invariant":
        log("replay: specification-level counterexample:\n%s" % d.get("output", "")[-3000:])
        return 1
    case = d.get("case")
    p = os.path.join(wd, "replay.cases.ndjson")
    vlib.write_ndjson(p, [case])
    rep = vlib.vh_replay(prop, p, tag=".replay")
    if rep["mismatches_total"] == 0:
        log("replay: case now conforms")
        return 0
    log(json.dumps(rep["mismatches"], indent=1)[:6000])
    log("VIOLATION property=%s replay=%s" % (prop, path))
    return 1


def merge_cases(chk, files, name="all.cases.ndjson"):
    p = os.path.join(vlib.workdir(chk.prop), name)
    with open(p, "w") as out:
        for f in files:
            with open(f) as inp:
                for line in inp:
                    out.write(line)
    return p


# ------------------------------------------------------------------------------------------------
# C19 — ordered-set collections
# ------------------------------------------------------------------------------------------------

@plan("C19")
def c19(chk):
    t = chk.tier
    chk.rule = ("TLC enumerates every transition (abstract pre-state x operation with every argument) of the "
                "OrderedSet / OneOrSet / OneOrMany specifications inside the tier's key/value/list universe; each is "
                "replayed on the real collection (element type with a projected key) and result flag, resulting order, "
                "JSON shape and serde round trip are compared. A case is counted distinct+non-trivial when its "
                "(pre, op, args) triple is unique and the op changes the state or is refused. Random histories of the "
                "real collections are validated against the same Apply operator by TLC.")
    files = []
    for mod in ("OrderedSet", "OneOrSet", "OneOrMany"):
        r = chk.mc(mod, "%s_%s.cfg" % (mod, t), workers=q(chk, 4, 12), timeout=q(chk, 300, 3000))
        files.append(r["cases_file"])
    allc = merge_cases(chk, files)
    chk.replay(allc)
    chk.canary_cases(files[0], flip_case_expectation)
    n_ev, n_tr = q(chk, (3000, 2), (6000, 12))
    record_and_validate(chk, "C19.OrderedSet", "OrderedSetTrace", "OrderedSetTrace.cfg", n_ev, n_tr,
                        "ordered_set/trace", canary=flip_ok_in_trace)
    record_and_validate(chk, "C19.OneOrSet", "OneOrSetTrace", "OneOrSetTrace.cfg", n_ev, n_tr,
                        "one_or_set/trace", canary=drop_post_elem_in_trace())
    record_and_validate(chk, "C19.OneOrMany", "OneOrManyTrace", "OneOrManyTrace.cfg", n_ev, n_tr,
                        "one_or_many/trace", canary=flip_ok_in_trace)
    chk.assumptions += ["serde_json is trusted for JSON parsing/printing",
                        "exhaustive only inside the cfg's universe (3 keys x 2 values; lists up to the cfg bound); "
                        "longer histories are seeded-random (VERIF_SEED)"]


# ------------------------------------------------------------------------------------------------
# C12 — StatusList2021
# ------------------------------------------------------------------------------------------------

@plan("C12")
def c12(chk):
    chk.rule = ("TLC enumerates every (window value, operation, argument) transition of StatusList.tla — quick: one byte, i.e. "
                "every (byte value, bit offset, written value) triple, both purposes, plus credential-layer and validator ops; "
                "thorough: two bytes. Each transition is replayed at 3 of 24 placements (6 list size classes, 131 072 to 2 097 152 entries, x 4 byte "
                "offsets) on real lists; result, window bits and 'all other bytes zero' are compared after decoding the "
                "library's own encoding independently. Distinct+non-trivial = unique (purpose, pre, op) whose op changes a bit "
                "or is refused.")
    r = chk.mc("StatusList", "StatusList_%s.cfg" % chk.tier, workers=q(chk, 4, 12), timeout=q(chk, 300, 7000), heap=q(chk, "4g", "16g"))
    chk.replay(r["cases_file"], timeout=7000)
    chk.canary_cases(r["cases_file"], flip_case_expectation)
    n_ev, n_tr = q(chk, (1500, 1), (4000, 6))
    for drv in ("C12.list", "C12.cred"):
        record_and_validate(chk, drv, "StatusListTrace", "StatusListTrace.cfg", n_ev, n_tr, "status_list/trace",
                            canary=flip_ok_in_trace)
    chk.assumptions += ["flate2 (gzip) and multibase (base64) are trusted codecs",
                        "the window is 8 (quick) or 16 (thorough, traces) bits; other bytes are only checked to stay zero"]


# ------------------------------------------------------------------------------------------------
# C04 — DID document id-uniqueness, round trip, resolution
# ------------------------------------------------------------------------------------------------

def flip_doc_case(rows, k=3):
    out = []
    for r in rows:
        if r.get("kind") == "step" and r["res"].get("ok") is True and r["pre"] != r["post"]:
            r = json.loads(json.dumps(r))
            r["post"] = r["pre"]          # claim the accepted mutation had no effect
            out.append(r)
            if len(out) >= k:
                break
    if not out:
        raise ToolError("canary: no effective step case")
    return out


def corrupt_doc_trace(evs):
    for i in range(len(evs) // 2, len(evs)):
        e = evs[i]
        if e["op"]["name"] == "resolve" and e["res"]["loc"] == "vm":
            e["res"]["loc"] = "none"
            e["res"]["idx"] = 0
            return "event %d resolution result replaced by none" % (i + 1)
    return flip_ok_in_trace(evs)


@plan("C04")
def c04(chk):
    chk.rule = ("TLC explores every document reachable from every valid initial document (<= MaxInit entries, incl. dangling and "
                "foreign references) over the tier's id universe x 2 relationships with all six mutations and every argument; "
                "the four id/validity invariants are checked in every state and 'refusal leaves unchanged' on every "
                "transition. Quick: every transition and every state's full resolution table is replayed on real documents "
                "(deserialised and builder-built) under rotating mappings of the model relationships onto the five real ones; "
                "thorough: all states/transitions model-checked, a random 1/24 of transitions and 1/6 of states replayed. "
                "Distinct+non-trivial = unique (pre, op) whose op changes the document or is refused, plus unique states.")
    mod = "MCDocument"
    # the deserialisation / builder gate over every small document, valid or not
    ld = chk.mc(mod, "Document_load_%s.cfg" % chk.tier, workers=4, timeout=900, heap="4g")
    chk.replay(ld["cases_file"], tag=".load", timeout=3000, vacuity=False)
    r = chk.mc(mod, "Document_%s.cfg" % chk.tier, workers=q(chk, 6, 14), timeout=q(chk, 600, 7000), heap=q(chk, "6g", "24g"))
    chk.exhaustive = chk.tier == "quick"
    chk.replay(r["cases_file"], timeout=7000)
    chk.canary_cases(r["cases_file"], flip_doc_case)
    # design-level demonstration: the unrepaired insert_method guard admits an aliased embedded method
    if chk.tier == "thorough":
        pre = vlib.tlc_model_check(chk.prop, mod, "Document_prefix.cfg", emit=False, workers=4, timeout=600, expect_violation=True)
        chk.extra["prefix_design_counterexample_found"] = bool(pre["violated"])
    n_ev, n_tr = q(chk, (2500, 2), (5000, 16))
    record_and_validate(chk, "C04", "MCDocumentTrace", "DocumentTrace.cfg", n_ev, n_tr, "document/trace",
                        canary=corrupt_doc_trace)
    chk.assumptions += ["the harness' concretisation (one Ed25519 multibase method / LinkedDomains service per id) is "
                        "representative: method content other than the id does not influence the checked behaviour",
                        "refusals that leave the document unchanged are accepted where the model would accept (the property does "
                        "not force acceptance)"]


# ------------------------------------------------------------------------------------------------
# C13 — Timestamp
# ------------------------------------------------------------------------------------------------

def flip_ts_case(rows, k=3):
    out = []
    for r in rows:
        if r["out"].get("acc") == "yes":
            r = json.loads(json.dumps(r))
            r["out"]["sec"] = (r["out"]["sec"] + 1) % 86400     # off by one second
            out.append(r)
            if len(out) >= k:
                break
    if not out:
        raise ToolError("canary: no accepting row")
    return out


def corrupt_ts_trace(evs):
    for i in range(len(evs) // 2, len(evs)):
        if evs[i]["out"].get("acc") == "yes":
            evs[i]["out"]["sec"] = (evs[i]["out"]["sec"] + 1) % 86400
            return "event %d outcome shifted by one second" % (i + 1)
    raise ToolError("canary: no accepting event")


@plan("C13")
def c13(chk):
    chk.rule = ("TLC evaluates the calendar oracle of Timestamp.tla on every row of the boundary product: dates at/around the "
                "range ends, leap days, impossible dates x boundary times (incl. :60, 24:00) x UTC offsets (quick: 12 boundary "
                "offsets; thorough: every minute -23:59..+23:59) x fraction lengths, unix instants at/around both range ends, "
                "checked_add/sub with every duration constructor at boundary magnitudes (incl. u32::MAX), and all pairs for "
                "ordering. Each row is executed on the real Timestamp through every textual entry point; outcome, canonical "
                "text, and the three round trips are compared. Every row is distinct by construction.")
    r = chk.mc("MCTimestamp", "Timestamp_%s.cfg" % chk.tier, workers=q(chk, 4, 12), timeout=q(chk, 600, 7000), heap=q(chk, "3g", "12g"))
    chk.replay(r["cases_file"], timeout=3000)
    chk.canary_cases(r["cases_file"], flip_ts_case)
    n_ev, n_tr = q(chk, (4000, 1), (20000, 8))
    record_and_validate(chk, "C13", "TimestampTrace", "TimestampTrace.cfg", n_ev, n_tr, "timestamp/trace",
                        canary=corrupt_ts_trace)
    chk.assumptions += ["leap seconds (:60) may be rejected or read as the preceding second (named deviation LeapSecondStandIn)",
                        "the calendar arithmetic of the spec is an independent transcription cross-checked by TLC in both directions"]


# ------------------------------------------------------------------------------------------------
# C10 — DID / DID URL syntax
# ------------------------------------------------------------------------------------------------

def flip_did_case(rows, k=3):
    """canary: claim that a string the grammar accepts is invalid — the replay must object to the library accepting it"""
    out = []
    for r in rows:
        if r["row"]["kind"] == "url" and r["out"].get("ok") and r["row"]["pfx"]["txt"] == "did:m:" and "%" not in r["row"]["body"]:
            r = json.loads(json.dumps(r))
            r["out"] = {"ok": False}
            out.append(r)
            if len(out) >= k:
                break
    if not out:
        raise ToolError("canary: no accepted url row")
    return out


def corrupt_did_trace(evs):
    for i in range(len(evs) // 2, len(evs)):
        o = evs[i]["obs"]
        if isinstance(o.get("url"), dict) and o["url"].get("ok"):
            o["url"]["lm"] += 1
            return "event %d method-id length altered" % (i + 1)
    raise ToolError("canary: no accepted url event")


@plan("C10")
def c10(chk):
    chk.rule = ("TLC enumerates every class string up to MaxLen (quick 4, thorough 5) over an 18-class alphabet (legal classes, "
                "%, delimiters, whitespace, control, illegal ASCII, non-ASCII) after 'did:m:', a structured product of "
                "method-id x path x query x fragment alternatives, prefix variants, and every (base, component, segment) setter "
                "row with segments up to SegLen; the spec's transcription of the W3C grammar computes validity and the "
                "decomposition. Each row is expanded to 2 concrete character variants and run through DIDUrl and CoreDID "
                "(parse, FromStr, TryFrom, serde); accepted values must be valid, decompose as computed, print verbatim, "
                "re-parse to themselves; setters must re-parse or leave the value unchanged; Eq/Ord/Hash agree on all pairs of "
                "accepted values per chunk. One-sided judging: rejecting a valid string is counted, not an alarm.")
    r = chk.mc("MCDidSyntax", "DidSyntax_%s.cfg" % chk.tier, workers=q(chk, 4, 12), timeout=q(chk, 600, 7000), heap=q(chk, "4g", "24g"))
    rep = chk.replay(r["cases_file"], timeout=7000)
    chk.canary_cases(r["cases_file"], flip_did_case)
    n_ev, n_tr = q(chk, (4000, 1), (20000, 8))
    record_and_validate(chk, "C10", "MCDidSyntaxTrace", "DidSyntaxTrace.cfg", n_ev, n_tr, "did_syntax/trace",
                        canary=corrupt_did_trace)
    chk.assumptions += ["named deviations: method-specific ids may begin/end with ':' (pinned by the upstream positive proptest); "
                        "bare '?' / '#' are normalised away in DID URLs (pinned by upstream tests)",
                        "class representatives are interchangeable inside a class (2 variants per row are executed)"]


# ------------------------------------------------------------------------------------------------
# C17 — IOTA DIDs
# ------------------------------------------------------------------------------------------------

def flip_iota_case(rows, k=3):
    out = []
    for r in rows:
        if r["row"]["kind"] == "parse" and r["out"].get("valid") and r["row"]["entry"] == "parse":
            r = json.loads(json.dumps(r))
            r["out"] = {"valid": False}
            out.append(r)
            if len(out) >= k:
                break
    if not out:
        raise ToolError("canary: no valid parse row")
    return out


@plan("C17")
def c17(chk):
    chk.rule = ("TLC enumerates the full product method spelling x network name (class sequences incl. absent, empty, default in "
                "any case, upper case, too long, illegal characters) x tag shape (length 0/63/64/65 x lower/upper/mixed/non-hex/"
                "zeros x prefix 0x/0X/none) x surplus segment x trailing path/query/fragment x entry point (parse, "
                "try_from_core, serde) and the IotaDID::new rows (network names via try_from and via serde x byte patterns); the "
                "spec computes case-insensitive validity and the lowercase normal form. Every row is executed; accepted values "
                "must be valid, be held in normal form, recompose from their accessors, re-parse to themselves; equality must "
                "coincide with equality of (network, tag bytes) on all accepted pairs per chunk. One-sided judging.")
    r = chk.mc("MCIotaDid", "IotaDid_%s.cfg" % chk.tier, workers=q(chk, 4, 8), timeout=600, heap="4g")
    chk.replay(r["cases_file"], timeout=3000)
    chk.canary_cases(r["cases_file"], flip_iota_case)
    chk.assumptions += ["decision-table property: no recorded-trace direction; every table row is executed on the real code",
                        "prefix_hex trusted for hex decoding of the 32 tag bytes"]


# ------------------------------------------------------------------------------------------------
# C06 — revocation bitmaps
# ------------------------------------------------------------------------------------------------

def flip_v_in_trace(evs):
    for i in range(len(evs) // 2, len(evs)):
        r = evs[i].get("res", {})
        if evs[i]["op"]["name"] == "query" and isinstance(r.get("v"), bool):
            r["v"] = not r["v"]
            return "event %d query answer flipped" % (i + 1)
    raise ToolError("canary: no query event")


def flip_v_case(rows, k=3):
    out = []
    for r in rows:
        if r["op"]["name"] == "query":
            r = json.loads(json.dumps(r))
            r["res"]["v"] = not r["res"]["v"]
            out.append(r)
            if len(out) >= k:
                break
    if not out:
        raise ToolError("canary: no query case")
    return out


@plan("C06")
def c06(chk):
    chk.rule = ("TLC enumerates all 16 member sets over 4 index classes x every operation (revoke/unrevoke of every class subset, "
                "endpoint encode/decode, legacy double-encoded endpoint, query of every class, validator status check for every "
                "class x 3 StatusCheck modes x 7 status shapes). Each transition is replayed on a raw RevocationBitmap, a "
                "CoreDocument service and an IotaDocument service, with the classes realised as 1 / 100 000 dense (crossing a "
                "roaring container boundary) / 3 000 sparse / 8 boundary+extreme u32 indices; after every operation the "
                "membership of every concrete index of every class and of 14 neighbour indices is compared, via the endpoint a "
                "third party would read. Random batch histories over plain indices are trace-validated (cardinality and every "
                "query answer).")
    r = chk.mc("RevocationBitmap", "RevocationBitmap_%s.cfg" % chk.tier, workers=4, timeout=300, heap="2g")
    chk.replay(r["cases_file"], timeout=3000)
    chk.canary_cases(r["cases_file"], flip_v_case)
    n_ev, n_tr = q(chk, (400, 2), (1500, 10))
    record_and_validate(chk, "C06", "RevocationBitmapTrace", "RevocationBitmapTrace.cfg", n_ev, n_tr,
                        "revocation_bitmap/trace", canary=flip_v_in_trace, timeout=1800)
    chk.assumptions += ["roaring (bitmap) and flate2 (zlib) are trusted codecs; what is checked is that the library hands them "
                        "the right data and recognises its own and the legacy encoding",
                        "trace direction uses indices below 2^31 (TLC integers are 32 bit); larger ones are covered by class 3 in "
                        "the replay direction"]


# ------------------------------------------------------------------------------------------------
# C09 — storage-backed generate/purge all-or-nothing under faults
# ------------------------------------------------------------------------------------------------

def flip_txn_case(rows, k=3):
    out = []
    for r in rows:
        if r["result"] == "err" and r["calls"]:
            r = json.loads(json.dumps(r))
            r["result"] = "ok"
            out.append(r)
            if len(out) >= k:
                break
    if not out:
        raise ToolError("canary: no failing behaviour")
    return out




# ------------------------------------------------------------------------------------------------
# Lifecycle composition (beyond the list): shared by the checks of C02 and C09, each judging its own keys
# ------------------------------------------------------------------------------------------------

def flip_lifecycle_case(rows, k=3):
    """canary: invert the predicted verdict of the last validation of k behaviours"""
    out = []
    for r in rows:
        ops = r.get("ops", [])
        idx = [i for i, e in enumerate(ops) if e["op"]["name"] == "validate"]
        if not idx:
            continue
        r = json.loads(json.dumps(r))
        e = r["ops"][idx[-1]]
        e["res"] = {"ok": False, "err": "signature"} if e["res"]["ok"] else {"ok": True}
        r["ops"] = r["ops"][:idx[-1] + 1]
        out.append(r)
        if len(out) >= k:
            break
    if not out:
        raise ToolError("canary: no validation step in the lifecycle behaviours")
    return out


def flip_lifecycle_trace(evs):
    """canary: a recorded rejection of a validation is turned into an acceptance"""
    for i in range(len(evs) // 2, len(evs)):
        e = evs[i]
        if e["op"]["name"] == "validate" and not e["res"].get("ok"):
            e["res"] = {"ok": True}
            return "event %d: a rejected validation reported as accepted" % (i + 1)
    raise ToolError("canary: no rejected validation in the recorded history")


def lifecycle_stage(chk, only_keys):
    """Lifecycle.tla: design invariants over all states (VIEW without the history), every effective behaviour up to the
    tier's depth replayed on the real objects, long simulated behaviours replayed, canary."""
    mc = vlib.tlc_model_check(chk.prop, "Lifecycle", "Lifecycle_mc.cfg", emit=False, workers=4, timeout=600, heap="3g")
    if mc["violated"]:
        chk.violations.append(dict(key="%s/spec/Lifecycle" % chk.prop, detail=dict(kind="tlc-invariant", message=mc["violated"], output=mc["out"][-3000:])))
        return
    r = chk.mc("Lifecycle", "Lifecycle_paths_%s.cfg" % chk.tier, workers=8, timeout=1500, heap="6g")
    chk.replay(r["cases_file"], tag=".life", prop_driver="LIFE", timeout=3000, vacuity=False, only_keys=only_keys)
    chk.canary_cases(r["cases_file"], flip_lifecycle_case, prop_driver="LIFE")
    # long behaviours: TLC simulation (every successor of every visited state at the final depth is emitted)
    simf = os.path.join(vlib.workdir(chk.prop), "Lifecycle_sim.cases.raw.ndjson")
    n = q(chk, 40, 1500)
    s = vlib.run_tlc(chk.prop, "Lifecycle", os.path.join(vlib.SPEC, "Lifecycle_sim.cfg"), workers=1, timeout=1500, emit_to=simf,
                     simulate="num=%d" % n, tlc_args=["-depth", "26", "-seed", str(chk.seed)], heap="3g")
    if s["violated"]:
        raise ToolError("Lifecycle simulation: %s" % s["violated"])
    uniq = os.path.join(vlib.workdir(chk.prop), "Lifecycle_sim.cases.ndjson")
    seen = set()
    with open(simf) as f, open(uniq, "w") as g:
        for line in f:
            if line not in seen:
                seen.add(line)
                g.write(line)
    if not seen:
        raise ToolError("Lifecycle simulation emitted no behaviour")
    chk.replay(uniq, tag=".lifesim", prop_driver="LIFE", timeout=3000, vacuity=False, only_keys=only_keys)
    # direction V: long random histories recorded from live issuers, validated by LifecycleTrace.tla
    import re as _re
    before = len(chk.violations)
    n_ev, n_tr = q(chk, (1500, 1), (4000, 6))
    record_and_validate(chk, "LIFE", "LifecycleTrace", "LifecycleTrace.cfg", n_ev, n_tr, "lifecycle",
                        canary=flip_lifecycle_trace, timeout=1200)
    kept = []
    for v in chk.violations[before:]:
        if _re.search(only_keys, v["key"]):
            kept.append(v)
        else:
            chk.extra.setdefault("deviations_belonging_to_other_properties", []).append(v["key"])
    del chk.violations[before:]
    chk.violations.extend(kept)
    chk.extra["lifecycle"] = dict(design_states=mc["states"], behaviours_exhaustive=r["cases"], behaviours_simulated=len(seen),
                                  simulated_depth=24, judged_keys=only_keys, recorded_traces=n_tr, recorded_events_each=n_ev)


@plan("C09")
def c09(chk):
    chk.rule = ("TLC explores the step machine of generate_method / purge_method (one action per storage call) from every "
                "pre-state (target method absent / general-purpose / embedded in each relationship x every set of relationship "
                "references incl. dangling ones; purge by the exact id and by an id carrying a URL query) under every subset of "
                "failing storage calls -- quick: subsets of the calls the operation makes, combined with faults on calls it never "
                "makes (exists / insert+sign / all others); thorough: every subset of the eight trait methods -- and checks "
                "all-or-nothing, no-silent-orphan and references-kept when the call returns. Every complete behaviour is replayed "
                "on CoreDocument and IotaDocument with fault-injecting wrappers around the shipped in-memory stores and judged by "
                "the property itself: err => document (exactly) and both stores unchanged; ok => method resolves, key id "
                "recorded, signing and verification work / after purge method, references, key and key id gone; undo_failed only "
                "when a storage call really failed; an untouched bystander method keeps working. Deviations from the reference's "
                "call sequence alone are reported as drift. Further stages: MethodDigest.tla (digest = f(fragment, key material) "
                "only, pack/unpack) and Lifecycle.tla (fault-free histories: document, key store and key-id store stay in step).")
    r = chk.mc("StorageTxn", "StorageTxn_%s.cfg" % chk.tier, workers=4, timeout=600, heap="2g")
    chk.replay(r["cases_file"], timeout=3000)
    chk.canary_cases(r["cases_file"], flip_txn_case)
    pre = vlib.tlc_model_check(chk.prop, "StorageTxn", "StorageTxn_prefix.cfg", emit=False, workers=2, timeout=300,
                               expect_violation=True, heap="2g")
    chk.extra["unrepaired_design_counterexample_found"] = bool(pre["violated"])
    if not pre["violated"]:
        raise ToolError("the unrepaired rollback design (reinsert) should violate AllOrNothing — the invariant is vacuous")
    # the key of the key-id store: MethodDigest depends on (fragment, key material) only -- MethodDigest.tla
    md = chk.mc("MethodDigest", "MethodDigest_%s.cfg" % chk.tier, workers=4, timeout=300, heap="2g")
    chk.replay(md["cases_file"], tag=".md", prop_driver="MD", timeout=1200, vacuity=False, extended=True)
    # composition: histories of generate / purge / issue / validate without faults -- document, key store and key-id
    # store stay in step (judged here); validation verdicts over the same histories are judged by the C02 check
    lifecycle_stage(chk, r"lifecycle/(generate|purge|issue|attach|detach|rebase|reset|revoke|unrevoke|panic|[a-z]+/inconsistent_state)")
    chk.level = "model_checking"
    chk.assumptions += ["a failing storage call has no effect and returns an error (the fault model of the property)",
                        "Ed25519/EdDSA only (the key type of the shipped in-memory store)"]


# ------------------------------------------------------------------------------------------------
# C15 — key stores
# ------------------------------------------------------------------------------------------------

def corrupt_race_trace(evs):
    """canary: claim that a losing insert succeeded"""
    for i in range(len(evs) // 3, len(evs)):
        e = evs[i]
        if e.get("ev") == "ret" and e["res"].get("ok") is False and "kid" not in e["res"]:
            # only flip results of inserts: find the matching call
            for j in range(i - 1, -1, -1):
                c = evs[j]
                if c.get("ev") == "call" and c["t"] == e["t"]:
                    if c["name"] == "insert_key_id":
                        e["res"]["ok"] = True
                        c["exp"]["ok"] = True
                        return "event %d: a failed racing insert reported as successful" % (i + 1)
                    break
    raise ToolError("canary: no losing insert in the recorded races")


@plan("C15")
def c15(chk):
    chk.rule = ("Sequential: TLC explores every history of generate/insert/sign/delete/exists and insert/get/delete_key_id with "
                "valid and invalid arguments up to MaxKeys issued ids (quick 3, thorough 4) x 2 digests; every transition is "
                "replayed on fresh JwkMemStore + KeyIdMemstore (fresh ids, public-only JWK, kid = thumbprint, alg, signatures "
                "verifying under the key's own public JWK and under no other stored key, deleted/never-issued ids inert); long "
                "random histories on one live store are trace-validated. Concurrent: TLC explores every interleaving of 3 "
                "threads x 5 plans on one digest (atomic design holds; non-atomic design violates AtMostOneWinner); real "
                "races of 2..16 threads are recorded with call/return stamps and TLC decides linearizability of every round.")
    r = chk.mc("KeyStore", "KeyStore_%s.cfg" % chk.tier, workers=4, timeout=900, heap="3g")
    chk.replay(r["cases_file"], timeout=3000)
    chk.canary_cases(r["cases_file"], flip_case_expectation)
    n_ev, n_tr = q(chk, (1500, 1), (5000, 6))
    record_and_validate(chk, "C15.seq", "KeyStoreTrace", "KeyStoreTrace.cfg", n_ev, n_tr, "key_store/trace",
                        canary=flip_ok_in_trace)
    # design-level interleavings
    chk.mc("MCKeyIdStore", "KeyIdStore_quick.cfg", emit=False, workers=q(chk, 4, 12), timeout=1800, heap="6g")
    bad = vlib.tlc_model_check(chk.prop, "MCKeyIdStore", "KeyIdStore_nonatomic.cfg", emit=False, workers=2, timeout=300,
                               expect_violation=True, heap="2g")
    if not bad["violated"]:
        raise ToolError("the non-atomic insert design should violate AtMostOneWinner — the invariant is vacuous")
    chk.extra["nonatomic_design_counterexample_found"] = True
    key_id_store_proofs(chk)
    # real races, linearizability decided by TLC
    rounds, n_tr = q(chk, (150, 1), (2500, 8))
    record_and_validate(chk, "C15.race", "KeyIdStoreTrace", "KeyIdStoreTrace.cfg", rounds, n_tr, "key_id_store/race",
                        canary=corrupt_race_trace, silent=True, timeout=3000)
    chk.assumptions += ["Ed25519/SHA-256 primitives trusted",
                        "real-thread races sample schedules; exhaustive interleaving holds for the TLA+ design model only"]
    stronghold_stage(chk, r["cases_file"])


def key_id_store_proofs(chk):
    """The concurrent design of the key-id store, unbounded: an inductive invariant (spec/proofs/KeyIdStoreInd.tla) discharged
    by Apalache for 16 threads and arbitrary histories, and proved by TLAPS for every set of threads. The non-atomic design
    must fail both (the obligations are not vacuous)."""
    d = os.path.join(vlib.SPEC, "proofs")
    good, bad = os.path.join(d, "KeyIdStoreInd.tla"), os.path.join(d, "KeyIdStoreIndBroken.tla")
    steps = [("Init => IndInv", ["--cinit=CInit", "--init=Init", "--inv=IndInv", "--length=0"]),
             ("IndInv /\\ Next => IndInv'", ["--cinit=CInit", "--init=IndInit", "--inv=IndInv", "--length=1"]),
             ("IndInv => AtMostOneWinner /\\ MappingIsWinners", ["--cinit=CInit", "--init=IndInit", "--inv=Safety", "--length=0"])]
    t0 = time.time()
    for what, args in steps:
        r = vlib.apalache_check(chk.prop, good, args)
        if not r["ok"]:
            chk.violations.append(dict(key="key_id_store/design/inductive_invariant",
                                       detail=dict(kind="tlc-invariant", tool="apalache", obligation=what, output=r["out"][-3000:])))
    r = vlib.apalache_check(chk.prop, bad, steps[1][1])
    if not r["error_found"]:
        raise ToolError("the non-atomic design passes the induction step — the inductive invariant is vacuous")
    log("[%s] Apalache: inductive invariant of the key-id store design holds (3 obligations, 16 threads, any history); the "
        "non-atomic design fails the induction step; %.1fs" % (chk.prop, time.time() - t0))
    chk.extra["design_proofs"] = dict(apalache_obligations=3, threads_apalache=16)
    if chk.tier != "thorough":
        return
    t0 = time.time()
    p = vlib.tlapm_check(chk.prop, os.path.join(d, "KeyIdStoreProof.tla"))
    if not p["ok"]:
        chk.violations.append(dict(key="key_id_store/design/proof",
                                   detail=dict(kind="tlc-invariant", tool="tlapm", output=p["out"][-3000:])))
    pb = vlib.tlapm_check(chk.prop, os.path.join(d, "KeyIdStoreProofBroken.tla"))
    if pb["ok"]:
        raise ToolError("TLAPS proves the invariant for the non-atomic design — the proof is vacuous")
    log("[%s] TLAPS: Spec => []IndInv and Spec => []Safety proved for every set of threads (%d obligations); the non-atomic "
        "design leaves %d of %d obligations unproved; %.1fs" % (chk.prop, p["obligations"], pb["failed"], pb["obligations"], time.time() - t0))
    chk.extra["design_proofs"].update(tlaps_obligations=p["obligations"], threads_tlaps="any finite set of positive naturals")


def stronghold_stage(chk, cases_file):
    """The same specification, the same drivers, the other shipped store: StrongholdStorage as key store AND key-id store."""
    dt = vlib.build_harness_sh()
    log("[%s] stronghold harness built in %.1fs" % (chk.prop, dt))
    before = len(chk.violations)
    with vlib.stronghold_backend(chk.prop):
        # every k-th transition (a fresh snapshot-backed stronghold per case costs ~80 ms); VERIF_SEED shifts the sample
        rows = vlib.read_ndjson(cases_file)
        # stratified: every (operation, argument class, kind of the named slot) gets the same number of transitions
        strata = {}
        for row in rows:
            op, pre = row["op"], row["pre"]
            sl = op.get("slot")
            kind = ("-" if sl is None else "never" if sl == 0 else
                    ("live" if sl in pre["live"] else "dead") + ("-bls" if sl in pre.get("bls", []) else ""))
            key = (op["name"], json.dumps({a: b for a, b in op.items() if a not in ("name", "slot", "d", "kid")}, sort_keys=True), kind)
            strata.setdefault(key, []).append(row)
        per = q(chk, 3, 40)
        sample = []
        for key in sorted(strata):
            rs = strata[key]
            off = (chk.seed * 7919) % len(rs)
            sample += (rs[off:] + rs[:off])[:per]
        chk.extra["stronghold_strata"] = len(strata)
        p = cases_file.replace(".cases.ndjson", ".stronghold.cases.ndjson")
        vlib.write_ndjson(p, sample)
        chk.replay(p, tag=".stronghold", timeout=3000, vacuity=False)
        chk.canary_cases(p, flip_case_expectation)
        record_and_validate(chk, "C15.seq", "KeyStoreTrace", "KeyStoreTrace.cfg", 1500, q(chk, 1, 2), "key_store/trace",
                            canary=flip_ok_in_trace, tag=".stronghold")
        record_and_validate(chk, "C15.race", "KeyIdStoreTrace", "KeyIdStoreTrace.cfg", 300, q(chk, 1, 2), "key_id_store/race",
                            canary=corrupt_race_trace, silent=True, timeout=3000, tag=".stronghold")
    for v in chk.violations[before:]:
        v["key"] = "stronghold/" + v["key"]
        v["detail"]["backend"] = "stronghold"
    chk.extra["stronghold"] = dict(cases_replayed=len(sample), of=len(rows))


# ------------------------------------------------------------------------------------------------
# C20 — resolver
# ------------------------------------------------------------------------------------------------

def flip_resolver_case(rows, k=3):
    out = []
    for r in rows:
        if r["result"] == "ok" and len(r["order"]) >= 2:
            r = json.loads(json.dumps(r))
            r["keys"] = r["keys"][:-1]          # claim one distinct DID is missing from the result map
            out.append(r)
            if len(out) >= k:
                break
    if not out:
        raise ToolError("canary: no successful multi-DID behaviour")
    return out


@plan("C20")
def c20(chk):
    chk.rule = ("TLC explores every behaviour of resolve_multiple: every handler table over 3 methods x every input list up to "
                "MaxInput (quick 3, thorough 4) over 4 DIDs (duplicates, unsupported methods) x every set of failing DIDs x "
                "EVERY completion order of the pending handler futures, checking dispatch-by-method, no call for unsupported "
                "methods, one entry per distinct DID and order-independence of the result. Every behaviour is replayed on both "
                "resolver flavours (Send+Sync and single-threaded) with gated handler futures polled by hand, opening the gates "
                "in the order TLC chose; the handler call log, the result map and single resolution of each DID are compared; "
                "did:jwk expansion is checked for public and private JWKs.")
    r = chk.mc("MCResolver", "Resolver_%s.cfg" % chk.tier, workers=q(chk, 4, 12), timeout=1800, heap=q(chk, "3g", "12g"))
    chk.replay(r["cases_file"], timeout=3000)
    chk.canary_cases(r["cases_file"], flip_resolver_case)
    chk.assumptions += ["futures::FuturesUnordered is driven by a hand-written poll loop (no runtime): completion order is fully "
                        "controlled by the harness; thread-level races between executor threads are not explored",
                        "the resolver's iota handler (network client) is out of reach offline"]


# ------------------------------------------------------------------------------------------------
# C11 — JOSE header policy
# ------------------------------------------------------------------------------------------------

def flip_accept_case(rows, k=3):
    out = []
    for r in rows:
        if r["out"].get("accept") is True and r["row"]["p"]["present"]:
            r = json.loads(json.dumps(r))
            r["out"]["accept"] = False
            r["out"]["verify"] = False
            out.append(r)
            if len(out) >= k:
                break
    if not out:
        raise ToolError("canary: no acceptable row")
    return out


@plan("C11")
def c11(chk):
    chk.rule = ("TLC enumerates the complete decision table over (protected, unprotected) header pairs: presence, alg placement, "
                "b64 in {absent,true,false} on either side, crit in {absent, [], [b64], [b64,b64], [alg], [exp], [x-unknown]}, "
                "shared registered (kid) and custom names, an unregistered 'exp' parameter — 24 601 rows — and evaluates the ten "
                "rules written from RFC 7515/7797. Every row is executed at every entry point: compact/flattened/general "
                "encoders (incl. detached and add_recipient against first recipients with b64 true/false), compact/flattened/"
                "general decoders on raw crafted tokens (row as only and as second signature) and JwsValidationItem::verify; "
                "acceptance is compared in BOTH directions.")
    r = chk.mc("JoseHeaderPolicy", "JoseHeaderPolicy_%s.cfg" % chk.tier, workers=4, timeout=600, heap="3g")
    rep = chk.replay(r["cases_file"], timeout=3000)
    chk.canary_cases(r["cases_file"], flip_accept_case)
    chk.assumptions += ["decision table: no trace direction; the table is complete inside the listed parameter shapes",
                        "a general-serialization token whose signatures disagree on b64 is decoded entry by entry (decoder-side "
                        "R9 is not stated by the property and not claimed)"]


# ------------------------------------------------------------------------------------------------
# C01 — JWS verification binds the signature to the bytes received
# ------------------------------------------------------------------------------------------------

def flip_jws_case(rows, k=3):
    out = []
    for r in rows:
        if r["outcome"] == "verified":
            r = json.loads(json.dumps(r))
            r["outcome"] = "refused"
            out.append(r)
            if len(out) >= k:
                break
    if not out:
        raise ToolError("canary: no verifying row")
    return out


@plan("C01")
def c01(chk):
    chk.rule = ("TLC explores the Decode;Verify machine of JwsVerify.tla from every received-token row: serialization x header "
                "JSON shape (canonical / reordered with whitespace) x b64 absent/true/false x payload attached/empty/missing x "
                "detached argument x alg in protected/unprotected/nowhere x alg pinned on the key absent/same/other x signature "
                "over SI / over the re-encoded header / over another payload / garbage / wrong length x EdDSA/ES256/ES256K x "
                "(general serialization) the entry under test alone / preceded by a valid entry that agrees / disagrees on b64, "
                "checking that 'verified' implies the verifier was called with exactly (protected alg, P.Y, caller's key). Every "
                "row is built as real bytes with real signatures and run through the decoder with a recording verifier: signing "
                "input, claims, alg source, verifier input and outcome are compared; for each verifying row every "
                "single-bit flip (quick: every bit for EdDSA rows, every ~6th for ECDSA rows; thorough: all) of the protected "
                "segment, payload (attached or detached) and signature must fail.")
    r = chk.mc("JwsVerify", "JwsVerify_%s.cfg" % chk.tier, workers=4, timeout=600, heap="3g")
    os.environ["VERIF_TIER"] = chk.tier
    rep = chk.replay(r["cases_file"], timeout=7000)
    chk.canary_cases(r["cases_file"], flip_jws_case)
    chk.assumptions += ["Ed25519 / P-256 / secp256k1 primitives trusted: what is checked is which bytes, algorithm and key they are "
                        "handed and that their verdict is honoured",
                        "ECDSA (r, n-s) malleability is a property of the primitive, not a single-bit flip, and is not counted"]


# ------------------------------------------------------------------------------------------------
# C08 — produced JWS decode and verify to what was signed
# ------------------------------------------------------------------------------------------------

def flip_produce_case(rows, k=3):
    out = []
    for r in rows:
        if r["cfg"]["part"] == "A" and r["outcome"] == "produced":
            r = json.loads(json.dumps(r))
            r["outcome"] = "refused_new"
            out.append(r)
            if len(out) >= k:
                break
    if not out:
        raise ToolError("canary: no produced row")
    return out


@plan("C08")
def c08(chk):
    chk.rule = ("Part A: TLC explores the encoder typestate machine (New, SetSignature, AddRecipient, IntoJws) for compact, "
                "flattened and general (1..3 recipients) encoders over 7 payload classes (url-safe, printable ASCII, with '.', "
                "with quotes/backslash, control characters, non-UTF-8 binary, 10 kB) x detached x charset x per-recipient b64 x "
                "unprotected header, predicting which step refuses; every produced token is decoded by the library's decoder and "
                "payload, signing input, both headers, verification under the signing key and non-verification under another key "
                "are compared. Part B: every JwsSignatureOptions combination (kid override, attach_jwk, b64, typ, cty, url, "
                "nonce, custom parameters incl. a colliding name, detached) x 3 methods of a document x 3 payload classes through "
                "create_jws, then all 36 verification attempts (method id none/signer/other x nonce same/different/none x scope "
                "none/vm/authentication/assertionMethod) through verify_jws, compared with the spec's VerifyOk.")
    r = chk.mc("JwsProduce", "JwsProduce_%s.cfg" % chk.tier, workers=4, timeout=900, heap="4g")
    chk.replay(r["cases_file"], timeout=7000)
    chk.canary_cases(r["cases_file"], flip_produce_case)
    chk.assumptions += ["Ed25519 only (the algorithm of the shipped in-memory store); an empty attached payload is excluded as in the "
                        "property",
                        "a custom header parameter colliding with a set parameter must be refused or yield a decodable token"]


# ------------------------------------------------------------------------------------------------
# C02 — JWT credential validation
# ------------------------------------------------------------------------------------------------

def flip_validation_case(rows, k=3):
    out = []
    for r in rows:
        if r["out"].get("accept") is True:
            r = json.loads(json.dumps(r))
            r["out"]["accept"] = False
            r["out"]["errs"] = ["signature"]
            out.append(r)
            if len(out) >= k:
                break
    if not out:
        raise ToolError("canary: no accepted row")
    return out


@plan("C02")
def c02(chk):
    chk.rule = ("TLC enumerates (a) the full signature-phase product: kid as full id of any of 12 (DID, fragment) pairs (incl. a decoy "
                "method of a foreign DID listed in the issuer document) / fragment only / absent / unparsable x configured method "
                "id (none or any of the 12) x scope none/assertionMethod/"
                "authentication x signing key K1/K2 x issuer claim (3 DIDs) x nonce on either side (3x3) x trusted documents "
                "(issuer only / issuer + a foreign document listing the same key); (b) the full unit-phase product: "
                "issuance -1/0/+1 s, expiry absent/-1/0/+1 s, 4 structures, 4 subject-holder modes x holder x nonTransferable, 6 "
                "status shapes x 3 status modes, fail-fast vs all-errors; (c) crafted claim sets stating expiry and issuance in "
                "exp / nbf / iat / vc in every consistent and inconsistent way; (d) rows with one failing condition in each phase; "
                "(e) Lifecycle.tla: every effective history of generate / purge / rotate / attach / detach / issue / revoke / "
                "unrevoke up to the tier's depth plus long simulated ones, earlier tokens validated against the document as it is "
                "now. The spec computes acceptance and the set of error kinds of the false conditions. Every row is issued "
                "as a real EdDSA-signed JWT against real documents and run through validate / verify_signature: accepted only if all "
                "conditions hold (a refusal of a row whose conditions all hold is reported as reference drift, not as a violation); "
                "a rejection must name a false condition (all of them when all errors are requested); the returned "
                "credential and custom claims must be the signed ones.")
    r = chk.mc("CredentialValidation", "CredentialValidation_%s.cfg" % chk.tier, workers=4, timeout=900, heap="6g")
    chk.replay(r["cases_file"], timeout=7000)
    chk.canary_cases(r["cases_file"], flip_validation_case)
    # beyond the list: the domain-linkage validator, which is built on this credential validator (DomainLinkage.tla)
    dl = chk.mc("DomainLinkage", "DomainLinkage_%s.cfg" % chk.tier, workers=4, timeout=300, heap="2g")
    chk.replay(dl["cases_file"], tag=".dl", prop_driver="DL", timeout=1200, vacuity=False, extended=True)
    # beyond the list: what "structurally well formed" means for credentials and presentations (CredentialStructure.tla)
    csx = chk.mc("CredentialStructure", "CredentialStructure_%s.cfg" % chk.tier, workers=2, timeout=300, heap="2g")
    chk.replay(csx["cases_file"], tag=".cs", prop_driver="CS", timeout=1200, vacuity=False, extended=True)
    # ... and the typed service wrappers that go with it (LinkedServices.tla)
    lsv = chk.mc("LinkedServices", "LinkedServices_%s.cfg" % chk.tier, workers=2, timeout=300, heap="2g")
    chk.replay(lsv["cases_file"], tag=".ls", prop_driver="LS", timeout=1200, vacuity=False, extended=True)
    # composition: earlier tokens validated against the document as it is NOW, over histories of generate / purge /
    # rotate / attach / detach / revoke / unrevoke (Lifecycle.tla); this check judges the validation verdicts
    lifecycle_stage(chk, r"lifecycle/(validate|panic)")
    chk.assumptions += ["validation bounds are set explicitly (no dependence on the current time)",
                        "with fail-fast any one false condition's error is accepted (the property says 'an error identifying it')",
                        "Ed25519 primitive trusted; status checking with RevocationBitmap2022 only"]


# ------------------------------------------------------------------------------------------------
# C03 — JWT presentation validation
# ------------------------------------------------------------------------------------------------

@plan("C03")
def c03(chk):
    chk.rule = ("TLC enumerates (a) the binding product: kid as full id / '#fragment' / bare fragment of two own methods, of a "
                "foreign-DID method listed in the holder document, a missing method, a method under the wrong DID, or absent x "
                "configured method id x signing key (3) x scope (4) x nonce on either side (3x3) x issuer claim (holder / other "
                "DID / not a DID) = 11 664 rows; (b) the claims product: exp absent/-1/0/+1 s/out of range x issuance none / nbf / "
                "iat / both (nbf decisive) at -1/0/+1 s / out of range x vp.holder absent/equal/different x vp.id absent/equal/"
                "different/present without jti = 660 rows. Each row is a real EdDSA-signed token validated against a real holder "
                "document: accept <=> all conditions, and on success holder, id, audience, dates and custom claims equal the "
                "signed ones.")
    r = chk.mc("PresentationValidation", "PresentationValidation_%s.cfg" % chk.tier, workers=4, timeout=600, heap="3g")
    chk.replay(r["cases_file"], timeout=3000)
    chk.canary_cases(r["cases_file"], flip_validation_case)
    chk.assumptions += ["bounds explicit or defaulting to the current time (assumed to lie between 2010 and 2100); Ed25519 trusted; error kinds are not compared (the property only asks for an error)"]


# ------------------------------------------------------------------------------------------------
# C07 — credential / presentation <-> JWT claims
# ------------------------------------------------------------------------------------------------

def flip_claims_case(rows, k=3):
    out = []
    for r in rows:
        if r["row"]["kind"] == "back" and r["out"].get("accept") is True:
            r = json.loads(json.dumps(r))
            r["out"]["accept"] = False
            out.append(r)
            if len(out) >= k:
                break
    if not out:
        raise ToolError("canary: no consistent claims row")
    return out


@plan("C07")
def c07(chk):
    chk.rule = ("TLC checks ToClaims/FromClaims of JwtClaims.tla (round-trip identity, carried-once law) on every credential over "
                "all optional fields (issuer URL/object, id, expiration, subject id/properties, status, 0..2 schemas, evidence, "
                "terms of use, refresh service, proof, nonTransferable none/true/false, extra properties, custom claims = 27 648 "
                "credentials), every presentation over its optional fields and options (4 608), and evaluates the consistency "
                "table for the reverse direction (each duplicated member registered absent/v x inner absent/v/w, exp and nbf out "
                "of range, nbf vs iat = 17 340 claim sets). The harness builds each credential/presentation, serialises it "
                "(JSON inspected for single occurrence), converts it back through the validators with an accept-all verifier and "
                "compares for equality; reverse rows are crafted claim sets: accept <=> consistent and in range, and on success "
                "the registered values are the ones used.")
    r = chk.mc("JwtClaims", "JwtClaims_%s.cfg" % chk.tier, workers=4, timeout=900, heap="4g")
    chk.replay(r["cases_file"], timeout=7000)
    chk.canary_cases(r["cases_file"], flip_claims_case)
    chk.assumptions += ["the claims types are crate-private: the way back goes through JwtCredentialValidator::verify_signature / "
                        "JwtPresentationValidator::validate with an accept-all JwsVerifier",
                        "absent custom claims and an empty custom-claims map are identified"]


# ------------------------------------------------------------------------------------------------
# C18 — JWK public projection, thumbprint, key-type coherence
# ------------------------------------------------------------------------------------------------

def flip_jwk_case(rows, k=3):
    out = []
    for r in rows:
        if r["out"].get("obtainable") and r["out"].get("is_public") is True and r["row"]["origin"] == "from_json":
            r = json.loads(json.dumps(r))
            r["out"]["is_public"] = False
            out.append(r)
            if len(out) >= k:
                break
    if not out:
        raise ToolError("canary: no public key row")
    return out


@plan("C18")
def c18(chk):
    chk.rule = ("TLC enumerates every JWK shape: parameter family EC/RSA/OKP/oct x every subset of its private members (all 128 "
                "subsets of d,p,q,dp,dq,qi,oth for RSA) x every subset of the optional members use/key_ops/alg/kid/x5u x member "
                "order x origin (from_json, from_params, new + set_params, set_kty) x declared key type equal / different, and "
                "computes obtainability, is_public, existence of a public projection and whether a verification method may be "
                "built. Each row is executed: kty always equals the carried parameter family; to_public has no private member, "
                "keeps the public part, is idempotent; thumbprint unchanged by private part, optional members and order; "
                "VerificationMethod::new_from_jwk and MethodBuilder refuse anything with a private member; generated keys and "
                "generated documents are public-only.")
    r = chk.mc("Jwk", "Jwk_%s.cfg" % chk.tier, workers=4, timeout=600, heap="3g")
    chk.replay(r["cases_file"], timeout=3000)
    chk.canary_cases(r["cases_file"], flip_jwk_case)
    chk.assumptions += ["SHA-256 trusted; key material is syntactic (parameters are not checked to be points on a curve)",
                        "set_params_unchecked is excluded (named unchecked)"]


# ------------------------------------------------------------------------------------------------
# C14 — IOTA state-metadata packing
# ------------------------------------------------------------------------------------------------

def flip_metadata_case(rows, k=3):
    out = []
    for r in rows:
        if r["ok"] and r["target"] == "t" and r["frame"] == "intact" and r["doc"]["services"]:
            r = json.loads(json.dumps(r))
            r["expect"]["services"] = []          # claim the services vanish on unpacking
            out.append(r)
            if len(out) >= k:
                break
    if not out:
        raise ToolError("canary: no suitable row")
    return out


@plan("C14")
def c14(chk):
    chk.rule = ("TLC explores Pack -> frame mutation -> Unpack for every document shape over DID tags (controllers, methods as "
                "(id DID, controller DID) pairs incl. foreign ones, an embedded method, references to own and foreign methods, "
                "services, alsoKnownAs, a custom property mentioning a foreign DID) x unpack target (same DID / another DID) x "
                "frame (intact, trailing bytes; on a slice of documents: each marker byte, version 0/2/255, encoding 1/255, "
                "length +1/+1000/-1/0, truncations, empty), checking round trip, rewrite-only-self, foreign-untouched and "
                "no-placeholder-left. Every behaviour is replayed on real IotaDocuments on rotating networks (own DID with / "
                "without network segment, targets on another / the default / the same network): the unpacked document must equal "
                "an independently built expected document; the 16-bit size limit is probed at 65 535 / 65 536 bytes.")
    r = chk.mc("StateMetadata", "StateMetadata_%s.cfg" % chk.tier, workers=4, timeout=900, heap="4g")
    chk.replay(r["cases_file"], timeout=3000)
    chk.canary_cases(r["cases_file"], flip_metadata_case)
    # beyond the list: where the packed bytes live -- the ledger life of a DID (IotaLedger.tla over a mock ledger)
    extended_stage(chk, "IotaLedger", "LEDGER", ".ledger", canary=flip_ledger_case)
    chk.assumptions += ["documents that mention the placeholder DID are outside the property's domain and are not generated",
                        "ledger address fields of the metadata are excepted (they are never packed)"]


# ------------------------------------------------------------------------------------------------
# C16 — SD-JWT credential and key-binding JWT validation
# ------------------------------------------------------------------------------------------------

def flip_sdjwt_case(rows, k=3):
    out = []
    for r in rows:
        if r["out"].get("verdict") == "accept" and r["row"]["part"] == "kb":
            r = json.loads(json.dumps(r))
            r["out"]["verdict"] = "reject"
            out.append(r)
            if len(out) >= k:
                break
    if not out:
        raise ToolError("canary: no accepted kb row")
    return out


def flip_jpt_case(rows, k=3):
    out = []
    for r in rows:
        if r["out"].get("accept") is True and r["row"]["form"] == "presented" and r["row"]["concealed"]:
            r = json.loads(json.dumps(r))
            r["out"]["shown"] = r["out"]["shown"] + [r["row"]["concealed"][0]]      # claim a concealed attribute shows
            out.append(r)
            if len(out) >= k:
                break
    if not out:
        raise ToolError("canary: no accepted presentation with a concealed attribute")
    return out


def flip_sdvc_case(rows, k=3):
    out = []
    for r in rows:
        if r["row"]["part"] == "type" and r["row"]["via"] == "with_resolver" and r["out"]["accept"] is False and \
                r["row"]["shape"] == "t1_t2" and r["row"]["k1"] == "embedded" and r["row"]["k2"] == "embedded" and r["row"]["has"] == [1]:
            r = json.loads(json.dumps(r))
            r["out"]["accept"] = True           # claim that the extended type's schema need not hold
            out.append(r)
            if len(out) >= k:
                break
    if not out:
        raise ToolError("canary: no row whose extended type rejects the credential")
    return out


def flip_sdvcflow_case(rows, k=3):
    out = []
    for r in rows:
        if r["row"]["part"] == "kb" and r["out"]["accept"] is False and r["row"]["required"] == "kid" and r["row"]["kb"] == "absent":
            r = json.loads(json.dumps(r))
            r["out"]["accept"] = True           # claim that a required key binding may be missing
            out.append(r)
            if len(out) >= k:
                break
    if not out:
        raise ToolError("canary: no row with a required but missing key binding")
    return out


def flip_tfr_case(rows, k=3):
    out = []
    for r in rows:
        if r["out"].get("accept") is True and r["row"]["update"] != "none" and r["row"]["which"] == "new":
            r = json.loads(json.dumps(r))
            r["out"]["accept"] = False          # claim that an updated credential is dead inside its new frame
            r["out"]["cause"] = "outside_timeframe"
            out.append(r)
            if len(out) >= k:
                break
    if not out:
        raise ToolError("canary: no accepted updated credential")
    return out


def flip_ledger_case(rows, k=3):
    out = []
    for r in rows:
        if r["op"]["name"] == "resolve" and r["res"].get("ok") and not r["res"].get("deactivated"):
            r = json.loads(json.dumps(r))
            r["res"]["version"] = r["res"]["version"] + 1        # claim that an older / other document is resolved
            out.append(r)
            if len(out) >= k:
                break
    if not out:
        raise ToolError("canary: no successful resolution in the ledger table")
    return out


def extended_stage(chk, module, driver, tag, canary=None, workers=2, timeout=1200):
    """A specification beyond the listed properties, run inside this property's plan: model-checked, replayed on the real
    code, deviations reported as EXTENDED-SPEC DEVIATION (never as violations of this property). Its canary must not be able
    to turn this property's verdict into a tool error, so a failing canary is recorded, not raised."""
    r = chk.mc(module, "%s_%s.cfg" % (module, chk.tier), workers=workers, timeout=300, heap="2g")
    chk.replay(r["cases_file"], tag=tag, prop_driver=driver, timeout=timeout, vacuity=False, extended=True)
    if canary:
        try:
            chk.canary_cases(r["cases_file"], canary, prop_driver=driver)
        except ToolError as e:
            log("[%s] NOTE: canary of the extended specification %s not demonstrated on this tree: %s" % (chk.prop, module, e))
            chk.extra.setdefault("extended_canary_not_demonstrated", []).append(module)
    return r


@plan("C16")
def c16(chk):
    chk.rule = ("TLC enumerates (a) the credential table: signing key x kid (full / fragment / missing method) x nonce on either "
                "side x issuer claim x disclosures (all, subset, none, reordered, forged extra, taken from another token, "
                "duplicated) x expiry boundary x revocation status x fail-fast mode; (b) the key-binding table: KB-JWT present, typ "
                "kb+jwt/JWT/absent, kid full/fragment/missing/absent, configured method id, signed by the holder key / another "
                "holder key / a foreign key, sd_hash right / over other disclosures / wrong, nonce and audience none/same/"
                "different, iat before/at/inside/at/after the window or long past / far future with no window. Every row is a real "
                "SD-JWT issued with SdObjectEncoder and signed with real Ed25519 keys; accept <=> fully bound (a duplicated "
                "disclosure may be accepted or refused), the reconstructed credential shows exactly the disclosed claims, and "
                "every failure is an error value, never a panic.")
    r = chk.mc("SdJwtValidation", "SdJwtValidation_%s.cfg" % chk.tier, workers=4, timeout=600, heap="3g")
    chk.replay(r["cases_file"], timeout=3000)
    chk.canary_cases(r["cases_file"], flip_sdjwt_case)
    # beyond the list: the other selective-disclosure format, JSON Proof Tokens with BBS+ (JptFlow.tla)
    extended_stage(chk, "JptFlow", "JPT", ".jpt", canary=flip_jpt_case)
    # ... and its revocation mechanism: validity timeframes kept alive by BBS+ signature updates (TimeframeRevocation.tla)
    extended_stage(chk, "TimeframeRevocation", "TFR", ".tfr", canary=flip_tfr_case)
    # ... and SD-JWT VC type metadata: schemas along extension chains, claim disclosability policies (SdJwtVcType.tla)
    extended_stage(chk, "SdJwtVcType", "SDVC", ".sdvc", canary=flip_sdvc_case)
    # ... and the SD-JWT VC token itself: issuer key discovery, validate, presentations, key binding (SdJwtVcFlow.tla)
    extended_stage(chk, "SdJwtVcFlow", "SDVCFLOW", ".sdvcflow", canary=flip_sdvcflow_case)
    chk.assumptions += ["sd-jwt-payload 0.2 (SdObjectEncoder/Decoder, SHA-256) trusted for disclosure hashing",
                        "the 'no latest bound' rows compare with the current time; iat is chosen decades away from any run"]


# ------------------------------------------------------------------------------------------------
# C05 — no panics on externally supplied data (exploration)
# ------------------------------------------------------------------------------------------------

# other specifications reused as input generators: (replay driver, module, cfg stem)
C05_GENERATORS = [("C10", "MCDidSyntax", "DidSyntax"), ("C13", "MCTimestamp", "Timestamp"), ("C17", "MCIotaDid", "IotaDid"),
                  ("C01", "JwsVerify", "JwsVerify"), ("C11", "JoseHeaderPolicy", "JoseHeaderPolicy"),
                  ("C16", "SdJwtValidation", "SdJwtValidation"), ("C12", "StatusList", "StatusList"),
                  ("C18", "Jwk", "Jwk"), ("C14", "StateMetadata", "StateMetadata")]


@plan("C05")
def c05(chk):
    chk.level = "exploration"
    chk.rule = ("Inputs are generated from the specifications: (a) Mutate.tla — TLC enumerates the mutation operators (delete, "
                "duplicate, replace, insert, truncate, swap, bit flip at first/last/every/delimiter positions with symbols of an "
                "adversarial alphabet incl. quotes, backslashes, invalid UTF-8, control and non-ASCII characters; JSON-level "
                "replace-value / remove / duplicate member / wrap / deep nesting); the harness applies each operator to every one "
                "of 42 valid seeds of 16 entry-point families (DID/DID-URL/IOTA DID/did:jwk/network names, timestamps, base "
                "encodings and integrity metadata, JWK/JWK sets, JWS headers, verification methods, services, Core/Iota documents, "
                "credentials/presentations/status entries/status-list credentials/option structs, encoded status lists, JWS in "
                "three serializations, packed state metadata and method digests, SD-JWT with KB-JWT and SD-JWT VC), expanded over "
                "positions and concrete characters, and runs every parser, decoder, validator and accessor of the family under "
                "catch_unwind with overflow checks on and a hang watchdog; (b) the case files TLC generates for the other "
                "properties are replayed and only their panic/hang verdicts are read. A case is distinct+non-trivial per (entry "
                "family, seed, mutation operator).")
    wd = vlib.workdir("C05")
    os.environ["VERIF_TIER"] = chk.tier
    os.environ["VERIF_BREADCRUMB"] = os.path.join(wd, "breadcrumb")
    r = chk.mc("Mutate", "Mutate_%s.cfg" % chk.tier, workers=2, timeout=300, heap="2g")
    try:
        chk.replay(r["cases_file"], timeout=q(chk, 1500, 10000))
    except ToolError as e:
        # the harness process died: a stack overflow / abort in code under test is a violation, with the breadcrumbs as context
        crumbs = []
        for f in sorted(os.listdir(wd)):
            if f.startswith("breadcrumb."):
                try:
                    crumbs.append(json.load(open(os.path.join(wd, f))))
                except Exception:
                    pass
        chk.violations.append(dict(key="no_panic/process_died", detail=dict(kind="abort", message=str(e)[-2000:], in_flight=crumbs[:16])))
        return
    chk.canary_cases(r["cases_file"], lambda rows: [{"level": "canary"}], prop_driver="C05")
    # specifications of the other properties as generators
    gens = C05_GENERATORS if chk.tier == "thorough" else C05_GENERATORS[:6]
    extra = {}
    for drv, module, stem in gens:
        g = vlib.tlc_model_check("C05", module, "%s_quick.cfg" % stem, workers=4, timeout=900, heap="4g")
        rep_path = os.path.join(wd, "gen_%s.json" % drv)
        vlib.vh(["replay", drv, g["cases_file"], rep_path], timeout=3000)
        rep = json.load(open(rep_path))
        bad = [m for m in rep["mismatches"] if "panic" in m["key"] or "hang" in m["key"]]
        extra[drv] = dict(cases=g["cases"], evaluations=rep["evaluations"], panics=len(bad))
        chk.evaluations += rep["evaluations"]
        for m in bad:
            chk.violations.append(dict(key="no_panic/via_%s/%s" % (drv, m["key"]), detail=m))
        log("[C05] generator %s: %d cases, %d evaluations, %d panics/hangs" % (drv, g["cases"], rep["evaluations"], len(bad)))
    chk.extra["spec_generators"] = extra
    chk.states = max(chk.states, 1)
    chk.assumptions += ["exploration, not proof: inputs are those reachable by one mutation of a valid seed (thorough: every "
                        "position) plus the tables of the other specifications",
                        "the harness is built with overflow-checks = true; stack exhaustion kills the process and is reported"]
