#!/usr/bin/env python3
"""Renders the measured per-property table of DESIGN.md section 3.0 from evidence/*.json (stdout, markdown)."""
import glob
import json
import os

ROOT = os.path.dirname(os.path.dirname(os.path.abspath(__file__)))
SPECS = {
    "C01": "JwsVerify", "C02": "CredentialValidation (+ DomainLinkage, LinkedServices, CredentialStructure, Lifecycle)", "C03": "PresentationValidation",
    "C04": "Document, MCDocument, DocumentTrace (+ LoadSpec, Document_prefix.cfg)", "C05": "Mutate + every other spec's tables as generators",
    "C06": "RevocationBitmap(+Trace)", "C07": "JwtClaims", "C08": "JwsProduce",
    "C09": "StorageTxn (+_prefix.cfg), MethodDigest, Lifecycle", "C10": "DidSyntax, MCDidSyntax, DidSyntaxTrace",
    "C11": "JoseHeaderPolicy", "C12": "StatusList(+Trace)", "C13": "Timestamp, MCTimestamp, TimestampTrace",
    "C14": "StateMetadata (+ IotaLedger)", "C15": "KeyStore(+Trace), KeyIdStore(+Trace), MCKeyIdStore (+_nonatomic.cfg), proofs/KeyIdStoreInd (Apalache, TLAPS); drivers also over StrongholdStorage",
    "C16": "SdJwtValidation (+ JptFlow, TimeframeRevocation, SdJwtVcType, SdJwtVcFlow)", "C17": "IotaDid, MCIotaDid", "C18": "Jwk", "C19": "OrderedSet, OneOrSet, OneOrMany (+Trace each)",
    "C20": "Resolver, MCResolver",
}


def fmt(n):
    return "{:,}".format(n).replace(",", " ")


def main():
    print("| Id | Spec module(s) | TLC: distinct states / transitions | cases executed on the real code | distinct non-trivial | traces validated (events) | canaries | tier, wall |")
    print("|----|----------------|------------------------------------|---------------------------------|----------------------|---------------------------|----------|------------|")
    for f in sorted(glob.glob(os.path.join(ROOT, "evidence", "C*.json"))):
        e = json.load(open(f))
        c = e["coverage"]
        print("| %s | %s | %s / %s | %s | %s | %s (%s) | %s | %s, %s s |" % (
            e["property_id"], SPECS.get(e["property_id"], ""), fmt(c.get("states", 0)), fmt(c.get("transitions", 0)),
            fmt(c.get("evaluations", 0)), fmt(c.get("distinct_nontrivial", 0)), c.get("traces_validated_against_impl", 0),
            fmt(c.get("trace_events", 0)), c.get("canaries_rejected", 0), e["tier"], e["wall_s"]))


if __name__ == "__main__":
    main()
