#!/usr/bin/env python3
"""Renders seeded/*/meta.json + result.json as a markdown table (stdout)."""
import glob, json, os
root = os.path.join(os.path.dirname(os.path.dirname(os.path.abspath(__file__))), "seeded")
print("| id | property | kind | needs to manifest | checks run -> exit (first violation keys) |")
print("|----|----------|------|-------------------|-------------------------------------------|")
for d in sorted(glob.glob(os.path.join(root, "*/"))):
    mp, rp = os.path.join(d, "meta.json"), os.path.join(d, "result.json")
    if not (os.path.exists(mp) and os.path.exists(rp)):
        continue
    m, r = json.load(open(mp)), json.load(open(rp))
    kind = "benign (must NOT alarm)" if m.get("benign") else "breaking"
    if m.get("regression_of_fix"):
        kind = "regression: fix %s reversed" % m["regression_of_fix"]
    if m.get("framework_author_assessment", {}).get("violates_property_as_stated") is False:
        kind = "behaviour change that does not contradict the property as stated (see meta.json)"
    need = (m.get("needs_to_manifest") or m.get("summary") or "").replace("|", "/").replace("\n", " ")
    if len(need) > 230:
        need = need[:227] + "..."
    res = "; ".join("%s -> %d (%s)" % (p, v["exit"], ", ".join(k.split("/", 1)[-1] for k in v["keys"][:2]) or
                                       ("extended-spec deviation: " + ", ".join(x.split("/", 1)[-1] for x in v.get("extended_spec_deviations", [])[:2])
                                        if v.get("extended_spec_deviations") and str(m.get("property", "")).startswith("EXT") else "-"))
                    for p, v in r["results"].items())
    print("| %s | %s | %s | %s | %s |" % (os.path.basename(d.rstrip("/")), m.get("property"), kind, need, res))
