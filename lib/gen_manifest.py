#!/usr/bin/env python3
"""Regenerates /verif/MANIFEST.json from the table below (single source of truth for the interface)."""
import json
import os
import sys

sys.path.insert(0, os.path.dirname(os.path.abspath(__file__)))

ROOT = os.path.dirname(os.path.dirname(os.path.abspath(__file__)))
ALL = ["C%02d" % i for i in range(1, 21)]

# property -> (technique, level category, level text, level note, design ref)
from claims import CLAIMED  # noqa: E402

NOT_YET = "check not built yet in this session (work in progress; see DESIGN.md §3 for the planned TLA+ spec and binding)"


def main():
    checks = []
    for p in ALL:
        if p not in CLAIMED:
            continue
        tech, cat, text, note, ref = CLAIMED[p]
        checks.append({
            "property_id": p,
            "quick_cmd": "bin/check %s --tier quick" % p,
            "thorough_cmd": "bin/check %s --tier thorough" % p,
            "evidence_file": "/verif/evidence/%s.json" % p,
            "replay_cmd_template": "bin/check %s --replay {path}" % p,
            "engine": "tlc+vh",
            "level_claimed": {"category": cat, "text": text, "design_ref": ref},
            "level_note": note,
            "technique": tech,
        })
    m = {
        "version": 1,
        "setup_cmd": "bin/setup",
        "hooks": {
            "guard": "--cfg identity_rs_verif",
            "enable": "harness/.cargo/config.toml passes --cfg identity_rs_verif to every crate of the path-dependent /repo build "
                      "(no hook is currently needed: the library is sequential and its abstract state is readable through the public API)",
            "baseline_off_cmd": "cd /repo && cargo test --workspace --no-fail-fast --offline",
            "source_commits": [],
            "add_only": True,
        },
        "engines": [
            {"name": "tlc+vh", "path": "/verif/bin/check",
             "serves_properties": sorted(CLAIMED.keys()),
             "kind_free_text": "explicit TLA+ specifications (spec/*.tla) model-checked with TLC; bound to the code by replaying "
                               "TLC-generated transitions in the Rust harness (harness/, path dependency on /repo) and by TLC trace "
                               "validation of executions recorded from the real code; a second harness binary (harness_sh/) runs the C15 drivers "
                               "over StrongholdStorage; for C15 the inductive invariant of the key-id store design is additionally "
                               "discharged by Apalache and (thorough tier) proved by TLAPS (spec/proofs/)"},
        ],
        "checks": checks,
        "not_applicable": [{"property_id": p, "reason": NOT_YET} for p in ALL if p not in CLAIMED],
        "notes": "Checks rebuild the harness from /repo's working tree on every run. Exit 0 held / 1 VIOLATION / 2 tool error. "
                 "known_findings.json lists open findings (KNOWN-FINDING lines) and fixed ones.",
    }
    with open(os.path.join(ROOT, "MANIFEST.json"), "w") as f:
        json.dump(m, f, indent=1)
    print("MANIFEST.json: %d checks, %d not claimed" % (len(checks), len(m["not_applicable"])))


if __name__ == "__main__":
    main()
