#!/usr/bin/env python3
"""Regenerates /verif/MANIFEST.json from the table below (single source of truth for the interface)."""
import json
import os

ROOT = os.path.dirname(os.path.dirname(os.path.abspath(__file__)))
ALL = ["C%02d" % i for i in range(1, 21)]

# property -> (technique, level category, level text, level note, design ref)
CLAIMED = {
    "C19": ("TLA+ specs OrderedSet/OneOrSet/OneOrMany model-checked by TLC; every TLC transition replayed on the real "
            "collections; recorded random histories validated by TLC trace specs",
            "model_checking",
            "TLC enumerates every (abstract state, operation, argument) transition of the three collection specs inside a "
            "small key/value universe and checks key-uniqueness, non-emptiness, the singleton-shape rule and per-operation "
            "order/flag laws on each; the Rust harness replays every transition on the real types and compares result flag, "
            "resulting order and JSON shape; long seeded random histories of the real types are validated against the spec "
            "by TLC (trace validation) with a corrupted-trace canary on every run.",
            "Exhaustive only inside the cfg universe (3-4 keys, 2 payload values, lists up to 3); beyond it seeded random. "
            "serde_json trusted.",
            "DESIGN.md §3 C19"),
    "C12": ("TLA+ spec StatusList (bit-vector window + credential layer + validator status) model-checked by TLC; every "
            "transition replayed on real lists at several placements; recorded histories validated by TLC",
            "model_checking",
            "TLC enumerates every (window value, op, argument) transition of the one-byte (quick) / two-byte (thorough) window "
            "model for both purposes and checks bit independence, refusal-leaves-unchanged, one-way revocation, reversible "
            "suspension and the reported-status equivalence as action properties; each transition is replayed on real "
            "StatusList2021 / StatusList2021Credential objects at several list sizes and byte offsets, decoding the library's "
            "own encoded list independently to compare the window and to check all other bytes stay zero; random histories of "
            "live objects are trace-validated.",
            "gzip/base64 codecs trusted; window of 8/16 bits, all other bytes only checked to remain zero.",
            "DESIGN.md §3 C12"),
    "C04": ("TLA+ spec Document (set-of-entries model of CoreDocument, code-shaped guards) model-checked by TLC; every "
            "transition and every state's resolution table replayed on real documents; random histories trace-validated",
            "model_checking",
            "TLC explores every document reachable from every small valid initial document (incl. dangling/foreign references) "
            "under all six checked mutations with every argument, checking the id-uniqueness/aliasing/service-id invariants in "
            "every state and refusal-leaves-unchanged on every transition; each transition is replayed on real CoreDocuments "
            "(deserialised and builder-built, model relationships mapped onto all order-preserving choices of the five real "
            "ones) comparing result, resulting document, JSON round trip, and the complete resolution table (every query x "
            "scope, resolve_method/_mut/resolve_service, by entry identity); long random histories over 12 ids x 5 "
            "relationships are validated against the spec by TLC.",
            "Exhaustive inside 3 ids x 2 relationships (quick) / 4 ids incl. a URL-query variant (thorough, sampled replay); "
            "method/service content other than ids assumed irrelevant.",
            "DESIGN.md §3 C04"),
}

NOT_YET = "check not built yet in this session (work in progress; see DESIGN.md §3 for the planned TLA+ spec and binding)"


def main():
    checks = []
    for p in ALL:
        if p not in CLAIMED:
            continue
        tech, cat, text, note, ref = CLAIMED[p]
        checks.append({
            "property_id": p,
            "quick_cmd": "bin/check %s --tier quick" % p,
            "thorough_cmd": "bin/check %s --tier thorough" % p,
            "evidence_file": "/verif/evidence/%s.json" % p,
            "replay_cmd_template": "bin/check %s --replay {path}" % p,
            "engine": "tlc+vh",
            "level_claimed": {"category": cat, "text": text, "design_ref": ref},
            "level_note": note,
            "technique": tech,
        })
    m = {
        "version": 1,
        "setup_cmd": "bin/setup",
        "hooks": {
            "guard": "--cfg identity_rs_verif",
            "enable": "harness/.cargo/config.toml passes --cfg identity_rs_verif to every crate of the path-dependent /repo build "
                      "(no hook is currently needed: the library is sequential and its abstract state is readable through the public API)",
            "baseline_off_cmd": "cd /repo && cargo test --workspace --no-fail-fast --offline",
            "source_commits": [],
            "add_only": True,
        },
        "engines": [
            {"name": "tlc+vh", "path": "/verif/bin/check",
             "serves_properties": sorted(CLAIMED.keys()),
             "kind_free_text": "explicit TLA+ specifications (spec/*.tla) model-checked with TLC; bound to the code by replaying "
                               "TLC-generated transitions in the Rust harness (harness/, path dependency on /repo) and by TLC trace "
                               "validation of executions recorded from the real code"},
        ],
        "checks": checks,
        "not_applicable": [{"property_id": p, "reason": NOT_YET} for p in ALL if p not in CLAIMED],
        "notes": "Checks rebuild the harness from /repo's working tree on every run. Exit 0 held / 1 VIOLATION / 2 tool error. "
                 "known_findings.json lists open findings (KNOWN-FINDING lines) and fixed ones.",
    }
    with open(os.path.join(ROOT, "MANIFEST.json"), "w") as f:
        json.dump(m, f, indent=1)
    print("MANIFEST.json: %d checks, %d not claimed" % (len(checks), len(m["not_applicable"])))


if __name__ == "__main__":
    main()
