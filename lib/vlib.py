"""Driver library for /verif/bin/check.

A check is a list of stages over TLA+ specifications and the Rust harness:
  mc        TLC model-checks spec/<Module>.tla with a tier cfg; emits CASE lines (direction R input)
  replay    `vh replay` executes every emitted case against the real code
  record    `vh record` produces ndjson traces from seeded random drivers on the real code
  validate  TLC checks that a recorded trace is a behaviour of the spec (direction V)
  canary    corrupts one recorded trace / one emitted case and demands a rejection (binding proof)
Exit codes: 0 held; 1 VIOLATION (with replay file); 2 tool error / timeout.
"""
import hashlib
import json
import os
import re
import subprocess
import sys
import time

VERIF = os.path.dirname(os.path.dirname(os.path.abspath(__file__)))
SPEC = os.path.join(VERIF, "spec")
WORK = os.path.join(VERIF, "work")
HARNESS = os.path.join(VERIF, "harness")
VH = os.path.join(WORK, "target", "release", "vh")
EVID = os.path.join(VERIF, "evidence")
REPLAYS = os.path.join(VERIF, "replays")
KNOWN = os.path.join(VERIF, "known_findings.json")
TLA_JAR = "/opt/veriftools/tla/tla2tools.jar"


class ToolError(Exception):
    pass


def log(msg):
    print(msg, flush=True)


def sh(cmd, cwd=None, env=None, timeout=None, capture=True):
    e = dict(os.environ)
    e.update({"CARGO_NET_OFFLINE": "true"})
    if env:
        e.update(env)
    try:
        p = subprocess.run(cmd, cwd=cwd, env=e, timeout=timeout, stdout=subprocess.PIPE if capture else None,
                           stderr=subprocess.STDOUT if capture else None, text=True, errors="replace")
    except subprocess.TimeoutExpired:
        raise ToolError("timeout after %ss: %s" % (timeout, " ".join(cmd)[:200]))
    return p.returncode, (p.stdout or "")


def build_harness():
    """Rebuilds the harness against /repo's current working tree (no-op when unchanged)."""
    t0 = time.time()
    # copy the lock file once; cargo cannot generate one offline (yanked crate in the index)
    lock = os.path.join(HARNESS, "Cargo.lock")
    if not os.path.exists(lock):
        import shutil
        shutil.copy("/repo/Cargo.lock", lock)
    rc, out = sh(["cargo", "build", "--release", "--offline", "-q"], cwd=HARNESS, timeout=3000)
    if rc != 0:
        sys.stdout.write(out[-6000:])
        raise ToolError("harness build failed (the repository tree does not compile with the harness)")
    return time.time() - t0


HARNESS_SH = os.path.join(VERIF, "harness_sh")
VH_SH = os.path.join(WORK, "target_sh", "release", "vh_sh")


def build_harness_sh():
    """Second harness binary (C15 drivers over StrongholdStorage); only the thorough tier of C15 needs it."""
    t0 = time.time()
    lock = os.path.join(HARNESS_SH, "Cargo.lock")
    if not os.path.exists(lock):
        import shutil
        shutil.copy("/repo/Cargo.lock", lock)
    rc, out = sh(["cargo", "build", "--release", "--offline", "-q"], cwd=HARNESS_SH, timeout=3000)
    if rc != 0:
        sys.stdout.write(out[-6000:])
        raise ToolError("stronghold harness build failed")
    return time.time() - t0


class stronghold_backend(object):
    """with stronghold_backend(prop): every vh call inside runs the StrongholdStorage binary; snapshot files live in a
    directory under work/ that is emptied afterwards."""

    def __init__(self, prop):
        self.dir = os.path.join(workdir(prop), "sh_tmp")

    def __enter__(self):
        global VH
        os.makedirs(self.dir, exist_ok=True)
        self.old = VH
        VH = VH_SH
        os.environ["VH_SH_DIR"] = self.dir
        return self

    def __exit__(self, *a):
        global VH
        VH = self.old
        os.environ.pop("VH_SH_DIR", None)
        for n in os.listdir(self.dir):
            if n.endswith(".stronghold"):
                try:
                    os.remove(os.path.join(self.dir, n))
                except OSError:
                    pass
        return False


def workdir(prop):
    d = os.path.join(WORK, prop)
    os.makedirs(d, exist_ok=True)
    return d


TLC_STATS = re.compile(r"(\d+) states generated, (\d+) distinct states found")
CASE_RE = re.compile(r'^<<"CASE", (".*")>>$')


def run_tlc(prop, module, cfg, workers=8, timeout=600, emit_to=None, extra_env=None, java_opts=None,
            simulate=None, expect_violation=False, heap="4g", tlc_args=None):
    """Runs TLC. Returns dict(states, transitions, ok, out, violated, cases)."""
    wd = workdir(prop)
    md = os.path.join(wd, "md_%s_%d" % (os.path.basename(cfg), os.getpid()))
    cmd = ["java", "-XX:+UseParallelGC", "-Xmx" + heap, "-Xss64m"]
    if java_opts:
        cmd += java_opts
    cmd += ["-cp", TLA_JAR + ":/opt/veriftools/tla/CommunityModules-deps.jar", "tlc2.TLC",
            "-workers", str(workers), "-metadir", md, "-cleanup", "-noGenerateSpecTE",
            "-config", cfg]
    if simulate:
        cmd += ["-simulate", simulate]
    if tlc_args:
        cmd += tlc_args
    cmd += [os.path.join(SPEC, module + ".tla")]
    t0 = time.time()
    env = dict(os.environ)
    if extra_env:
        env.update(extra_env)
    outpath = os.path.join(wd, "tlc_%s.out" % os.path.basename(cfg))
    ncases = 0
    violated = None
    states = trans = 0
    tail = []
    finished = False
    try:
        with subprocess.Popen(cmd, cwd=wd, env=env, stdout=subprocess.PIPE, stderr=subprocess.STDOUT, text=True,
                              errors="replace") as p, open(outpath, "w") as rawout:
            casef = open(emit_to, "w") if emit_to else None
            # the time limit must not depend on TLC printing something: a TLC stuck in one evaluation (e.g. an eagerly
            # evaluated constant definition) is silent
            import threading
            timed_out = []
            watchdog = threading.Timer(timeout, lambda: (timed_out.append(True), p.kill()))
            watchdog.daemon = True
            watchdog.start()
            try:
                for line in p.stdout:
                    if time.time() - t0 > timeout:
                        p.kill()
                        raise ToolError("TLC timeout after %ss on %s" % (timeout, cfg))
                    m = CASE_RE.match(line.rstrip("\n"))
                    if m:
                        if casef:
                            casef.write(json.loads(m.group(1)) + "\n")
                        ncases += 1
                        continue
                    rawout.write(line)
                    tail.append(line)
                    if len(tail) > 400:
                        tail.pop(0)
                    m = TLC_STATS.search(line)
                    if m:
                        trans, states = int(m.group(1)), int(m.group(2))
                    if "is violated" in line or "Error:" in line:
                        if violated is None:
                            violated = line.strip()
                    if "Model checking completed" in line or "Finished in" in line:
                        finished = True
            finally:
                watchdog.cancel()
                if casef:
                    casef.close()
            p.wait()
            rc = p.returncode
            if timed_out:
                raise ToolError("TLC timeout after %ss on %s" % (timeout, cfg))
    finally:
        subprocess.run(["rm", "-rf", md])
    out = "".join(tail)
    res = dict(states=states, transitions=trans, rc=rc, out=out, violated=violated, cases=ncases,
               wall=time.time() - t0, finished=finished, outpath=outpath)
    if violated and not expect_violation:
        return res
    if rc != 0 and not violated:
        raise ToolError("TLC failed (rc=%s) on %s:\n%s" % (rc, cfg, out[-3000:]))
    return res


def tlc_model_check(prop, module, cfg_name, emit=True, **kw):
    cfg = os.path.join(SPEC, cfg_name)
    cases = os.path.join(workdir(prop), cfg_name.replace(".cfg", "") + ".cases.ndjson") if emit else None
    r = run_tlc(prop, module, cfg, emit_to=cases, **kw)
    r["cases_file"] = cases
    return r


def apalache_check(prop, module_path, args, timeout=900):
    """Runs apalache-mc check in a scratch directory under work/. Returns dict(ok, error_found, out)."""
    wd = os.path.join(workdir(prop), "apalache")
    os.makedirs(wd, exist_ok=True)
    rc, out = sh(["apalache-mc", "check", "--out-dir=" + os.path.join(wd, "out"), "--run-dir=" + os.path.join(wd, "run")] + list(args) +
                 [module_path], cwd=os.path.dirname(module_path), timeout=timeout)
    ok = "The outcome is: NoError" in out
    bad = "The outcome is: Error" in out or "Checker has found an error" in out
    if not ok and not bad:
        raise ToolError("apalache-mc gave no verdict on %s %s:\n%s" % (os.path.basename(module_path), " ".join(args), out[-2000:]))
    return dict(ok=ok, error_found=bad, out=out)


def tlapm_check(prop, module_path, timeout=900):
    """Runs the TLA+ proof system on a module; a scratch copy of its directory keeps the cache out of spec/.
    Returns dict(ok, obligations, failed, out)."""
    import shutil
    src = os.path.dirname(module_path)
    wd = os.path.join(workdir(prop), "tlapm")
    if os.path.isdir(wd):
        shutil.rmtree(wd)
    shutil.copytree(src, wd)
    rc, out = sh(["tlapm", "--threads", "8", os.path.basename(module_path)], cwd=wd, timeout=timeout)
    m = re.search(r"All (\d+) obligations? proved", out)
    f2 = re.search(r"(\d+)/(\d+) obligations? failed", out)
    if m:
        return dict(ok=True, obligations=int(m.group(1)), failed=0, out=out)
    if f2:
        return dict(ok=False, obligations=int(f2.group(2)), failed=int(f2.group(1)), out=out)
    raise ToolError("tlapm gave no verdict on %s:\n%s" % (os.path.basename(module_path), out[-2000:]))


def vh(args, timeout=1800):
    rc, out = sh([VH] + [str(a) for a in args], timeout=timeout)
    if rc != 0:
        raise ToolError("vh %s failed rc=%s:\n%s" % (" ".join(map(str, args))[:200], rc, out[-3000:]))
    return out


def vh_replay(prop, cases_file, tag="", timeout=1800):
    rep = os.path.join(workdir(prop), "report%s.json" % tag)
    vh(["replay", prop, cases_file, rep], timeout=timeout)
    with open(rep) as f:
        return json.load(f)


def vh_record(driver, seed, n, out_file, timeout=1800):
    vh(["record", driver, seed, n, out_file], timeout=timeout)
    return out_file


TRACE_JAVA = ["-Dtlc2.tool.queue.IStateQueue=StateDeque"]
UNMATCHED_RE = re.compile(r"TRACE-REJECTED matched=(\d+) of (\d+)")


def validate_trace(prop, trace_module, trace_cfg, trace_file, timeout=900, heap="4g", silent=False):
    """TLC trace validation. Returns dict(accepted, matched, total, out).

    silent=True: the trace spec takes unlogged (silent) steps, e.g. linearisation points; reaching the end of the recorded
    events is witnessed by the violation of the invariant NotDone (l <= Len(Rec)); if TLC exhausts the state space without
    violating it the trace is rejected and the POSTCONDITION prints the highest event index reached."""
    cfg = os.path.join(SPEC, trace_cfg)
    r = run_tlc(prop + "/v", trace_module, cfg, workers=1, timeout=timeout, extra_env={"TRACE": trace_file},
                java_opts=TRACE_JAVA + ["-Xss1g"], expect_violation=True, heap=heap,
                tlc_args=["-difftrace"] if silent else None)
    out = r["out"]
    m = UNMATCHED_RE.search(out)
    if silent:
        total = sum(1 for _ in open(trace_file))
        if "Invariant NotDone is violated" in out or (r["violated"] and "NotDone" in r["violated"]):
            return dict(accepted=True, matched=total, total=total, out=out, states=r["states"])
        if m:
            return dict(accepted=False, matched=int(m.group(1)), total=int(m.group(2)), out=out, states=r["states"])
        raise ToolError("trace validation (silent mode) gave no verdict on %s:\n%s" % (trace_file, out[-3000:]))
    if "TRACE-ACCEPTED" in out and not m:
        am = re.search(r"TRACE-ACCEPTED events=(\d+)", out)
        n = int(am.group(1)) if am else 0
        return dict(accepted=True, matched=n, total=n, out=out, states=r["states"])
    if m:
        return dict(accepted=False, matched=int(m.group(1)), total=int(m.group(2)), out=out, states=r["states"])
    if "The error occurred when TLC was evaluating" in out and r["states"] >= 1:
        # the next event cannot even be evaluated against the specification (e.g. it records a panic or a failure and lacks
        # the fields every specified outcome has): no step of the specification matches it -> rejected at that event
        total = sum(1 for _ in open(trace_file))
        return dict(accepted=False, matched=min(r["states"] - 1, total), total=total, out=out, states=r["states"])
    raise ToolError("trace validation gave no verdict on %s:\n%s" % (trace_file, out[-3000:]))


def read_ndjson(path):
    with open(path) as f:
        return [json.loads(l) for l in f if l.strip()]


def write_ndjson(path, rows):
    with open(path, "w") as f:
        for r in rows:
            f.write(json.dumps(r, separators=(",", ":")) + "\n")


def load_known():
    if not os.path.exists(KNOWN):
        return {"open": [], "fixed": []}
    with open(KNOWN) as f:
        return json.load(f)


class Check:
    """Accumulates results of one property check and renders verdict + evidence."""

    def __init__(self, prop, tier, seed, level="model_checking"):
        self.prop, self.tier, self.seed, self.level = prop, tier, seed, level
        self.t0 = time.time()
        self.states = 0
        self.transitions = 0
        self.evaluations = 0
        self.distinct = 0
        self.traces = 0
        self.trace_events = 0
        self.samples = []
        self.violations = []   # dicts(key, detail)
        self.notes = []
        self.extra = {}
        self.exhaustive = True
        self.assumptions = []
        self.rule = ""
        self.canaries = 0

    # -- stage helpers -------------------------------------------------------------------------
    def mc(self, module, cfg_name, emit=True, **kw):
        r = tlc_model_check(self.prop, module, cfg_name, emit=emit, **kw)
        log("[%s] TLC %s/%s: %d distinct states, %d transitions, %d cases emitted, %.1fs" %
            (self.prop, module, cfg_name, r["states"], r["transitions"], r["cases"], r["wall"]))
        self.states += r["states"]
        self.transitions += r["transitions"]
        self.extra.setdefault("tlc_runs", []).append(
            dict(module=module, cfg=cfg_name, states=r["states"], transitions=r["transitions"], cases=r["cases"],
                 wall_s=round(r["wall"], 1)))
        if r["violated"]:
            # an invariant of the reference specification failed: a design-level finding (or a spec bug).
            self.violations.append(dict(key="%s/spec/%s" % (self.prop, module),
                                        detail=dict(kind="tlc-invariant", module=module, cfg=cfg_name,
                                                    message=r["violated"], output=r["out"][-4000:])))
        elif not r["finished"]:
            raise ToolError("TLC did not finish on %s" % cfg_name)
        if r["states"] < 1:
            raise ToolError("TLC explored no state on %s" % cfg_name)
        return r

    OUTCOME_PATHS = ("res.ok", "res.v", "out.accept", "out.ok", "out.valid", "out.verdict", "out.acc", "outcome", "result", "ok")
    TOTAL_OPS = {"C06": ("res.ok",)}   # specs whose operations are total: a constant 'ok' flag is not vacuity
    CLASS_PATHS = ("op.name", "row.kind", "kind", "row.part", "row.phase", "cfg.part", "cfg.kind", "frame", "m")

    def vacuity(self, cases_file):
        """Vacuity guard: tallies, over the cases TLC emitted, the predicted outcome classes and operation kinds.
        A table/state machine whose emitted cases all predict the same outcome exercises only one side of the
        property (an antecedent that never holds); that is a tool error, not a pass."""
        tallies = {}
        with open(cases_file) as f:
            for line in f:
                if not line.strip():
                    continue
                row = json.loads(line)
                for path in self.OUTCOME_PATHS + self.CLASS_PATHS:
                    v = row
                    for k in path.split("."):
                        v = v.get(k) if isinstance(v, dict) else None
                        if v is None:
                            break
                    if v is None or isinstance(v, (dict, list)):
                        continue
                    t = tallies.setdefault(path, {})
                    key = json.dumps(v) if not isinstance(v, str) else v
                    t[key] = t.get(key, 0) + 1
        name = os.path.basename(cases_file)
        self.extra.setdefault("case_classes", {})[name] = tallies
        for path in self.OUTCOME_PATHS:
            if path in tallies and len(tallies[path]) < 2 and path not in self.TOTAL_OPS.get(self.prop, ()):
                raise ToolError("vacuity: every case of %s predicts %s=%s — one side of the property is never exercised" %
                                (name, path, list(tallies[path])[0]))
        return tallies

    def replay(self, cases_file, tag="", prop_driver=None, timeout=1800, vacuity=True, only_keys=None, extended=False):
        """only_keys: regex; a mismatch whose key does not match belongs to ANOTHER property's check (shared composition
        specs) and is noted here, not reported as a violation of this property."""
        if vacuity:
            self.vacuity(cases_file)
        rep = vh_replay(prop_driver or self.prop, cases_file, tag=tag, timeout=timeout)
        log("[%s] replay %s: %d evaluations, %d distinct non-trivial, %d mismatches" %
            (self.prop, os.path.basename(cases_file), rep["evaluations"], rep["distinct_nontrivial"],
             rep["mismatches_total"]))
        self.evaluations += rep["evaluations"]
        self.distinct += rep["distinct_nontrivial"]
        for s in rep["samples"]:
            if len(self.samples) < 8:
                self.samples.append(s)
        if extended:
            # a specification that grows beyond the listed properties: its deviations are reported and recorded, but they
            # are not violations of THIS property
            for m in rep["mismatches"][:5]:
                log("EXTENDED-SPEC DEVIATION (outside property %s, not a violation of it): %s" % (self.prop, m["key"]))
            if rep["mismatches"]:
                self.extra.setdefault("extended_spec_deviations", []).extend(
                    dict(key=m["key"], case=m.get("case"), expected=m.get("expected"), observed=m.get("observed")) for m in rep["mismatches"][:10])
            rep = dict(rep, mismatches=[], mismatches_total=0)
        for m in rep["mismatches"]:
            if only_keys and not re.search(only_keys, m["key"]):
                self.extra.setdefault("deviations_belonging_to_other_properties", []).append(m["key"])
                continue
            self.violations.append(dict(key=m["key"], detail=m))
        if rep["mismatches_total"] > len(rep["mismatches"]):
            self.notes.append("%d mismatches in total, first %d kept" % (rep["mismatches_total"], len(rep["mismatches"])))
        if rep.get("reference_drift"):
            n = rep.get("counters", {}).get("reference_drift", len(rep["reference_drift"]))
            log("[%s] NOTE: %d case(s) deviate from the reference specification without contradicting the property "
                "(spec drift, not a violation); first: %s" % (self.prop, n, json.dumps(rep["reference_drift"][0])[:600]))
            self.extra.setdefault("reference_drift_samples", []).extend(rep["reference_drift"][:3])
        c = self.extra.setdefault("replay_counters", {})
        for k, v in rep.get("counters", {}).items():
            c[k] = c.get(k, 0) + v
        return rep

    def validate(self, trace_module, trace_cfg, trace_file, key, timeout=900, silent=False):
        rows = sum(1 for _ in open(trace_file))
        v = validate_trace(self.prop, trace_module, trace_cfg, trace_file, timeout=timeout, silent=silent)
        self.trace_events += rows
        if v["accepted"]:
            self.traces += 1
            log("[%s] trace %s accepted by %s (%d events)" % (self.prop, os.path.basename(trace_file), trace_module, rows))
        else:
            evs = read_ndjson(trace_file)
            idx = v["matched"]
            bad = evs[idx] if idx < len(evs) else None
            prev = evs[idx - 1] if idx >= 1 else None
            log("[%s] trace %s REJECTED by %s at event %d/%d" % (self.prop, os.path.basename(trace_file), trace_module, idx + 1, rows))
            opname = ""
            if isinstance(bad, dict):
                op = bad.get("op")
                opname = op.get("name", "") if isinstance(op, dict) else str(bad.get("ev", ""))
            self.violations.append(dict(key="%s/%s" % (key, opname),
                                        detail=dict(kind="trace-rejected", trace=trace_file, spec=trace_module,
                                                    first_unmatched_index=idx + 1, first_unmatched_event=bad,
                                                    previous_event=prev)))
        return v

    def canary_trace(self, trace_module, trace_cfg, trace_file, mutate, silent=False):
        """Corrupt one recorded field; the trace spec must reject it. Otherwise the binding is decorative."""
        evs = read_ndjson(trace_file)
        where = mutate(evs)
        p = trace_file.replace(".ndjson", ".canary.ndjson")
        write_ndjson(p, evs)
        v = validate_trace(self.prop, trace_module, trace_cfg, p, silent=silent)
        if v["accepted"]:
            raise ToolError("canary: %s accepted a corrupted trace (%s) — spec not bound to the code" % (trace_module, where))
        self.canaries += 1
        log("[%s] canary: corrupted trace (%s) rejected at event %d — binding demonstrated" % (self.prop, where, v["matched"] + 1))

    def canary_cases(self, cases_file, mutate, prop_driver=None, n=1):
        """Alter the expected outcome of a few emitted cases; the replay must notice (mismatch, or drift where the judging
        relation is one-sided). Cases are drawn from several random samples of the table, so that a tree whose behaviour on
        the first rows changed (e.g. a stricter validator) still demonstrates the binding on others."""
        import random
        rows = read_ndjson(cases_file)
        if not rows:
            raise ToolError("canary: no cases in %s" % cases_file)
        p = cases_file.replace(".ndjson", ".canary.ndjson")
        tried = 0
        for attempt in range(6):
            sample = rows if attempt == 0 else random.Random(self.seed * 31 + attempt).sample(rows, min(len(rows), 4000))
            try:
                picked = mutate([json.loads(json.dumps(r)) for r in sample] if attempt else sample)
            except ToolError:
                if attempt == 0:
                    raise
                continue
            write_ndjson(p, picked)
            rep = vh_replay(prop_driver or self.prop, p, tag=".canary")
            noticed = rep["mismatches_total"] + rep.get("counters", {}).get("reference_drift", 0)
            tried += len(picked)
            if noticed >= 1:
                self.canaries += min(noticed, len(picked))
                log("[%s] canary: %d of %d altered case(s) rejected by replay — binding demonstrated" %
                    (self.prop, min(noticed, len(picked)), len(picked)))
                return
        raise ToolError("canary: replay accepted all %d altered case(s) — harness does not compare" % tried)

    # -- verdict -------------------------------------------------------------------------------
    def finish(self):
        known = load_known()
        open_f = [k for k in known.get("open", []) if k["property"] == self.prop]
        new, seen_known = [], {}
        for v in self.violations:
            hit = None
            for k in open_f:
                if re.fullmatch(k["match"], v["key"]):
                    hit = k
                    break
            if hit:
                seen_known.setdefault(hit["id"], hit)
            else:
                new.append(v)
        for k in seen_known.values():
            log("KNOWN-FINDING: property=%s %s" % (self.prop, k["what"]))
        wall = time.time() - self.t0
        cov = dict(states=max(self.states, 0), transitions=max(self.transitions, 0),
                   traces_validated_against_impl=self.traces, trace_events=self.trace_events,
                   evaluations=self.evaluations, distinct_nontrivial=self.distinct, rule=self.rule,
                   samples=self.samples[:8] if self.samples else [{"note": "no sample"}],
                   exhaustive=self.exhaustive, canaries_rejected=self.canaries)
        cov.update(self.extra)
        if self.notes:
            cov["notes"] = self.notes
        ev = dict(property_id=self.prop, tier=self.tier, seed=self.seed, level=self.level, coverage=cov,
                  assumptions=self.assumptions, wall_s=round(wall, 1), violations=len(new),
                  known_findings_seen=sorted(seen_known.keys()))
        os.makedirs(EVID, exist_ok=True)
        with open(os.path.join(EVID, self.prop + ".json"), "w") as f:
            json.dump(ev, f, indent=1)
        if new:
            os.makedirs(REPLAYS, exist_ok=True)
            first = None
            for v in new[:20]:
                h = hashlib.sha1(json.dumps(v, sort_keys=True).encode()).hexdigest()[:12]
                p = os.path.join(REPLAYS, "%s-%s.json" % (self.prop, h))
                with open(p, "w") as f:
                    json.dump(dict(property=self.prop, key=v["key"], detail=v["detail"]), f, indent=1)
                first = first or p
                log("VIOLATION property=%s replay=%s" % (self.prop, p))
                log("  key=%s" % v["key"])
            return 1
        log("[%s] OK tier=%s seed=%d states=%d transitions=%d evaluations=%d traces=%d wall=%.1fs" %
            (self.prop, self.tier, self.seed, self.states, self.transitions, self.evaluations, self.traces, wall))
        return 0
