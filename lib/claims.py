"""Per-property claims: property -> (technique, level category, level text, level note, design ref)."""

CLAIMED = {
    "C19": ("TLA+ specs OrderedSet/OneOrSet/OneOrMany model-checked by TLC; every TLC transition replayed on the real "
            "collections; recorded random histories validated by TLC trace specs",
            "model_checking",
            "TLC enumerates every (abstract state, operation, argument) transition of the three collection specs inside a "
            "small key/value universe and checks key-uniqueness, non-emptiness, the singleton-shape rule and per-operation "
            "order/flag laws on each; the Rust harness replays every transition on the real types and compares result flag, "
            "resulting order and JSON shape; long seeded random histories of the real types are validated against the spec "
            "by TLC (trace validation) with a corrupted-trace canary on every run.",
            "Exhaustive only inside the cfg universe (3-4 keys, 2 payload values, lists up to 3); beyond it seeded random. "
            "serde_json trusted.",
            "DESIGN.md §3 C19"),
    "C12": ("TLA+ spec StatusList (bit-vector window + credential layer + validator status) model-checked by TLC; every "
            "transition replayed on real lists at several placements; recorded histories validated by TLC",
            "model_checking",
            "TLC enumerates every (window value, op, argument) transition of the one-byte (quick) / two-byte (thorough) window "
            "model for both purposes and checks bit independence, refusal-leaves-unchanged, one-way revocation, reversible "
            "suspension and the reported-status equivalence as action properties; each transition is replayed on real "
            "StatusList2021 / StatusList2021Credential objects at several list sizes and byte offsets, decoding the library's "
            "own encoded list independently to compare the window and to check all other bytes stay zero; random histories of "
            "live objects are trace-validated.",
            "gzip/base64 codecs trusted; window of 8/16 bits, all other bytes only checked to remain zero.",
            "DESIGN.md §3 C12"),
    "C04": ("TLA+ spec Document (set-of-entries model of CoreDocument, code-shaped guards) model-checked by TLC; every "
            "transition and every state's resolution table replayed on real documents; random histories trace-validated",
            "model_checking",
            "TLC explores every document reachable from every small valid initial document (incl. dangling/foreign references) "
            "under all six checked mutations with every argument, checking the id-uniqueness/aliasing/service-id invariants in "
            "every state and refusal-leaves-unchanged on every transition; each transition is replayed on real CoreDocuments "
            "(deserialised and builder-built, model relationships mapped onto all order-preserving choices of the five real "
            "ones) comparing result, resulting document, JSON round trip, and the complete resolution table (every query x "
            "scope, resolve_method/_mut/resolve_service, by entry identity); long random histories over 12 ids x 5 "
            "relationships are validated against the spec by TLC.",
            "Exhaustive inside 3 ids x 2 relationships (quick) / 4 ids incl. a URL-query variant (thorough, sampled replay); "
            "method/service content other than ids assumed irrelevant.",
            "DESIGN.md §3 C04"),
    "C13": ("TLA+ spec Timestamp (independent calendar oracle, decision table over the boundary product) evaluated by TLC; "
            "every row executed on the real Timestamp; recorded random rows validated by TLC",
            "model_checking",
            "TLC enumerates the full boundary product (dates x times x UTC offsets x fraction lengths; unix instants; "
            "checked_add/sub x every duration constructor at boundary magnitudes; comparison pairs), evaluates the spec's own "
            "proleptic-Gregorian arithmetic on each row and checks range, calendar-inverse, format-parse and add-sub-inverse "
            "invariants; every row is executed on the real code through parse/FromStr/TryFrom/serde and compared with the "
            "oracle including canonical text and the format/unix/JSON round trips; uniformly random rows recorded from the "
            "real code are validated by TLC against the same oracle.",
            "The `time` crate is not trusted for range handling (that is what is checked) but its RFC 3339 lexer is; leap "
            "second :60 may be rejected or read as :59 (named deviation).",
            "DESIGN.md §3 C13"),
    "C10": ("TLA+ spec DidSyntax (W3C DID/DID-URL grammar over character classes, decision table) evaluated by TLC; every row "
            "executed on CoreDID/DIDUrl in several concrete variants; recorded random strings validated by TLC (one-sided)",
            "model_checking",
            "TLC enumerates all class strings up to length 4 (quick) / 5 (thorough) over an adversarial 18-class alphabet, a "
            "structured component product, prefix variants and all (base, component, segment) setter rows, evaluating the "
            "spec's transcription of the grammar (validity + decomposition) and its recomposition/cleanliness invariants; the "
            "harness runs each row through every parse entry point and compares: accepted => valid, components as computed, "
            "verbatim string form, re-parse identity, plain DID without URL parts; setters re-parse or leave unchanged; "
            "Eq/Ord/Hash coherence over accepted pairs. Random longer strings recorded from the real parsers are validated "
            "by TLC against the same grammar.",
            "One-sided (as the property): false rejections are counted only. did_url_parser is NOT trusted (that is how its "
            "percent-encoding defects were found); class representatives assumed interchangeable.",
            "DESIGN.md §3 C10"),
    "C17": ("TLA+ spec IotaDid (decision table over method spelling, network-name class sequences, tag shape, surplus segments, "
            "URL suffixes, entry points, plus IotaDID::new rows) evaluated by TLC; every row executed on the real IotaDID / "
            "NetworkName",
            "model_checking",
            "TLC enumerates the complete product (about 10^5 rows) and computes case-insensitive validity and the lowercase normal "
            "form; every row is executed through parse/FromStr/TryFrom, try_from_core/TryFrom<CoreDID>/is_valid and serde; an "
            "accepted value must be valid, be held in normal form (default network omitted, lower case, no URL parts), recompose "
            "from network_str/tag_str, re-parse and serde-round-trip to itself; IotaDID::new/placeholder must expose exactly the "
            "given bytes and network for every NetworkName the library hands out (try_from and serde); equality/ordering/hash are "
            "compared with equality of (network, tag bytes) on all accepted pairs per chunk.",
            "One-sided like the property (rejections of valid rows are counted). Decision table: no trace direction. prefix_hex "
            "trusted.",
            "DESIGN.md §3 C17"),
    "C06": ("TLA+ spec RevocationBitmap (set of index classes in a document service; revoke/unrevoke batches, endpoint and legacy "
            "round trips, validator status table) model-checked by TLC; every transition replayed on RevocationBitmap, "
            "CoreDocument and IotaDocument; random batch histories trace-validated",
            "model_checking",
            "TLC explores all 16 member sets x every operation and checks 'exactly the requested indices change' and 'revoked iff "
            "member' as action properties; every transition is replayed on three real carriers with classes realised as 1 / "
            "100 000 dense / 3 000 sparse / 8 extreme u32 indices, comparing after each step the membership of every concrete "
            "index and of neighbour indices as read back from the published service endpoint (current and legacy "
            "double-encoded form), and JwtCredentialValidatorUtils::check_status over 3 modes x 7 status shapes; recorded random "
            "batch histories on live documents are validated by TLC against the set model (cardinality + every answer).",
            "roaring/flate2 trusted as codecs; indices >= 2^31 only in the replay direction.",
            "DESIGN.md §3 C06"),
    "C09": ("TLA+ step-machine spec StorageTxn (one action per storage call, fault set chosen in Init) model-checked by TLC over "
            "every fault subset; every behaviour replayed on the real generate_method/purge_method with fault-injecting stores, "
            "including equality of the recorded storage-call sequence",
            "model_checking",
            "TLC explores every (operation, pre-state, fault subset) behaviour of the code-shaped step machine and checks "
            "all-or-nothing, no-silent-orphan and relationship-references-kept when the call returns; it also demonstrates on "
            "every run that the unrepaired rollback design violates them. Each behaviour is replayed on CoreDocument and "
            "IotaDocument through fault-injecting JwkStorage/KeyIdStorage wrappers that fail exactly the named calls and log every "
            "call; result class, the exact call sequence, the abstract post-state, exact document restoration on error, store "
            "cardinalities, sign+verify after success and an untouched bystander method are compared.",
            "Fault model: a failing call has no effect. In-memory stores, Ed25519 only. 2 (quick) / 3 (thorough) relationships.",
            "DESIGN.md §3 C09"),
    "C15": ("TLA+ specs KeyStore (sequential key-storage contract) and KeyIdStore (threads with explicit linearisation points) "
            "model-checked by TLC; every sequential transition replayed on JwkMemStore/KeyIdMemstore (and a sample of "
            "them on StrongholdStorage); random histories trace-validated; real thread races checked for linearizability "
            "by a TLC trace spec with silent Lin steps; the concurrent design's inductive invariant discharged by Apalache (16 threads, any "
            "history) and proved by TLAPS (any set of threads)",
            "model_checking",
            "Sequential: TLC explores all histories up to 3 (quick) / 4 (thorough) issued key ids x all argument classes and "
            "checks freshness, inert deleted/never-issued ids and first-mapping-wins as invariants/action properties; each "
            "transition is replayed on fresh stores with real Ed25519 keys (public-only output, kid = RFC 7638 thumbprint, alg, "
            "signature verifies under its own key and under no other stored key). Concurrent: TLC explores every interleaving of "
            "Call/Lin/Ret for 3 threads x 5 plans (95 710 states) and shows the non-atomic design fails; races of 2..16 real "
            "threads on one KeyIdMemstore are recorded (call/return stamped by one atomic counter) and KeyIdStoreTrace decides "
            "linearizability of every round by placing the Lin steps itself. Unbounded design argument (spec/proofs): the "
            "inductive invariant (map = 0 => wins = 0) /\\ (map # 0 => wins = 1 /\\ winner = map) of the atomic design with plans "
            "generalised to arbitrary call sequences is checked by Apalache (Init => IndInv, IndInv /\\ Next => IndInv', IndInv => "
            "AtMostOneWinner /\\ MappingIsWinners; 16 threads) and, in the thorough tier, proved by TLAPS for every set of threads "
            "(28 obligations); the non-atomic design fails both. BLS12-381 keys (generate_bbs) are slots that "
            "never sign through JwkStorage::sign. The same drivers run over StrongholdStorage as key store and key-id "
            "store (second harness binary vh_sh): 3 (quick) / 40 (thorough) transitions of every stratum (operation x argument class x kind of the named slot), 1/2 sequential "
            "histories of 1 500 events, 1/2 x 300 race rounds.",
            "Real races sample schedules (design-level interleavings are exhaustive). StrongholdStorage "
            "only on a sample of the transitions (a fresh snapshot-backed stronghold per case costs ~80 ms). sign_bbs / "
            "update_signature (BBS+ proofs) not modelled. Crypto primitives trusted.",
            "DESIGN.md §3 C15"),
    "C20": ("TLA+ spec Resolver (dedup, dispatch, pending handler futures completed in any order, stop at first error) "
            "model-checked by TLC over every completion order; every behaviour replayed on both resolver flavours with gated "
            "futures polled by hand",
            "model_checking",
            "TLC explores every (handler table, input list with duplicates/unsupported methods, failing set, completion order) "
            "behaviour and checks dispatch-by-method, no handler call for unsupported methods, one entry per distinct DID, and "
            "that the result is a function of the inputs only; each behaviour is replayed with handlers that log (method, DID) "
            "and return futures the harness completes in exactly TLC's order; the result map, its values, the call log and "
            "single resolution of every DID are compared; did:jwk resolution over generated public/private JWKs is checked.",
            "Completion order is controlled at the future level (single polling thread). Iota network handler out of scope.",
            "DESIGN.md §3 C20"),
    "C11": ("TLA+ spec JoseHeaderPolicy (rules R0-R10 written from RFC 7515/7797, complete decision table) evaluated by TLC; "
            "every row executed at every encoder/decoder/verify entry point, acceptance compared in both directions",
            "model_checking",
            "TLC enumerates all 24 601 (protected, unprotected) header pairs of the parameter shapes named by the property and "
            "computes the set of violated rules; the harness executes each row at 12+ entry points (three encoders incl. detached "
            "and add_recipient, three decoders on raw crafted tokens, verify) — about 174 000 entry-point evaluations — and "
            "requires accepted <=> no rule violated, plus verify <=> alg in the protected header.",
            "Complete inside the enumerated parameter shapes; JSON (serde_json) trusted.",
            "DESIGN.md §3 C11"),
    "C01": ("TLA+ spec JwsVerify (Decode;Verify machine over received-token rows naming byte strings) model-checked by TLC; "
            "every row realised as real bytes with real signatures and decoded with a recording JwsVerifier; exhaustive "
            "single-bit mutation of verifying tokens",
            "model_checking",
            "TLC explores all 10 692 rows and checks that 'verified' implies the signature check was made over exactly the "
            "received protected segment + '.' + received payload, with the protected algorithm and the caller's key, and that "
            "claims are the signed payload; the harness builds each row (three serializations, non-canonical header JSON, "
            "attached/detached, b64 variants, five signature origins, three algorithms), decodes it, compares signing input, "
            "claims, alg source, the verifier's recorded input and the outcome, and flips every bit of the protected segment, "
            "payload and signature of the verifying tokens (about 2.4 x 10^5 mutants in the quick tier) expecting failure.",
            "Signature primitives trusted. Decision table: no trace direction.",
            "DESIGN.md §3 C01"),
    "C08": ("TLA+ spec JwsProduce (encoder typestate machine + create_jws option table with verification attempts) model-checked "
            "by TLC; every behaviour executed: produced tokens decoded by the library's own decoder and verified",
            "model_checking",
            "TLC explores every encoder behaviour (three encoders, 1..3 recipients, 7 payload classes, detached, charset, b64 per "
            "recipient, unprotected header) predicting the refusing step, and the complete JwsSignatureOptions product for three "
            "methods with 36 verification attempts each, checking that a token only verifies as its signer with its nonce inside "
            "its scopes; the harness runs every behaviour with real Ed25519 keys: encoder steps, byte-wise payload / signing "
            "input / header equality after decoding, verification under the right key and failure under another, header "
            "contents per option, and the outcome of each of the 221 184 verify_jws attempts.",
            "Ed25519 only; crypto primitive trusted.",
            "DESIGN.md §3 C08"),
    "C02": ("TLA+ spec CredentialValidation (two-phase decision table: signature phase, unit phase, cross rows) evaluated by TLC; "
            "every row issued as a real signed JWT and validated against real issuer documents",
            "model_checking",
            "TLC enumerates 66 588 rows (full signature-phase product, full unit-phase product, cross-phase pairs), computing "
            "acceptance and the error kinds of the false conditions and checking what acceptance implies; the harness issues "
            "each row with real Ed25519 keys (hand-assembled JWS where the signer would refuse), documents with two methods in "
            "different scopes, a foreign document listing the same key, a revocation-bitmap service and explicit bound "
            "timestamps, and runs JwtCredentialValidator::validate and verify_signature: accept <=> every condition, errors "
            "name false conditions (exactly all unit-phase ones under AllErrors), returned credential and custom claims equal "
            "the signed ones.",
            "Bounds explicit; RevocationBitmap2022 status only; fail-fast order not compared.",
            "DESIGN.md §3 C02"),
    "C03": ("TLA+ spec PresentationValidation (binding table + claims table) evaluated by TLC; every row issued as a real signed "
            "presentation JWT and validated against a real holder document",
            "model_checking",
            "TLC enumerates 12 324 rows and computes acceptance (method selection by kid as full id or fragment or by configured "
            "id inside the holder document incl. a listed foreign-DID key, scope, signing key, nonce, issuer claim = document "
            "id; expiry/issuance boundaries with nbf deciding over iat and out-of-range dates; vp.holder / vp.id consistency); "
            "the harness signs each row with real Ed25519 keys and runs JwtPresentationValidator::validate: accept <=> all "
            "conditions, returned holder/id/aud/dates/custom claims equal the signed ones.",
            "Bounds explicit; error kinds not compared.",
            "DESIGN.md §3 C03"),
    "C07": ("TLA+ spec JwtClaims (ToClaims/FromClaims record algebra + consistency table) model-checked by TLC; every generated "
            "credential, presentation and claims set executed on the real conversion code",
            "model_checking",
            "TLC checks the round-trip identity and the carried-once law of the abstract conversion on all 27 648 credentials and "
            "4 608 presentations over their optional fields and evaluates 17 340 reverse-direction claim sets (each duplicated "
            "member equal / different / absent, out-of-range numeric dates, nbf over iat); the harness builds the real "
            "objects, inspects the serialised claims for single occurrence, converts back via the validators (accept-all "
            "verifier) and requires equality, and for crafted claim sets accept <=> consistent, with the registered values used.",
            "Conversion back is reached through the public validators; empty custom-claim maps identified with none.",
            "DESIGN.md §3 C07"),
    "C18": ("TLA+ spec Jwk (decision table over parameter family, private-member subsets, optional members, member order, origin "
            "and declared type) evaluated by TLC; every row executed on the real Jwk / VerificationMethod / key generation code",
            "model_checking",
            "TLC enumerates 22 477 key shapes and computes obtainability, public/private status, existence of the public "
            "projection and admissibility for verification methods; the harness obtains each key the way the row says and "
            "checks kty = carried family, is_public, to_public (no private member, public part kept, idempotent), thumbprint "
            "invariance, refusal of private members by the method constructors, and that generated keys/documents are public.",
            "SHA-256 trusted; parameters are syntactic.",
            "DESIGN.md §3 C18"),
    "C14": ("TLA+ spec StateMetadata (Pack, frame mutation, Unpack over documents of DID tags) model-checked by TLC; every "
            "behaviour replayed on real IotaDocuments with an independently built expected document",
            "model_checking",
            "TLC explores all 49 152 (document shape, unpack target, frame) behaviours and checks the round-trip identity, that "
            "exactly the self-references are rewritten, that foreign DIDs are untouched and no placeholder survives; the "
            "harness packs the real document, checks the 7-byte frame and that the own DID does not travel, applies the frame "
            "mutation, unpacks for the target and compares with the expected document built from the spec's prediction; "
            "wrong marker/version/encoding/length are rejected, trailing bytes ignored, 65 536-byte bodies fail to pack.",
            "Placeholder-mentioning documents excluded (as in the property); JSON encoding only (the only one defined).",
            "DESIGN.md §3 C14"),
    "C16": ("TLA+ spec SdJwtValidation (credential table + key-binding table) evaluated by TLC; every row issued as a real "
            "SD-JWT / KB-JWT and validated",
            "model_checking",
            "TLC enumerates 17 641 rows and computes the verdict (accept / reject / either for a duplicated disclosure); the "
            "harness issues each row with SdObjectEncoder and real Ed25519 signatures (issuer, two holder keys, a foreign key), "
            "runs validate_credential and validate_key_binding_jwt and requires accept <=> fully bound, the reconstructed "
            "credential to show exactly the disclosed claims, returned KB claims to be the signed ones, and every failure to be "
            "an error value (a panic is a violation).",
            "sd-jwt-payload trusted for hashing; Ed25519 trusted.",
            "DESIGN.md §3 C16"),
    "C05": ("input exploration driven by the TLA+ specifications: Mutate.tla (TLC-enumerated mutation operators applied to valid "
            "seeds of every entry-point family) plus the case tables TLC generates for the other properties; every call under "
            "catch_unwind with overflow checks and a hang watchdog",
            "exploration",
            "Systematic, grammar-aware input exploration, not a model-checking result: TLC enumerates 189 mutation operators; "
            "the harness applies them at up to 160 (quick) / all (thorough) positions of 42 seeds and calls every parser, "
            "decoder, validator and accessor of the seed's family (about 7.7 x 10^5 calls quick, 1.5 x 10^6 thorough), and "
            "replays the generated tables of C10, C13, C17, C01, C11, C16 (thorough: also C12, C18, C14) reading their panic/"
            "hang verdicts. Any panic, overflow, hang (watchdog) or abort (process death with breadcrumb) is a violation keyed "
            "by entry point and panic site.",
            "Only inputs within one mutation of a seed or inside the other specifications' universes are explored. cargo-fuzz / "
            "Kani would be the natural tools and are deliberately not used (this task studies one family).",
            "DESIGN.md §3 C05"),
}
