//! C20: Resolver against spec/Resolver.tla — handlers return gated futures; the harness polls `resolve_multiple` by hand
//! and opens the gates in exactly the completion order TLC explored.
use crate::util::*;
use identity_core::convert::ToJson;
use identity_did::CoreDID;
use identity_did::DIDJwk;
use identity_did::DID;
use identity_document::document::CoreDocument;
use identity_resolver::Resolver;
use identity_resolver::SingleThreadedResolver;
use identity_verification::jose::jwk::Jwk;
use identity_verification::jose::jwk::JwkParamsEc;
use identity_verification::jose::jwk::JwkParamsOkp;
use identity_verification::jose::jwu::encode_b64;
use identity_verification::MethodData;
use serde_json::json;
use serde_json::Value;
use std::collections::HashMap;
use std::future::Future;
use std::pin::Pin;
use std::sync::Arc;
use std::sync::Mutex;
use std::task::Context;
use std::task::Poll;
use std::task::Wake;
use std::task::Waker;

#[derive(Default)]
struct GateState {
  open: bool,
  waker: Option<Waker>,
}
#[derive(Clone, Default)]
struct Gate(Arc<Mutex<GateState>>);
impl Gate {
  fn open(&self) {
    let w = {
      let mut g = self.0.lock().unwrap();
      g.open = true;
      g.waker.take()
    };
    if let Some(w) = w {
      w.wake();
    }
  }
}
struct GateFuture(Gate);
impl Future for GateFuture {
  type Output = ();
  fn poll(self: Pin<&mut Self>, cx: &mut Context<'_>) -> Poll<()> {
    let mut g = self.0 .0.lock().unwrap();
    if g.open {
      Poll::Ready(())
    } else {
      g.waker = Some(cx.waker().clone());
      Poll::Pending
    }
  }
}

/// shared between the harness and all handlers
#[derive(Default)]
struct Env {
  gates: Mutex<HashMap<String, Gate>>,
  calls: Mutex<Vec<(String, String)>>, // (handler method, did)
  fails: Mutex<Vec<String>>,
}
impl Env {
  fn gate(&self, did: &str) -> Gate {
    self.gates.lock().unwrap().entry(did.to_string()).or_default().clone()
  }
}

struct FlagWaker(std::sync::atomic::AtomicBool);
impl Wake for FlagWaker {
  fn wake(self: Arc<Self>) {
    self.0.store(true, std::sync::atomic::Ordering::SeqCst);
  }
}

fn did_text(d: &Value) -> String {
  format!("did:{}:{}", s(&d["m"]), i(&d["n"]))
}
fn doc_for(did: &CoreDID) -> CoreDocument {
  CoreDocument::builder(Default::default()).id(did.clone()).build().unwrap()
}

#[derive(Debug)]
struct Boom;
impl std::fmt::Display for Boom {
  fn fmt(&self, f: &mut std::fmt::Formatter<'_>) -> std::fmt::Result {
    write!(f, "handler failed on purpose")
  }
}
impl std::error::Error for Boom {}

fn handler(env: Arc<Env>, method: String) -> impl Fn(CoreDID) -> Pin<Box<dyn Future<Output = Result<CoreDocument, Boom>> + Send>> + Clone + Send + Sync + 'static {
  move |did: CoreDID| {
    let env = env.clone();
    let method = method.clone();
    Box::pin(async move {
      env.calls.lock().unwrap().push((method, did.to_string()));
      GateFuture(env.gate(did.as_str())).await;
      if env.fails.lock().unwrap().contains(&did.to_string()) {
        Err(Boom)
      } else {
        Ok(doc_for(&did))
      }
    })
  }
}

enum AnyResolver {
  SendSync(Resolver<CoreDocument>),
  Single(SingleThreadedResolver<CoreDocument>),
}

/// `reattach`: a stale handler (tagged "<method>-stale") is attached first for every method and then replaced
fn build_resolver(case: &Value, env: &Arc<Env>, single: bool, reattach: bool) -> AnyResolver {
  if single {
    let mut r: SingleThreadedResolver<CoreDocument> = SingleThreadedResolver::new();
    if reattach {
      for m in arr(&case["handlers"]) {
        r.attach_handler(s(m).to_string(), handler(env.clone(), format!("{}-stale", s(m))));
      }
    }
    for m in arr(&case["handlers"]) {
      r.attach_handler(s(m).to_string(), handler(env.clone(), s(m).to_string()));
    }
    AnyResolver::Single(r)
  } else {
    let mut r: Resolver<CoreDocument> = Resolver::new();
    if reattach {
      for m in arr(&case["handlers"]) {
        r.attach_handler(s(m).to_string(), handler(env.clone(), format!("{}-stale", s(m))));
      }
    }
    for m in arr(&case["handlers"]) {
      r.attach_handler(s(m).to_string(), handler(env.clone(), s(m).to_string()));
    }
    AnyResolver::SendSync(r)
  }
}

/// Drives `fut` to completion, opening the gates in the given order; returns the output.
/// The flag says whether the call returned only after gates BEYOND the modelled completion order were opened: the property
/// does not say when the call returns, so that is a deviation from the reference (which resolves concurrently), not a fault.
fn drive<T>(mut fut: Pin<Box<dyn Future<Output = T> + '_>>, env: &Env, order: &[String], all: &[String]) -> Result<(T, bool), String> {
  let flag = Arc::new(FlagWaker(std::sync::atomic::AtomicBool::new(false)));
  let waker = Waker::from(flag.clone());
  let mut cx = Context::from_waker(&waker);
  if let Poll::Ready(v) = fut.as_mut().poll(&mut cx) {
    return Ok((v, false));
  }
  for d in order {
    env.gate(d).open();
    if let Poll::Ready(v) = fut.as_mut().poll(&mut cx) {
      return Ok((v, false));
    }
  }
  // the model says the call has returned by now; open everything so that a stuck future is reported, not hung
  for d in all {
    env.gate(d).open();
  }
  for _ in 0..(all.len() + 4) {
    if let Poll::Ready(v) = fut.as_mut().poll(&mut cx) {
      return Ok((v, true));
    }
  }
  Err("the call never returned although every handler has completed".into())
}

fn check_multiple(case: &Value, single: bool, reattach: bool) -> Result<Vec<(String, Value, Value)>, String> {
  let mut diffs = Vec::new();
  let env = Arc::new(Env::default());
  *env.fails.lock().unwrap() = arr(&case["fails"]).iter().map(did_text).collect();
  let resolver = build_resolver(case, &env, single, reattach);
  let dids: Vec<CoreDID> = arr(&case["input"]).iter().map(|d| CoreDID::parse(did_text(d)).unwrap()).collect();
  let order: Vec<String> = arr(&case["order"]).iter().map(did_text).collect();
  let all: Vec<String> = dids.iter().map(|d| d.to_string()).collect();
  let (out, late) = match &resolver {
    AnyResolver::SendSync(r) => drive(Box::pin(r.resolve_multiple(&dids)), &env, &order, &all)?,
    AnyResolver::Single(r) => drive(Box::pin(r.resolve_multiple(&dids)), &env, &order, &all)?,
  };
  if late {
    diffs.push(("~returned_after_the_modelled_completions".into(), json!(order), json!("needed further handler completions")));
  }
  let calls = env.calls.lock().unwrap().clone();
  // ---- dispatch ----
  let handlers: Vec<&str> = arr(&case["handlers"]).iter().map(s).collect();
  let mut distinct: Vec<String> = all.clone();
  distinct.sort();
  distinct.dedup();
  for (h, d) in &calls {
    let method = d.split(':').nth(1).unwrap_or("");
    if h != method || !handlers.contains(&h.as_str()) || !distinct.contains(d) {
      diffs.push(("dispatch".into(), json!("handler registered for the DID's method, with that DID"), json!({"handler": h, "did": d})));
    }
  }
  let mut seen = calls.iter().map(|(_, d)| d.clone()).collect::<Vec<_>>();
  seen.sort();
  let n = seen.len();
  seen.dedup();
  if n != seen.len() {
    diffs.push(("duplicate_resolution".into(), json!("one invocation per distinct DID"), json!(calls)));
  }
  // every distinct DID has to be resolved for the call to succeed; a failing call may stop early
  if s(&case["result"]) == "ok" && seen != distinct {
    diffs.push(("missing_invocation".into(), json!(distinct), json!(seen)));
  }
  // ---- outcome ----
  match (s(&case["result"]), out) {
    ("ok", Ok(map)) => {
      let mut keys: Vec<String> = map.keys().map(|k| k.to_string()).collect();
      keys.sort();
      let mut want: Vec<String> = arr(&case["keys"]).iter().map(did_text).collect();
      want.sort();
      if keys != want {
        diffs.push(("entries".into(), json!(want), json!(keys)));
      }
      for (k, v) in &map {
        // each entry equals what single resolution returns: the document the handler made for exactly that DID
        if v.to_json().ok() != doc_for(k).to_json().ok() {
          diffs.push(("entry_value".into(), json!(k.to_string()), json!(v.id().to_string())));
        }
      }
    }
    ("err", Err(_)) => {}
    (want, got) => diffs.push(("result".into(), json!(want), json!(if got.is_ok() { "ok" } else { "err" }))),
  }
  Ok(diffs)
}

/// single resolution of every DID of the case: same handler table, gate opened immediately
fn check_single(case: &Value, single: bool, reattach: bool) -> Result<Vec<(String, Value, Value)>, String> {
  let mut diffs = Vec::new();
  let handlers: Vec<&str> = arr(&case["handlers"]).iter().map(s).collect();
  for d in arr(&case["input"]) {
    let env = Arc::new(Env::default());
    *env.fails.lock().unwrap() = arr(&case["fails"]).iter().map(did_text).collect();
    let resolver = build_resolver(case, &env, single, reattach);
    let text = did_text(d);
    let did = CoreDID::parse(&text).unwrap();
    let out = match &resolver {
      AnyResolver::SendSync(r) => drive(Box::pin(r.resolve(&did)), &env, &[text.clone()], &[text.clone()])?.0,
      AnyResolver::Single(r) => drive(Box::pin(r.resolve(&did)), &env, &[text.clone()], &[text.clone()])?.0,
    };
    let calls = env.calls.lock().unwrap().clone();
    let supported = handlers.contains(&s(&d["m"]));
    let fails = env.fails.lock().unwrap().contains(&text);
    if !supported {
      let unsupported_err = matches!(&out, Err(e) if matches!(e.error_cause(), identity_resolver::ErrorCause::UnsupportedMethodError { .. }));
      if !unsupported_err || !calls.is_empty() {
        diffs.push(("single_unsupported".into(), json!("unsupported-method error, no handler called"), json!({"ok": out.is_ok(), "calls": calls})));
      }
    } else {
      if calls != vec![(s(&d["m"]).to_string(), text.clone())] {
        diffs.push(("single_dispatch".into(), json!([[s(&d["m"]), text]]), json!(calls)));
      }
      match out {
        Ok(doc) if !fails && doc.id() == &did => {}
        Err(_) if fails => {}
        o => diffs.push(("single_result".into(), json!(if fails { "err" } else { "ok" }), json!(o.is_ok()))),
      }
    }
  }
  Ok(diffs)
}

fn jwk_rows() -> Vec<(String, Jwk, bool)> {
  let mut rows = Vec::new();
  for k in 0..6u8 {
    let mut p = JwkParamsOkp::new();
    p.crv = "Ed25519".into();
    p.x = encode_b64([k.wrapping_mul(31).wrapping_add(7); 32]);
    let mut j = Jwk::from_params(p.clone());
    if k % 2 == 0 {
      j.set_alg("EdDSA");
    }
    if k % 3 == 0 {
      j.set_kid(format!("key-{k}"));
    }
    rows.push((format!("okp-{k}"), j, true));
    p.d = Some(encode_b64([9u8; 32]));
    rows.push((format!("okp-private-{k}"), Jwk::from_params(p), false));
  }
  let mut e = JwkParamsEc::new();
  e.crv = "P-256".into();
  e.x = encode_b64([1u8; 32]);
  e.y = encode_b64([2u8; 32]);
  rows.push(("ec-p256".into(), Jwk::from_params(e.clone()), true));
  e.d = Some(encode_b64([3u8; 32]));
  rows.push(("ec-p256-private".into(), Jwk::from_params(e), false));
  // RSA: public, fully private, and every way of carrying only SOME private members
  let n = encode_b64([0xc3u8; 256]);
  let pubk = serde_json::json!({"kty": "RSA", "n": n, "e": "AQAB"});
  rows.push(("rsa".into(), serde_json::from_value(pubk.clone()).unwrap(), true));
  for (name, members) in [
    ("rsa-d-only", vec!["d"]),
    ("rsa-p-q", vec!["p", "q"]),
    ("rsa-dq-only", vec!["dq"]),
    ("rsa-all-but-qi", vec!["d", "p", "q", "dp", "dq"]),
    ("rsa-private", vec!["d", "p", "q", "dp", "dq", "qi"]),
  ] {
    let mut v = pubk.clone();
    for m in members {
      v[m] = serde_json::json!(encode_b64([0x11u8; 64]));
    }
    rows.push((name.into(), serde_json::from_value(v).unwrap(), false));
  }
  rows
}

/// did:jwk expands to a document whose single method carries exactly the key encoded in the DID
fn check_did_jwk(rep: &mut Report) {
  for single in [false, true] {
    for (name, jwk, public) in jwk_rows() {
      rep.eval();
      rep.nontrivial(format!("didjwk:{name}:{single}"));
      let ctx = json!({"jwk": name, "single_threaded": single});
      let r = guarded(|| -> Result<Option<String>, String> {
        let text = format!("did:jwk:{}", encode_b64(serde_json::to_vec(&jwk).unwrap()));
        let Ok(did) = DIDJwk::parse(&text) else {
          return Ok(if public { Some("a did:jwk over a public JWK was rejected".into()) } else { None });
        };
        let env = Env::default();
        let out = if single {
          let mut rs: SingleThreadedResolver<CoreDocument> = SingleThreadedResolver::new();
          rs.attach_did_jwk_handler();
          drive(Box::pin(rs.resolve(&did)), &env, &[], &[])?.0
        } else {
          let mut rs: Resolver<CoreDocument> = Resolver::new();
          rs.attach_did_jwk_handler();
          drive(Box::pin(rs.resolve(&did)), &env, &[], &[])?.0
        };
        match out {
          Err(_) => Ok(if public { Some("resolution of a did:jwk over a public JWK failed".into()) } else { None }),
          Ok(doc) => {
            if !public {
              return Ok(Some("a did:jwk carrying a private JWK was expanded to a document".into()));
            }
            let ms = doc.methods(None);
            if ms.len() != 1 || doc.verification_method().len() != 1 {
              return Ok(Some(format!("{} methods", ms.len())));
            }
            match ms[0].data() {
              MethodData::PublicKeyJwk(j) if *j == jwk => {}
              _ => return Ok(Some("the method does not carry exactly the encoded key".into())),
            }
            if doc.id().as_str() != text || ms[0].id().did().as_str() != text {
              return Ok(Some("document / method id differs from the DID".into()));
            }
            Ok(None)
          }
        }
      });
      match r {
        Err(p) => rep.mismatch("resolver/did_jwk/panic", &ctx, json!("no panic"), json!(p), "panic"),
        Ok(Err(e)) => rep.mismatch("resolver/did_jwk/stuck", &ctx, json!("returns"), json!(e), ""),
        Ok(Ok(Some(e))) => rep.mismatch("resolver/did_jwk", &ctx, json!("single method carrying exactly the encoded public key"), json!(e), ""),
        Ok(Ok(None)) => {}
      }
    }
  }
}

pub fn replay(cases: &[Value], rep: &mut Report) {
  let mut seen = std::collections::BTreeSet::new();
  for case in cases {
    let key = case.to_string();
    if !seen.insert(key.clone()) {
      continue; // the same behaviour emitted for several call subsets of the unsupported branch
    }
    note_case(case);
    for (single, reattach) in [(false, false), (true, false), (false, true), (true, true)] {
      rep.eval();
      let ctx = json!({"case": case, "single_threaded_resolver": single, "stale_handlers_attached_first": reattach});
      for (kind, r) in [("multiple", guarded(|| check_multiple(case, single, reattach))), ("single", guarded(|| check_single(case, single, reattach)))] {
        match r {
          Err(p) => rep.mismatch(&format!("resolver/{kind}/panic"), &ctx, json!("no panic"), json!(p), "panic"),
          Ok(Err(e)) => rep.mismatch(&format!("resolver/{kind}/stuck"), &ctx, json!("the call returns within the modelled completion order"), json!(e), ""),
          Ok(Ok(diffs)) => {
            for (k, exp, obs) in diffs {
              rep.mismatch(&format!("resolver/{kind}/{k}"), &ctx, exp, obs, "");
            }
          }
        }
      }
    }
    rep.nontrivial(key);
    if arr(&case["order"]).len() >= 2 {
      rep.sample(case.clone());
    }
  }
  check_did_jwk(rep);
}
