//! C14: IOTA state-metadata packing against spec/StateMetadata.tla.
use crate::util::*;
use identity_core::common::Timestamp;
use identity_core::common::Url;
use identity_core::convert::FromJson;
use identity_core::convert::ToJson;
use identity_did::CoreDID;
use identity_did::DIDUrl;
use identity_did::DID;
use identity_document::service::Service;
use identity_iota_core::IotaDID;
use identity_iota_core::IotaDocument;
use identity_iota_core::StateMetadataDocument;
use identity_verification::MethodData;
use identity_verification::MethodRelationship;
use identity_verification::MethodScope;
use identity_verification::MethodType;
use identity_verification::VerificationMethod;
use serde_json::json;
use serde_json::Value;

struct Names {
  self_did: IotaDID,
  target: IotaDID,
}

fn names(variant: usize) -> Names {
  // the document's own DID and the unpack target on different / default networks
  let selfs = [
    "did:iota:smr:0x1111111111111111111111111111111111111111111111111111111111111111",
    "did:iota:0x1111111111111111111111111111111111111111111111111111111111111111",
  ];
  let targets = [
    "did:iota:rms:0x2222222222222222222222222222222222222222222222222222222222222222",
    "did:iota:0x2222222222222222222222222222222222222222222222222222222222222222",
    "did:iota:smr:0x2222222222222222222222222222222222222222222222222222222222222222",
  ];
  Names { self_did: IotaDID::parse(selfs[variant % 2]).unwrap(), target: IotaDID::parse(targets[variant % 3]).unwrap() }
}

const FA: &str = "did:iota:0xaaaaaaaaaaaaaaaaaaaaaaaaaaaaaaaaaaaaaaaaaaaaaaaaaaaaaaaaaaaaaaaa";
const FB: &str = "did:example:foreign-b";

thread_local! {
  /// rotation of the case being run: which real relationships play "embedded in", "referenced from", "foreign reference
  /// in"; which metadata travels with the document
  static ROT: std::cell::Cell<usize> = const { std::cell::Cell::new(0) };
}
const RELS: [MethodRelationship; 5] = [
  MethodRelationship::Authentication,
  MethodRelationship::AssertionMethod,
  MethodRelationship::KeyAgreement,
  MethodRelationship::CapabilityDelegation,
  MethodRelationship::CapabilityInvocation,
];
const REL_JSON: [&str; 5] = ["authentication", "assertionMethod", "keyAgreement", "capabilityDelegation", "capabilityInvocation"];
fn rot() -> usize {
  ROT.with(|r| r.get())
}

thread_local! {
  /// the realisation of the foreign IOTA DID "fa" for the case being run
  static FA_NOW: std::cell::RefCell<String> = std::cell::RefCell::new(FA.to_string());
}
thread_local! {
  static FA_SPELLING: std::cell::RefCell<Option<String>> = const { std::cell::RefCell::new(None) };
}
fn fa_now() -> String {
  FA_NOW.with(|f| f.borrow().clone())
}

/// "fa" is a foreign IOTA DID: an unrelated tag, or -- still a DIFFERENT DID -- the tag of the document itself or of
/// the unpack target on another network
fn choose_fa(n: &Names, variant: usize) {
  let v = match (variant / 6) % 3 {
    0 => FA.to_string(),
    1 => format!("did:iota:tst:{}", n.self_did.tag_str()),
    _ => format!("did:iota:tst:{}", n.target.tag_str()),
  };
  // how the foreign DID is SPELLED in the document: as is, with the default network written out, or with upper-case
  // hex digits -- valid IOTA DIDs that are not in normal form; a foreign DID travels verbatim
  let spelling = match (variant / 18) % 3 {
    0 => None,
    // the default network written out (only a DID on the default network can be spelled that way)
    1 if v == FA => Some(v.replacen("did:iota:", "did:iota:iota:", 1)),
    // the first six hex digits of the tag in upper case
    _ => {
      let at = v.find("0x").unwrap() + 2;
      Some(format!("{}{}{}", &v[..at], v[at..at + 6].to_uppercase(), &v[at + 6..]))
    }
  };
  FA_NOW.with(|f| *f.borrow_mut() = v);
  FA_SPELLING.with(|f| *f.borrow_mut() = spelling);
}

fn did_of(tag: &str, own: &IotaDID) -> CoreDID {
  match tag {
    "self" | "t" => CoreDID::from(own.clone()),
    "fa" => CoreDID::parse(fa_now()).unwrap(),
    "fb" => CoreDID::parse(FB).unwrap(),
    o => tool_error(&format!("bad DID tag {o}")),
  }
}

/// fragments are named after the ROLE of the DID, so that a rebased document keeps its fragments
fn label(tag: &str) -> &str {
  if tag == "self" || tag == "t" {
    "own"
  } else {
    tag
  }
}

fn method(id_did: &CoreDID, ctrl: &CoreDID, frag: &str) -> VerificationMethod {
  VerificationMethod::builder(Default::default())
    .id(id_did.to_url().join(format!("#{frag}")).unwrap())
    .controller(ctrl.clone())
    .type_(MethodType::ED25519_VERIFICATION_KEY_2018)
    .data(MethodData::new_multibase(frag.as_bytes()))
    .build()
    .unwrap()
}

/// Builds the real document for an abstract one whose "self" tag stands for `own`.
fn build(d: &Value, own: &IotaDID) -> Result<IotaDocument, String> {
  let mut doc = IotaDocument::new_with_id(own.clone());
  doc.metadata.created = Some(Timestamp::from_unix(1_650_000_000).unwrap());
  doc.metadata.updated = Some(Timestamp::from_unix(1_660_000_000).unwrap());
  // everything in the metadata travels (only the two ledger address fields are excepted by the property)
  doc.metadata.deactivated = [None, Some(false), Some(true)][(rot() / 5) % 3];
  let custom_metadata = (rot() / 15) % 2 == 1;
  // fixed order BY ROLE so that a rebased document lists its controllers in the same order
  let mut ctrl_tags: Vec<&str> = arr(&d["ctrl"]).iter().map(s).collect();
  ctrl_tags.sort_by_key(|t| label(t).to_string());
  let ctrl: Vec<IotaDID> = ctrl_tags.iter().map(|t| IotaDID::try_from_core(did_of(t, own)).unwrap()).collect();
  if !ctrl.is_empty() {
    doc.set_controller(ctrl);
  }
  let mut pairs: Vec<(String, String)> = arr(&d["methods"]).iter().map(|p| (s(&arr(p)[0]).to_string(), s(&arr(p)[1]).to_string())).collect();
  pairs.sort_by_key(|(i, c)| (label(i).to_string(), label(c).to_string()));
  for (i, c) in &pairs {
    let m = method(&did_of(i, own), &did_of(c, own), &format!("vm-{}-{}", label(i), label(c)));
    doc.insert_method(m, MethodScope::VerificationMethod).map_err(|e| e.to_string())?;
  }
  for p in arr(&d["embedded"]) {
    let (i, c) = (s(&arr(p)[0]), s(&arr(p)[1]));
    let m = method(&did_of(i, own), &did_of(c, own), &format!("emb-{}-{}", label(i), label(c)));
    doc.insert_method(m, MethodScope::VerificationRelationship(RELS[rot() % 5])).map_err(|e| e.to_string())?;
  }
  let mut refs: Vec<String> = arr(&d["refs"]).iter().map(|t| s(t).to_string()).collect();
  refs.sort();
  for r in &refs {
    if r == "self" || r == "t" {
      doc
        .attach_method_relationship(&did_of("self", own).to_url().join("#vm-own-own").unwrap(), RELS[(rot() + 1) % 5])
        .map_err(|e| e.to_string())?;
    }
  }
  let mut svcs: Vec<String> = arr(&d["services"]).iter().map(|t| s(t).to_string()).collect();
  svcs.sort_by_key(|t| label(t).to_string());
  for t in &svcs {
    let id: DIDUrl = did_of(t, own).to_url().join(format!("#svc-{}", label(t))).unwrap();
    let svc = Service::builder(Default::default()).id(id).type_("LinkedDomains").service_endpoint(Url::parse("https://example.com/").unwrap()).build().unwrap();
    doc.insert_service(svc).map_err(|e| e.to_string())?;
  }
  if b(&d["aka"]) {
    doc.also_known_as_mut().append(Url::parse("https://myself.example.org/").unwrap());
  }
  if b(&d["custom"]) {
    doc.properties_mut_unchecked().insert("customProperty".into(), json!({"mentions": fa_now(), "n": 1}));
  }
  if refs.iter().any(|r| r == "fb") {
    // a reference to a method of another document can only come from deserialisation
    let mut v: Value = serde_json::from_str(&doc.to_json().map_err(|e| e.to_string())?).unwrap();
    v["doc"][REL_JSON[(rot() + 2) % 5]] = json!([format!("{FB}#key-9")]);
    doc = IotaDocument::from_json_value(v).map_err(|e| format!("reference document rejected: {e}"))?;
  }
  if let Some(spelling) = FA_SPELLING.with(|f| f.borrow().clone()) {
    // a non-canonical spelling can only come from the serialised form
    let text = doc.to_json().map_err(|e| e.to_string())?;
    if text.contains(&fa_now()) && spelling != fa_now() {
      doc = IotaDocument::from_json(&text.replace(&fa_now(), &spelling)).map_err(|e| format!("document with a non-canonical foreign DID rejected: {e}"))?;
    }
  }
  if custom_metadata {
    // further metadata properties exist only in the serialised form
    let mut v: Value = serde_json::from_str(&doc.to_json().map_err(|e| e.to_string())?).unwrap();
    v["meta"]["customMetadata"] = json!({"n": [1, 2, 3], "mentions": fa_now()});
    doc = IotaDocument::from_json_value(v).map_err(|e| format!("document with custom metadata rejected: {e}"))?;
  }
  Ok(doc)
}

fn mutate(frame: &str, bytes: &[u8]) -> Vec<u8> {
  let mut v = bytes.to_vec();
  let len = u16::from_le_bytes([v[5], v[6]]) as usize;
  let set_len = |v: &mut Vec<u8>, n: usize| {
    let le = (n as u16).to_le_bytes();
    v[5] = le[0];
    v[6] = le[1];
  };
  match frame {
    "intact" => {}
    "trailing_garbage" => v.extend_from_slice(b"\x00\xff{\"garbage\":true}"),
    "marker0" => v[0] ^= 0x20,
    "marker1" => v[1] = 0x00,
    "marker2" => v[2] = 0xff,
    "version0" => v[3] = 0,
    "version2" => v[3] = 2,
    "version255" => v[3] = 255,
    "encoding1" => v[4] = 1,
    "encoding255" => v[4] = 255,
    "len_plus_1" => set_len(&mut v, len + 1),
    "len_plus_1000" => set_len(&mut v, len + 1000),
    "len_minus_1" => set_len(&mut v, len - 1),
    "len_zero" => set_len(&mut v, 0),
    "truncated_3" => v.truncate(3),
    "truncated_6" => v.truncate(6),
    "truncated_body" => v.truncate(7 + len / 2),
    "empty" => v.clear(),
    o => tool_error(&format!("bad frame {o}")),
  }
  v
}

fn run(case: &Value, variant: usize) -> Vec<(String, Value, Value)> {
  let mut diffs = Vec::new();
  let n = names(variant);
  choose_fa(&n, variant);
  ROT.with(|r| r.set(variant / 2 + variant % 7));
  let original = match build(&case["doc"], &n.self_did) {
    Ok(d) => d,
    Err(e) => {
      diffs.push(("harness_build".into(), json!("document builds"), json!(e)));
      return diffs;
    }
  };
  let packed = match original.clone().pack() {
    Ok(p) => p,
    Err(e) => {
      diffs.push(("pack_failed".into(), json!("packs"), json!(e.to_string())));
      return diffs;
    }
  };
  // the frame: "DID", version 1, encoding 0, little-endian length of the JSON body
  if &packed[0..3] != b"DID" || packed[3] != 1 || packed[4] != 0 || u16::from_le_bytes([packed[5], packed[6]]) as usize != packed.len() - 7 {
    diffs.push(("frame".into(), json!("DID|1|0|len"), json!(&packed[..7])));
  }
  // self-references never travel: the body must not mention the document's own DID
  if String::from_utf8_lossy(&packed[7..]).contains(n.self_did.as_str()) {
    diffs.push(("self_reference_not_replaced".into(), json!("placeholder"), json!("own DID found in the packed body")));
  }
  let bytes = mutate(s(&case["frame"]), &packed);
  let unpack_for: &IotaDID = if s(&case["target"]) == "self" { &n.self_did } else { &n.target };
  let got = StateMetadataDocument::unpack(&bytes).and_then(|d| d.into_iota_document(unpack_for));
  let want_ok = b(&case["ok"]);
  match (got, want_ok) {
    (Err(_), false) => {}
    (Err(e), true) => diffs.push(("unpack_rejected".into(), json!("unpacks"), json!(e.to_string()))),
    (Ok(_), false) => diffs.push(("corrupt_frame_accepted".into(), json!("rejected"), json!("accepted"))),
    (Ok(d), true) => {
      // the expected document is built independently, with "self" standing for the unpack target
      match build(&case["expect"], unpack_for) {
        Err(e) => diffs.push(("harness_build_expected".into(), json!("builds"), json!(e))),
        Ok(exp) => {
          if d != exp {
            diffs.push(("unpacked_document".into(), serde_json::from_str(&exp.to_json().unwrap()).unwrap(), serde_json::from_str(&d.to_json().unwrap()).unwrap()));
          }
          if s(&case["target"]) == "self" && d != original {
            diffs.push(("round_trip".into(), json!("equal document and metadata"), json!("differs")));
          }
        }
      }
    }
  }
  diffs
}

/// documents too large for the 16-bit length prefix fail to pack; the largest that fits still round-trips
fn size_limits(rep: &mut Report) {
  let n = names(0);
  for (label, pad, want_ok) in [("fits_exactly", 0isize, true), ("one_byte_too_large", 1, false), ("much_too_large", 20_000, false)] {
    rep.eval();
    rep.nontrivial(format!("size:{label}"));
    let r = guarded(|| -> Result<(), String> {
      let mut doc = IotaDocument::new_with_id(n.self_did.clone());
      doc.metadata.created = None;
      doc.metadata.updated = None;
      doc.properties_mut_unchecked().insert("pad".into(), json!(""));
      let base = doc.clone().pack().map_err(|e| e.to_string())?.len() - 7;
      let fill = (65_535 - base) as isize + pad;
      doc.properties_mut_unchecked().insert("pad".into(), json!("x".repeat(fill as usize)));
      match (doc.clone().pack(), want_ok) {
        (Ok(p), true) => {
          if p.len() - 7 != 65_535 {
            return Err(format!("harness: body is {} bytes", p.len() - 7));
          }
          let back = StateMetadataDocument::unpack(&p).and_then(|d| d.into_iota_document(&n.self_did)).map_err(|e| e.to_string())?;
          if back != doc {
            return Err("largest document does not round-trip".into());
          }
          Ok(())
        }
        (Err(_), false) => Ok(()),
        (Ok(p), false) => Err(format!("a {} byte body was packed under a 16-bit length prefix", p.len() - 7)),
        (Err(e), true) => Err(format!("a 65535 byte body failed to pack: {e}")),
      }
    });
    match r {
      Err(p) => rep.mismatch("state_metadata/size/panic", &json!(label), json!("no panic"), json!(p), "panic"),
      Ok(Err(e)) => rep.mismatch("state_metadata/size", &json!(label), json!(want_ok), json!(e), ""),
      Ok(Ok(())) => {}
    }
  }
}

fn replay_chunk(cases: &[Value], rep: &mut Report) {
  for (ci, case) in cases.iter().enumerate() {
    note_case(case);
    rep.eval();
    let variant = ci;
    match guarded(|| run(case, variant)) {
      Err(p) => rep.mismatch("state_metadata/panic", case, json!("no panic"), json!(p), "panic"),
      Ok(diffs) => {
        for (k, exp, obs) in diffs {
          rep.mismatch(&format!("state_metadata/{k}"), &json!({"doc": case["doc"], "target": case["target"], "frame": case["frame"], "variant": variant % 6}), exp, obs, "");
        }
      }
    }
    rep.nontrivial(format!("{}|{}|{}", case["doc"], case["target"], case["frame"]));
    if s(&case["target"]) == "t" {
      rep.sample(case.clone());
    }
  }
}

pub fn replay(cases: &[Value], rep: &mut Report) {
  par_replay(cases, rep, replay_chunk);
  size_limits(rep);
}
