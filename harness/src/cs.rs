//! Beyond the list: Credential / Presentation structure rules against spec/CredentialStructure.tla.
use crate::util::*;
use identity_core::common::Object;
use identity_core::common::Timestamp;
use identity_core::common::Url;
use identity_core::convert::FromJson;
use identity_credential::credential::Credential;
use identity_credential::credential::CredentialBuilder;
use identity_credential::credential::Jwt;
use identity_credential::credential::Subject;
use identity_credential::presentation::Presentation;
use identity_credential::presentation::PresentationBuilder;
use serde_json::json;
use serde_json::Value;

const BASE_CONTEXT: &str = "https://www.w3.org/2018/credentials/v1";

fn context_of(tag: &str) -> &'static str {
  match tag {
    "base" => BASE_CONTEXT,
    "other" => "https://www.w3.org/2018/credentials/examples/v1",
    _ => "https://example.org/contexts/another/v1",
  }
}
fn type_of(tag: &str, kind: &str) -> &'static str {
  match (tag, kind) {
    ("base", "credential") => "VerifiableCredential",
    ("base", _) => "VerifiablePresentation",
    ("other", _) => "UniversityDegreeCredential",
    _ => "AnotherType",
  }
}

fn subjects_json(tag: &str) -> Option<Value> {
  let id = json!({"id": "did:example:subject"});
  let props = json!({"degree": {"type": "BachelorDegree"}});
  let both = json!({"id": "did:example:subject", "degree": {"type": "BachelorDegree"}});
  Some(match tag {
    "none" => return None,
    "id_only" => id,
    "props_only" => props,
    "id_and_props" => both,
    "empty" => json!({}),
    "two_ok" => json!([id, props]),
    "ok_then_empty" => json!([both, {}]),
    "empty_then_ok" => json!([{}, both]),
    "empty_list" => json!([]),
    o => tool_error(&format!("bad subjects {o}")),
  })
}

fn run(case: &Value) -> Vec<(String, Value, Value)> {
  let row = &case["row"];
  let mut diffs = Vec::new();
  let kind = s(&row["kind"]);
  let want = b(&case["out"]["well_formed"]);
  let contexts: Vec<&str> = arr(&row["contexts"]).iter().map(|c| context_of(s(c))).collect();
  let types: Vec<&str> = arr(&row["types"]).iter().map(|t| type_of(s(t), kind)).collect();
  let got: Option<bool> = if s(&row["route"]) == "json" {
    let mut v = json!({"@context": contexts, "type": types});
    if kind == "credential" {
      v["issuer"] = json!("did:example:issuer");
      v["issuanceDate"] = json!("2020-01-01T00:00:00Z");
      if let Some(sj) = subjects_json(s(&row["subjects"])) {
        v["credentialSubject"] = sj;
      }
      match Credential::<Object>::from_json_value(v) {
        Ok(c) => Some(c.check_structure().is_ok()),
        Err(_) => None, // not even the shape of a credential: refused earlier, which is fine
      }
    } else {
      v["holder"] = json!("did:example:holder");
      v["verifiableCredential"] = json!(["eyJhbGciOiJFZERTQSJ9.e30.AAAA"]);
      match Presentation::<Jwt, Object>::from_json_value(v) {
        Ok(p) => Some(p.check_structure().is_ok()),
        Err(_) => None,
      }
    }
  } else if kind == "credential" {
    // the builder puts the base context / base type first on its own: what it is given comes after them
    let mut bld = CredentialBuilder::<Object>::default().issuer(Url::parse("did:example:issuer").unwrap()).issuance_date(Timestamp::from_unix(1_600_000_000).unwrap());
    for c in &contexts {
      if *c != BASE_CONTEXT {
        bld = bld.context(Url::parse(*c).unwrap());
      }
    }
    for t in &types {
      if *t != "VerifiableCredential" {
        bld = bld.type_(*t);
      }
    }
    if let Some(sj) = subjects_json(s(&row["subjects"])) {
      let list = if sj.is_array() { sj.as_array().unwrap().clone() } else { vec![sj] };
      for one in list {
        bld = bld.subject(serde_json::from_value::<Subject>(one).unwrap());
      }
    }
    match bld.build() {
      Ok(c) => {
        // whatever the builder hands out is well formed
        if c.check_structure().is_err() {
          diffs.push(("builder_produced_ill_formed_credential".into(), json!("well formed"), serde_json::to_value(&c).unwrap()));
        }
        Some(true)
      }
      Err(_) => Some(false),
    }
  } else {
    let mut bld = PresentationBuilder::<Jwt, Object>::new(Url::parse("did:example:holder").unwrap(), Object::new());
    for c in &contexts {
      if *c != BASE_CONTEXT {
        bld = bld.context(Url::parse(*c).unwrap());
      }
    }
    for t in &types {
      if *t != "VerifiablePresentation" {
        bld = bld.type_(*t);
      }
    }
    match bld.build() {
      Ok(p) => {
        if p.check_structure().is_err() {
          diffs.push(("builder_produced_ill_formed_presentation".into(), json!("well formed"), serde_json::to_value(&p).unwrap()));
        }
        Some(true)
      }
      Err(_) => Some(false),
    }
  };
  // the builders always supply base context and base type themselves, so for them only the subject rule can fail
  let want_here = if s(&row["route"]) == "builder" {
    kind != "credential" || matches!(s(&row["subjects"]), "id_only" | "props_only" | "id_and_props" | "two_ok")
  } else {
    want
  };
  match got {
    Some(g) if g != want_here => {
      let key = if g { "ill_formed_accepted" } else { "~well_formed_refused" };
      diffs.push((key.into(), json!(want_here), json!(g)));
    }
    _ => {}
  }
  diffs
}

fn replay_chunk(cases: &[Value], rep: &mut Report) {
  for case in cases {
    note_case(&case["row"]);
    rep.eval();
    match guarded(|| run(case)) {
      Err(p) => rep.mismatch("credential_structure/panic", case, json!("no panic"), json!(p), "panic"),
      Ok(diffs) => {
        for (k, exp, obs) in diffs {
          rep.mismatch(&format!("credential_structure/{k}"), case, exp, obs, "");
        }
      }
    }
    rep.nontrivial(format!("{}", case["row"]));
    if b(&case["out"]["well_formed"]) {
      rep.sample(case.clone());
    }
  }
}

pub fn replay(cases: &[Value], rep: &mut Report) {
  par_replay(cases, rep, replay_chunk);
}
