//! C10: CoreDID / DIDUrl against spec/DidSyntax.tla (class strings expanded to concrete characters).
use crate::util::*;
use identity_core::common::Url;
use identity_did::CoreDID;
use identity_did::DIDUrl;
use identity_did::DID;
use rand::Rng;
use serde_json::json;
use serde_json::Value;
use std::collections::hash_map::DefaultHasher;
use std::hash::Hash;
use std::hash::Hasher;

/// concrete representatives of a class symbol
pub fn reps(sym: &str) -> &'static [&'static str] {
  match sym {
    "1" => &["1", "0", "9", "5"],
    "f" => &["f", "a", "c"],
    "F" => &["F", "A", "D"],
    "g" => &["g", "z", "x", "m"],
    "G" => &["G", "Z", "Q"],
    "." => &["."],
    "-" => &["-", "_"],
    ":" => &[":"],
    "%" => &["%"],
    "/" => &["/"],
    "?" => &["?"],
    "#" => &["#"],
    "!" => &["!", "$", "&", "'", "(", ")", "*", ",", ";", "=", "@", "~"],
    "+" => &["+"],
    "S" => &[" "],
    "T" => &["\t", "\n", "\r", "\u{b}", "\u{0}", "\u{7f}"],
    "{" => &["{", "}", "\"", "<", ">", "\\", "^", "`", "|", "[", "]"],
    "N" => &["é", "ß", "→", "𝄞", "\u{a0}", "\u{85}"],
    other => tool_error(&format!("unknown class symbol {other}")),
  }
}

pub fn concretise(seq: &Value, variant: usize) -> String {
  let mut out = String::new();
  for (k, sym) in arr(seq).iter().enumerate() {
    let r = reps(s(sym));
    out.push_str(r[(variant * 7 + k * 3 + variant) % r.len()]);
  }
  out
}

fn hash_of<T: Hash>(t: &T) -> u64 {
  let mut h = DefaultHasher::new();
  t.hash(&mut h);
  h.finish()
}

fn opt(sq: &Value, variant_str: &str, has: bool) -> Option<String> {
  let _ = sq;
  if has {
    Some(variant_str.to_string())
  } else {
    None
  }
}

/// Splits the concrete body exactly as the spec's Split did on the symbol sequence (same lengths).
struct Parts {
  mid: String,
  path: String,
  query: Option<String>,
  frag: Option<String>,
  canonical: String,
}

fn parts_of(row: &Value, out: &Value, variant: usize) -> Parts {
  // concretise component-wise at the right offsets so that the variant choice is position-consistent
  let body = arr(&row["body"]);
  let conc: Vec<&str> = body
    .iter()
    .enumerate()
    .map(|(k, sym)| {
      let r = reps(s(sym));
      r[(variant * 7 + k * 3 + variant) % r.len()]
    })
    .collect();
  let lm = arr(&out["mid"]).len();
  let lp = arr(&out["path"]).len();
  let mid: String = conc[..lm].concat();
  let path: String = conc[lm..lm + lp].concat();
  let mut pos = lm + lp;
  // a '?' may be present with an empty query (bare delimiter): detect from the body itself
  let mut query = None;
  if pos < conc.len() && conc[pos] == "?" {
    let lq = arr(&out["query"]).len();
    query = opt(&out["query"], &conc[pos + 1..pos + 1 + lq].concat(), b(&out["hasQ"]));
    pos += 1 + lq;
  }
  let mut frag = None;
  if pos < conc.len() && conc[pos] == "#" {
    let lf = arr(&out["frag"]).len();
    frag = opt(&out["frag"], &conc[pos + 1..pos + 1 + lf].concat(), b(&out["hasF"]));
  }
  let pfx = s(&row["pfx"]["txt"]);
  let mut canonical = format!("{pfx}{mid}{path}");
  if let Some(q) = &query {
    canonical.push('?');
    canonical.push_str(q);
  }
  if let Some(f) = &frag {
    canonical.push('#');
    canonical.push_str(f);
  }
  Parts { mid, path, query, frag, canonical }
}

fn check_url_row(case: &Value, variant: usize, rep: &mut Report, accepted: &mut Vec<DIDUrl>) {
  let row = &case["row"];
  let out = &case["out"];
  let input = format!("{}{}", s(&row["pfx"]["txt"]), concretise(&row["body"], variant));
  let ctx = json!({"input": input, "row": row});
  rep.eval();
  let res = guarded(|| {
    let mut errs: Vec<(String, String)> = Vec::new();
    // ---- DID URL ----
    let u = DIDUrl::parse(&input);
    let u2: Result<DIDUrl, _> = input.parse();
    let u3: Result<DIDUrl, _> = serde_json::from_value(json!(input));
    if u.is_ok() != u2.is_ok() || u.is_ok() != u3.is_ok() {
      errs.push(("url/entry_points".into(), "DIDUrl parse / FromStr / serde disagree".into()));
    }
    let mut acc_url = None;
    if let Ok(u) = u {
      if !b(&out["ok"]) {
        errs.push(("url/accepted_invalid".into(), format!("DIDUrl accepted; string form {:?}", u.to_string())));
      } else {
        let p = parts_of(row, out, variant);
        let text = u.to_string();
        if text != p.canonical {
          errs.push(("url/string_form".into(), format!("to_string {:?} != {:?}", text, p.canonical)));
        }
        let did = u.did();
        if did.method() != s(&out["method"]) || did.method_id() != p.mid {
          errs.push(("url/did_part".into(), format!("method {:?} method_id {:?}", did.method(), did.method_id())));
        }
        if format!("did:{}:{}", did.method(), did.method_id()) != did.as_str() || did.authority() != format!("{}:{}", did.method(), did.method_id()) {
          errs.push(("url/did_recompose".into(), format!("did {:?}", did.as_str())));
        }
        let path = u.path().unwrap_or("").to_string();
        if path != p.path || u.query().map(str::to_string) != p.query || u.fragment().map(str::to_string) != p.frag {
          errs.push(("url/components".into(), format!("path {:?} query {:?} fragment {:?}", u.path(), u.query(), u.fragment())));
        }
        let recomposed = format!(
          "{}{}{}{}",
          did.as_str(),
          path,
          u.query().map(|q| format!("?{q}")).unwrap_or_default(),
          u.fragment().map(|f| format!("#{f}")).unwrap_or_default()
        );
        if recomposed != text {
          errs.push(("url/recompose".into(), format!("{recomposed:?} != {text:?}")));
        }
        match DIDUrl::parse(&text) {
          Ok(back) if back == u => {}
          _ => errs.push(("url/reparse".into(), format!("parse(to_string) != self for {text:?}"))),
        }
        match serde_json::to_value(&u).and_then(serde_json::from_value::<DIDUrl>) {
          Ok(back) if back == u => {}
          _ => errs.push(("url/serde".into(), "serde round trip".into())),
        }
        let _ = Url::from(u.clone());
        let _ = u.query_pairs().count();
        let _ = format!("{u:?}");
        acc_url = Some(u);
      }
    }
    // ---- plain DID ----
    let d = CoreDID::parse(&input);
    let d2: Result<CoreDID, _> = input.parse();
    let d3 = CoreDID::try_from(input.as_str());
    let d4: Result<CoreDID, _> = serde_json::from_value(json!(input));
    if d.is_ok() != d2.is_ok() || d.is_ok() != d3.is_ok() || d.is_ok() != d4.is_ok() {
      errs.push(("did/entry_points".into(), format!("CoreDID parse={} FromStr={} TryFrom={} serde={}", d.is_ok(), d2.is_ok(), d3.is_ok(), d4.is_ok())));
    }
    for (which, d) in [("parse", d.ok()), ("serde", d4.ok())] {
      if let Some(d) = d {
        if !b(&out["ok"]) || !b(&out["did"]) {
          errs.push((format!("did/accepted_invalid/{which}"), format!("CoreDID accepted; method {:?} method_id {:?}", d.method(), d.method_id())));
        } else {
          let p = parts_of(row, out, variant);
          if d.as_str() != input || d.to_string() != input || String::from(d.clone()) != input {
            errs.push(("did/string_form".into(), format!("as_str {:?}", d.as_str())));
          }
          if d.method() != s(&out["method"]) || d.method_id() != p.mid || d.scheme() != "did" {
            errs.push(("did/components".into(), format!("method {:?} method_id {:?}", d.method(), d.method_id())));
          }
          let as_url = d.to_url();
          if as_url.path().is_some() || as_url.query().is_some() || as_url.fragment().is_some() || as_url.to_string() != input {
            errs.push(("did/to_url".into(), format!("{as_url}")));
          }
          match CoreDID::parse(d.as_str()) {
            Ok(back) if back == d => {}
            _ => errs.push(("did/reparse".into(), "parse(as_str) != self".into())),
          }
        }
      }
    }
    (errs, acc_url)
  });
  match res {
    Err(p) => rep.mismatch("did_syntax/parse/panic", &ctx, json!("no panic"), json!(p), "panic"),
    Ok((errs, acc)) => {
      if acc.is_none() && b(&out["ok"]) {
        rep.count("valid_strings_rejected");
      }
      if let Some(u) = acc {
        rep.count("urls_accepted");
        if accepted.len() < 150 {
          // the same URL with the hex digits of its percent-encoded octets in the other case is a different string: it must be a
          // different value to Eq, Ord and Hash alike (pair_laws), whatever RFC 3986 says about equivalence
          if let Some(v) = other_hex_case(&u.to_string()).and_then(|t| DIDUrl::parse(t).ok()) {
            accepted.push(v);
          }
          accepted.push(u);
        }
      }
      for (k, e) in errs {
        rep.mismatch(&format!("did_syntax/{k}"), &ctx, out.clone(), json!(e), "");
      }
    }
  }
}

fn check_set_row(case: &Value, variant: usize, rep: &mut Report) {
  let row = &case["row"];
  let which = s(&row["which"]).to_string();
  let base = format!("did:m:{}", concretise(&row["base"], variant));
  let seg = concretise(&row["seg"], variant);
  let ctx = json!({"base": base, "segment": seg, "which": which});
  rep.eval();
  let res = guarded(|| {
    let u0 = DIDUrl::parse(&base).map_err(|e| format!("base rejected: {e}"))?;
    let mut u = u0.clone();
    // returns (accepted?, value afterwards as DID URL)
    let (ok, after): (bool, DIDUrl) = match which.as_str() {
      "path" => (u.set_path(Some(&seg)).is_ok(), u),
      "query" => (u.set_query(Some(&seg)).is_ok(), u),
      "fragment" => (u.set_fragment(Some(&seg)).is_ok(), u),
      "join" => match u.join(&seg) {
        Ok(v) => (true, v),
        Err(_) => (false, u),
      },
      "method_name" | "method_id" => {
        let mut d: CoreDID = u.did().clone();
        let r = if which == "method_name" { d.set_method_name(&seg) } else { d.set_method_id(&seg) };
        let keep = u.url().clone();
        let mut v = DIDUrl::new(d, Some(keep));
        std::mem::swap(&mut u, &mut v);
        (r.is_ok(), u)
      }
      w => tool_error(&format!("bad setter {w}")),
    };
    Ok::<_, String>((u0, ok, after))
  });
  match res {
    Err(p) => rep.mismatch(&format!("did_syntax/set_{which}/panic"), &ctx, json!("no panic"), json!(p), "panic"),
    Ok(Err(_)) => rep.count("setter_base_rejected"),
    Ok(Ok((u0, ok, after))) => {
      if ok {
        if !b(&case["out"]["ok"]) {
          rep.mismatch(&format!("did_syntax/set_{which}/accepted_invalid"), &ctx, json!("segment refused"), json!(after.to_string()), "a component violating the DID syntax was accepted");
        }
        let text = after.to_string();
        match DIDUrl::parse(&text) {
          Ok(back) if back == after && back.to_string() == text => {}
          other => rep.mismatch(&format!("did_syntax/set_{which}/reparse"), &ctx, json!("value re-parses to itself"), json!({"string_form": text, "reparse": other.map(|v| v.to_string()).map_err(|e| e.to_string())}), ""),
        }
      } else {
        if after != u0 || after.to_string() != u0.to_string() {
          rep.mismatch(&format!("did_syntax/set_{which}/changed_on_error"), &ctx, json!(u0.to_string()), json!(after.to_string()), "a rejected setter changed the value");
        }
        if b(&case["out"]["ok"]) {
          rep.count("valid_segments_rejected");
        }
      }
    }
  }
}

/// `%3a` <-> `%3A`: flips the case of every hex letter that belongs to a percent-encoded octet; None when nothing changes.
fn other_hex_case(text: &str) -> Option<String> {
  let mut out: Vec<u8> = text.as_bytes().to_vec();
  let mut left = 0u8;
  let mut changed = false;
  for c in out.iter_mut() {
    if *c == b'%' {
      left = 2;
    } else if left > 0 {
      left -= 1;
      if c.is_ascii_alphabetic() && c.is_ascii_hexdigit() {
        *c ^= 0x20;
        changed = true;
      }
    }
  }
  if changed {
    String::from_utf8(out).ok()
  } else {
    None
  }
}

fn pair_laws(vals: &[DIDUrl], rep: &mut Report) {
  for a in vals {
    for bb in vals {
      rep.count("pairs_compared");
      let eq = a == bb;
      let ord = a.cmp(bb);
      let same_text = a.to_string() == bb.to_string();
      let ok = eq == (ord == std::cmp::Ordering::Equal)
        && eq == same_text
        && (!eq || hash_of(a) == hash_of(bb))
        && ord == bb.cmp(a).reverse()
        && a.partial_cmp(bb) == Some(ord);
      if !ok {
        rep.mismatch("did_syntax/eq_ord_hash", &json!({"a": a.to_string(), "b": bb.to_string()}), json!("Eq, Ord, Hash and string form agree"), json!({"eq": eq, "ord": format!("{ord:?}")}), "");
      }
    }
  }
  // transitivity through sorting
  let mut sorted: Vec<&DIDUrl> = vals.iter().collect();
  sorted.sort();
  for w in sorted.windows(3) {
    if w[0] > w[2] {
      rep.mismatch("did_syntax/ord_transitive", &json!({"a": w[0].to_string(), "c": w[2].to_string()}), json!("a<=b<=c => a<=c"), json!("violated"), "");
    }
  }
}

/// The typed DID wrappers accept what the DID grammar accepts and nothing more: `did:jwk:<valid id>` followed by the row's
/// path / query / fragment must be judged by DIDJwk exactly as CoreDID judges it, through every way in, and an accepted
/// value's string form is the DID (no URL part silently dropped).
fn check_did_jwk_row(case: &Value, variant: usize, rep: &mut Report) {
  use identity_did::DIDJwk;
  let row = &case["row"];
  let out = &case["out"];
  if !b(&out["ok"]) || !b(&row["pfx"]["ok"]) {
    return;
  }
  let p = parts_of(row, out, variant);
  let conc = concretise(&row["body"], variant);
  let tail = conc.get(p.mid.len()..).unwrap_or("");
  let id = "eyJrdHkiOiJPS1AiLCJjcnYiOiJFZDI1NTE5IiwieCI6IjExcVlBWUt4Q3JmVlNfN1R5V1FIT2c3aGN2UGFwaU1scndJYWFQY0hVUm8ifQ";
  let input = format!("did:jwk:{id}{tail}");
  let ctx = json!({"input": input, "row": row});
  let res = guarded(|| {
    let mut errs: Vec<(String, String)> = Vec::new();
    let core = CoreDID::parse(&input).ok();
    let ways: Vec<(&str, Option<DIDJwk>)> = vec![
      ("parse", DIDJwk::parse(&input).ok()),
      ("from_str", input.parse::<DIDJwk>().ok()),
      ("try_from_str", DIDJwk::try_from(input.as_str()).ok()),
      ("serde", serde_json::from_value::<DIDJwk>(json!(input)).ok()),
    ];
    for (way, got) in ways {
      match (&got, &core) {
        (Some(j), Some(c)) => {
          if j.to_string() != c.to_string() || j.method_id() != id {
            errs.push(("did_jwk/string_form".into(), format!("{way}: {:?} for input {input:?}", j.to_string())));
          }
        }
        (Some(j), None) => errs.push(("did_jwk/accepted_what_is_not_a_did".into(), format!("{way}: accepted as {:?}", j.to_string()))),
        (None, Some(_)) => errs.push(("~did_jwk/refused_a_did".into(), format!("{way}: refused"))),
        (None, None) => {}
      }
    }
    errs
  });
  match res {
    Err(pn) => rep.mismatch("did_syntax/did_jwk/panic", &ctx, json!("no panic"), json!(pn), "panic"),
    Ok(errs) => {
      for (k, e) in errs {
        let key = if let Some(rest) = k.strip_prefix('~') { format!("did_syntax/~{rest}") } else { format!("did_syntax/{k}") };
        rep.mismatch(&key, &ctx, json!("as CoreDID judges the same string"), json!(e), "");
      }
    }
  }
}

fn replay_chunk(cases: &[Value], rep: &mut Report) {
  let mut accepted = Vec::new();
  for case in cases {
    note_case(&case["row"]);
    let kind = s(&case["row"]["kind"]);
    for variant in 0..2 {
      match kind {
        "url" => {
          check_url_row(case, variant, rep, &mut accepted);
          if variant == 0 {
            check_did_jwk_row(case, variant, rep);
          }
        }
        "set" => check_set_row(case, variant, rep),
        k => tool_error(&format!("bad row kind {k}")),
      }
    }
    rep.nontrivial(format!("{}", case["row"]));
    if b(&case["out"]["ok"]) {
      rep.sample(case.clone());
    }
  }
  let _ = guarded(|| pair_laws(&accepted, rep));
}

pub fn replay(cases: &[Value], rep: &mut Report) {
  par_replay(cases, rep, replay_chunk);
}

/// Direction V: random longer class strings (grammar-aware: mostly legal symbols, occasional illegal ones).
pub fn record(seed: u64, n: u64, out: &mut TraceOut) {
  let mut r = rng(seed);
  let legal = ["1", "f", "F", "g", "G", ".", "-", ":", "%", "/", "?", "#", "!", "+"];
  let all = ["1", "f", "F", "g", "G", ".", "-", ":", "%", "/", "?", "#", "!", "+", "S", "T", "{", "N"];
  for _ in 0..n {
    let len = r.gen_range(1..14);
    let body: Vec<&str> = (0..len)
      .map(|_| {
        if r.gen_bool(0.04) {
          all[r.gen_range(0..all.len())]
        } else if r.gen_bool(0.5) {
          ["g", "1", "f"][r.gen_range(0..3)]
        } else {
          legal[r.gen_range(0..legal.len())]
        }
      })
      .collect();
    let variant = r.gen_range(0..5);
    let input = format!("did:m:{}", concretise(&json!(body), variant));
    let obs = guarded(|| {
      let url = match DIDUrl::parse(&input) {
        Err(_) => json!({"ok": false}),
        Ok(u) => json!({"ok": true, "lm": u.did().method_id().chars().count(), "lp": u.path().unwrap_or("").chars().count(),
          "hasQ": u.query().is_some(), "lq": u.query().unwrap_or("").chars().count(),
          "hasF": u.fragment().is_some(), "lf": u.fragment().unwrap_or("").chars().count(),
          "verbatim_modulo_bare": u.to_string().chars().count()}),
      };
      let did = CoreDID::parse(&input).is_ok();
      json!({"url": url, "did": did})
    })
    .unwrap_or_else(|p| json!({"panic": p}));
    out.event(json!({"body": body, "obs": obs}));
  }
}
