//! C02: JwtCredentialValidator against spec/CredentialValidation.tla — every row is issued as a real signed JWT.
use crate::util::*;
use identity_core::common::Object;
use identity_core::common::Timestamp;
use identity_core::common::Url;
use identity_core::convert::ToJson;
use identity_credential::credential::Credential;
use identity_credential::credential::CredentialBuilder;
use identity_credential::credential::Jwt;
use identity_credential::credential::RevocationBitmapStatus;
use identity_credential::credential::Status;
use identity_credential::credential::Subject;
use identity_credential::revocation::RevocationBitmap;
use identity_credential::validator::FailFast;
use identity_credential::validator::JwtCredentialValidationOptions;
use identity_credential::validator::JwtCredentialValidator;
use identity_credential::validator::JwtValidationError;
use identity_credential::validator::StatusCheck;
use identity_credential::validator::SubjectHolderRelationship;
use identity_did::CoreDID;
use identity_did::DIDUrl;
use identity_did::DID;
use identity_document::document::CoreDocument;
use identity_document::verifiable::JwsVerificationOptions;
use identity_eddsa_verifier::EdDSAJwsVerifier;
use identity_jose::jwk::Jwk;
use identity_jose::jwk::JwkParamsOkp;
use identity_jose::jws::CompactJwsEncoder;
use identity_jose::jws::JwsAlgorithm;
use identity_jose::jws::JwsHeader;
use identity_jose::jwu::encode_b64;
use identity_verification::MethodRelationship;
use identity_verification::MethodScope;
use identity_verification::VerificationMethod;
use serde_json::json;
use serde_json::Value;

pub const LATEST_ISSUANCE: i64 = 1_609_459_200; // 2021-01-01T00:00:00Z
pub const EARLIEST_EXPIRY: i64 = 1_640_995_200; // 2022-01-01T00:00:00Z

pub struct World {
  pub k1: crypto::signatures::ed25519::SecretKey,
  pub k2: crypto::signatures::ed25519::SecretKey,
  pub issuer: CoreDocument,
  pub other: CoreDocument,
}

pub fn pub_jwk(sk: &crypto::signatures::ed25519::SecretKey) -> Jwk {
  let mut p = JwkParamsOkp::new();
  p.crv = "Ed25519".into();
  p.x = encode_b64(sk.public_key().to_bytes());
  let mut j = Jwk::from_params(p);
  j.set_alg("EdDSA");
  j
}

pub fn did(name: &str) -> CoreDID {
  CoreDID::parse(format!("did:example:{name}")).unwrap()
}

pub fn world() -> World {
  let k1 = crypto::signatures::ed25519::SecretKey::from_bytes(&[0x11u8; 32]);
  let k2 = crypto::signatures::ed25519::SecretKey::from_bytes(&[0x22u8; 32]);
  let mut issuer = CoreDocument::builder(Object::new()).id(did("issuer")).build().unwrap();
  issuer
    .insert_method(VerificationMethod::new_from_jwk(did("issuer"), pub_jwk(&k1), Some("key-1")).unwrap(), MethodScope::VerificationMethod)
    .unwrap();
  issuer.attach_method_relationship("key-1", MethodRelationship::AssertionMethod).unwrap();
  issuer
    .insert_method(VerificationMethod::new_from_jwk(did("issuer"), pub_jwk(&k2), Some("key-2")).unwrap(), MethodScope::VerificationMethod)
    .unwrap();
  issuer.attach_method_relationship("key-2", MethodRelationship::Authentication).unwrap();
  let mut bm = RevocationBitmap::new();
  bm.revoke(7);
  issuer
    .insert_service(bm.to_service(DIDUrl::parse("did:example:issuer#revocation").unwrap()).unwrap())
    .unwrap();
  // decoy: a method of ANOTHER DID listed in the issuer document (see the spec header)
  issuer
    .insert_method(VerificationMethod::new_from_jwk(did("other"), pub_jwk(&k2), Some("key-3")).unwrap(), MethodScope::VerificationMethod)
    .unwrap();
  let mut other = CoreDocument::builder(Object::new()).id(did("other")).build().unwrap();
  other
    .insert_method(VerificationMethod::new_from_jwk(did("other"), pub_jwk(&k1), Some("key-1")).unwrap(), MethodScope::VerificationMethod)
    .unwrap();
  World { k1, k2, issuer, other }
}

pub struct Spec2 {
  pub issuer_claim: String,
  pub issuance: i64,
  pub expiry: Option<i64>,
  pub structure: String,
  pub non_transferable: bool,
  pub status: String,
}
impl Default for Spec2 {
  fn default() -> Self {
    Spec2 { issuer_claim: "issuer".into(), issuance: LATEST_ISSUANCE, expiry: Some(EARLIEST_EXPIRY + 100), structure: "ok".into(), non_transferable: false, status: "none".into() }
  }
}

fn status_of(kind: &str) -> Option<Status> {
  let svc = DIDUrl::parse("did:example:issuer#revocation").unwrap();
  match kind {
    "none" => None,
    "not_revoked" => Some(RevocationBitmapStatus::new(svc, 3).into()),
    "revoked" => Some(RevocationBitmapStatus::new(svc, 7).into()),
    "index_mismatch" => {
      let mut o = Object::new();
      o.insert("revocationBitmapIndex".into(), json!("7"));
      Some(Status::new_with_properties(Url::parse("did:example:issuer?index=5#revocation").unwrap(), RevocationBitmap::TYPE.into(), o))
    }
    "service_missing" => Some(RevocationBitmapStatus::new(DIDUrl::parse("did:example:issuer#no-such-service").unwrap(), 3).into()),
    "unsupported_type" => Some(Status::new(Url::parse("did:example:issuer#revocation").unwrap(), "SomeOtherStatus2024".into())),
    o => tool_error(&format!("bad status {o}")),
  }
}

/// (claims JSON text, the credential a validator must hand back on success)
pub fn claims_of(sp: &Spec2) -> (String, Option<Credential>) {
  let mut bld = CredentialBuilder::default()
    .id(Url::parse("https://example.edu/credentials/3732").unwrap())
    .issuer(Url::parse(format!("did:example:{}", sp.issuer_claim)).unwrap())
    .type_("UniversityDegreeCredential")
    .issuance_date(Timestamp::from_unix(sp.issuance).unwrap())
    .subject(Subject::with_id_and_properties(Url::parse("did:example:subject").unwrap(), {
      let mut o = Object::new();
      o.insert("degree".into(), json!({"type": "BachelorDegree", "name": "Bachelor of Science and Arts"}));
      o
    }));
  if let Some(e) = sp.expiry {
    bld = bld.expiration_date(Timestamp::from_unix(e).unwrap());
  }
  if sp.non_transferable {
    bld = bld.non_transferable(true);
  }
  if let Some(st) = status_of(&sp.status) {
    bld = bld.status(st);
  }
  let cred: Credential = bld.build().unwrap();
  let mut custom = Object::new();
  custom.insert("custom_claim".into(), json!("kept"));
  let text = cred.serialize_jwt(Some(custom)).unwrap();
  if sp.structure == "ok" {
    return (text, Some(cred));
  }
  // structurally broken credentials cannot be built; edit the claims set
  let mut v: Value = serde_json::from_str(&text).unwrap();
  match sp.structure.as_str() {
    "no_base_context" => v["vc"]["@context"] = json!(["https://example.org/not-the-base-context/v1"]),
    "no_base_type" => v["vc"]["type"] = json!(["UniversityDegreeCredential"]),
    "empty_subject" => {
      v["vc"]["credentialSubject"] = json!({});
      v.as_object_mut().unwrap().remove("sub");
    }
    o => tool_error(&format!("bad structure {o}")),
  }
  (serde_json::to_string(&v).unwrap(), None)
}

pub fn sign_jwt(claims: &str, kid: Option<&str>, nonce: Option<&str>, sk: &crypto::signatures::ed25519::SecretKey) -> Jwt {
  let mut h = JwsHeader::new();
  h.set_alg(JwsAlgorithm::EdDSA);
  h.set_typ("JWT");
  if let Some(k) = kid {
    h.set_kid(k);
  }
  if let Some(n) = nonce {
    h.set_nonce(n);
  }
  let enc = CompactJwsEncoder::new(claims.as_bytes(), &h).unwrap();
  let sig = sk.sign(enc.signing_input()).to_bytes();
  Jwt::new(enc.into_jws(&sig))
}

pub fn err_kind(e: &JwtValidationError) -> &'static str {
  match <&'static str>::from(e) {
    "JwsDecodingError" => "nonce",
    "MethodDataLookupError" => "method_lookup",
    "DocumentMismatch" => "document_mismatch",
    "Signature" => "signature",
    "IdentifierMismatch" => "identifier_mismatch",
    "IssuanceDate" => "issuance_date",
    "ExpirationDate" => "expiration_date",
    "CredentialStructure" => "structure",
    "SubjectHolderRelationship" => "subject_holder",
    "InvalidStatus" => "invalid_status",
    "ServiceLookupError" => "service_lookup",
    "Revoked" => "revoked",
    other => other,
  }
}

fn nonce_of(n: &str) -> Option<&'static str> {
  match n {
    "a" => Some("nonce-a"),
    "b" => Some("nonce-b"),
    _ => None,
  }
}

fn method_url(id: &Value) -> DIDUrl {
  DIDUrl::parse(format!("did:example:{}#{}", s(&id["did"]), s(&id["frag"]))).unwrap()
}

fn scope_of(sc: &str) -> Option<MethodScope> {
  match sc {
    "assertionMethod" => Some(MethodScope::assertion_method()),
    "authentication" => Some(MethodScope::authentication()),
    "vm" => Some(MethodScope::VerificationMethod),
    _ => None,
  }
}

struct Run {
  jwt: Jwt,
  expected_credential: Option<Credential>,
  vopts: JwsVerificationOptions,
  opts: JwtCredentialValidationOptions,
  trusted_both: bool,
  fail_fast: FailFast,
}

fn base_opts(v: JwsVerificationOptions) -> JwtCredentialValidationOptions {
  JwtCredentialValidationOptions::new()
    .latest_issuance_date(Timestamp::from_unix(LATEST_ISSUANCE).unwrap())
    .earliest_expiry_date(Timestamp::from_unix(EARLIEST_EXPIRY).unwrap())
    .verification_options(v)
}

fn prepare(row: &Value, w: &World) -> Run {
  match s(&row["phase"]) {
    "S" => {
      let sp = Spec2 { issuer_claim: s(&row["issuer_claim"]).into(), ..Default::default() };
      let (claims, cred) = claims_of(&sp);
      let kid: Option<String> = match s(&row["kid"]["mode"]) {
        "full" => Some(method_url(&row["kid"]["id"]).to_string()),
        "fragment" => Some("#key-1".into()),
        "unparsable" => Some("not a did url".into()),
        _ => None,
      };
      let sk = if s(&row["signed_with"]) == "K1" { &w.k1 } else { &w.k2 };
      let jwt = sign_jwt(&claims, kid.as_deref(), nonce_of(s(&row["nonce_hdr"])), sk);
      let mut v = JwsVerificationOptions::new();
      if s(&row["method_id"]["did"]) != "none" {
        v = v.method_id(method_url(&row["method_id"]));
      }
      if let Some(sc) = scope_of(s(&row["scope"])) {
        v = v.method_scope(sc);
      }
      if let Some(n) = nonce_of(s(&row["nonce_opt"])) {
        v = v.nonce(n);
      }
      Run { jwt, expected_credential: cred, vopts: v.clone(), opts: base_opts(v), trusted_both: s(&row["trusted"]) == "issuer_and_other", fail_fast: FailFast::AllErrors }
    }
    "U" => {
      let sp = Spec2 {
        issuance: LATEST_ISSUANCE + i(&row["issuance"]),
        expiry: match s(&row["expiry"]) {
          "absent" => None,
          d => Some(EARLIEST_EXPIRY + d.parse::<i64>().unwrap()),
        },
        structure: s(&row["structure"]).into(),
        non_transferable: b(&row["non_transferable"]),
        status: s(&row["status"]).into(),
        ..Default::default()
      };
      let (claims, cred) = claims_of(&sp);
      let jwt = sign_jwt(&claims, Some("did:example:issuer#key-1"), None, &w.k1);
      let v = JwsVerificationOptions::new();
      let mut o = base_opts(v.clone()).status_check(match s(&row["status_mode"]) {
        "Strict" => StatusCheck::Strict,
        "SkipUnsupported" => StatusCheck::SkipUnsupported,
        _ => StatusCheck::SkipAll,
      });
      let holder = Url::parse(if b(&row["holder_is_subject"]) { "did:example:subject" } else { "did:example:someone-else" }).unwrap();
      match s(&row["rel"]) {
        "AlwaysSubject" => o = o.subject_holder_relationship(holder, SubjectHolderRelationship::AlwaysSubject),
        "SubjectOnNonTransferable" => o = o.subject_holder_relationship(holder, SubjectHolderRelationship::SubjectOnNonTransferable),
        "Any" => o = o.subject_holder_relationship(holder, SubjectHolderRelationship::Any),
        _ => {}
      }
      let ff = if s(&row["fail_fast"]) == "FirstError" { FailFast::FirstError } else { FailFast::AllErrors };
      Run { jwt, expected_credential: cred, vopts: v, opts: o, trusted_both: false, fail_fast: ff }
    }
    "C" => {
      // crafted claim sets: where the dates are stated
      let issuance = LATEST_ISSUANCE + i(&row["issuance"]);
      let expiry = EARLIEST_EXPIRY + s(&row["expiry"]).parse::<i64>().unwrap();
      let sp = Spec2 { issuance, expiry: Some(expiry), ..Default::default() };
      let (claims, cred) = claims_of(&sp);
      let mut v: Value = serde_json::from_str(&claims).unwrap();
      let rfc = |t: i64| json!(Timestamp::from_unix(t).unwrap().to_rfc3339());
      match s(&row["exp_at"]) {
        "claim" => {}
        "vc_only" => {
          v.as_object_mut().unwrap().remove("exp");
          v["vc"]["expirationDate"] = rfc(expiry);
        }
        "both_equal" => v["vc"]["expirationDate"] = rfc(expiry),
        "both_differ" => v["vc"]["expirationDate"] = rfc(expiry + 100),
        o => tool_error(&format!("bad exp_at {o}")),
      }
      let stated = v.get("nbf").or_else(|| v.get("iat")).cloned().unwrap_or_else(|| tool_error("no issuance claim"));
      {
        let o = v.as_object_mut().unwrap();
        o.remove("nbf");
        o.remove("iat");
      }
      match s(&row["iss_at"]) {
        "nbf" => v["nbf"] = stated,
        "iat" => v["iat"] = stated,
        "vc_only" => v["vc"]["issuanceDate"] = rfc(issuance),
        "nbf_vc_equal" => {
          v["nbf"] = stated;
          v["vc"]["issuanceDate"] = rfc(issuance);
        }
        "nbf_vc_differ" => {
          v["nbf"] = stated;
          v["vc"]["issuanceDate"] = rfc(issuance - 100);
        }
        o => tool_error(&format!("bad iss_at {o}")),
      }
      let jwt = sign_jwt(&serde_json::to_string(&v).unwrap(), Some("did:example:issuer#key-1"), None, &w.k1);
      let vo = JwsVerificationOptions::new();
      Run { jwt, expected_credential: cred, vopts: vo.clone(), opts: base_opts(vo), trusted_both: false, fail_fast: FailFast::AllErrors }
    }
    "D" => {
      // which bounds are configured: an unset bound is the current time
      let year = |y: &str| -> i64 {
        let n: i64 = y[1..].parse().unwrap();
        Timestamp::parse(&format!("{n:04}-06-15T12:00:00Z")).unwrap().to_unix()
      };
      let expiry = if s(&row["exp"]) == "absent" { None } else { Some(year(s(&row["exp"]))) };
      let sp = Spec2 { issuance: year(s(&row["nbf"])), expiry, ..Default::default() };
      let (claims, cred) = claims_of(&sp);
      let jwt = sign_jwt(&claims, Some("did:example:issuer#key-1"), None, &w.k1);
      let vo = JwsVerificationOptions::new();
      let mut o = JwtCredentialValidationOptions::new().verification_options(vo.clone());
      if s(&row["latest_issuance"]) != "unset" {
        o = o.latest_issuance_date(Timestamp::from_unix(year(s(&row["latest_issuance"]))).unwrap());
      }
      if s(&row["earliest_expiry"]) != "unset" {
        o = o.earliest_expiry_date(Timestamp::from_unix(year(s(&row["earliest_expiry"]))).unwrap());
      }
      Run { jwt, expected_credential: cred, vopts: vo, opts: o, trusted_both: false, fail_fast: FailFast::AllErrors }
    }
    _ => {
      // one failing condition in each phase
      let mut sp = Spec2::default();
      match s(&row["u_fail"]) {
        "issuance" => sp.issuance = LATEST_ISSUANCE + 1,
        "expiry" => sp.expiry = Some(EARLIEST_EXPIRY - 1),
        "structure" => sp.structure = "no_base_type".into(),
        "revoked" => sp.status = "revoked".into(),
        _ => {}
      }
      let mut v = JwsVerificationOptions::new();
      let mut kid = "did:example:issuer#key-1".to_string();
      let mut sk = &w.k1;
      let mut nonce = None;
      match s(&row["s_fail"]) {
        "nonce" => nonce = Some("nonce-a"),
        "signature" => sk = &w.k2,
        "scope" => v = v.method_scope(MethodScope::authentication()),
        "identifier" => sp.issuer_claim = "stranger".into(),
        "kid_fragment" => kid = "#key-1".into(),
        "foreign" => kid = "did:example:stranger#key-1".into(),
        o => tool_error(&format!("bad s_fail {o}")),
      }
      let (claims, cred) = claims_of(&sp);
      let jwt = sign_jwt(&claims, Some(&kid), nonce, sk);
      let mut o = base_opts(v.clone());
      if s(&row["u_fail"]) == "subject_holder" {
        o = o.subject_holder_relationship(Url::parse("did:example:someone-else").unwrap(), SubjectHolderRelationship::AlwaysSubject);
      }
      let ff = if s(&row["fail_fast"]) == "FirstError" { FailFast::FirstError } else { FailFast::AllErrors };
      Run { jwt, expected_credential: cred, vopts: v, opts: o, trusted_both: false, fail_fast: ff }
    }
  }
}

fn allowed_x(s_fail: &str) -> &'static str {
  match s_fail {
    "nonce" => "nonce",
    "signature" => "signature",
    "scope" | "kid_fragment" => "method_lookup",
    "identifier" => "identifier_mismatch",
    "foreign" => "document_mismatch",
    _ => "?",
  }
}

fn run_row(case: &Value, w: &World) -> Vec<(String, Value, Value)> {
  let row = &case["row"];
  let out = &case["out"];
  let mut diffs = Vec::new();
  let run = prepare(row, w);
  let validator = JwtCredentialValidator::with_signature_verifier(EdDSAJwsVerifier::default());
  let accept = b(&out["accept"]);
  let phase = s(&row["phase"]);
  let mut allowed: Vec<String> = arr(&out["errs"]).iter().map(|e| s(e).to_string()).collect();
  if phase == "X" {
    allowed = vec![allowed_x(s(&row["s_fail"])).to_string()];
  }
  allowed.sort();
  let check_accepted = |cred: &Credential, custom: &Option<Object>, diffs: &mut Vec<(String, Value, Value)>| {
    if let Some(exp) = &run.expected_credential {
      if cred.to_json().ok() != exp.to_json().ok() {
        diffs.push(("returned_credential".into(), json!("the credential that was signed"), json!(cred.to_json().unwrap_or_default())));
      }
    }
    if custom.as_ref().and_then(|c| c.get("custom_claim")) != Some(&json!("kept")) {
      diffs.push(("custom_claims".into(), json!({"custom_claim": "kept"}), json!(custom)));
    }
  };
  // ---- verify_signature over the trusted documents (signature phase only) ----
  if phase == "S" {
    let docs: Vec<&CoreDocument> = if run.trusted_both { vec![&w.issuer, &w.other] } else { vec![&w.issuer] };
    let r = validator.verify_signature::<_, Object>(&run.jwt, &docs, &run.vopts);
    match (&r, accept) {
      (Ok(d), true) => check_accepted(&d.credential, &d.custom_claims, &mut diffs),
      (Ok(_), false) => diffs.push(("accepted_with_false_condition/verify_signature".into(), json!({"errors": allowed}), json!("accepted"))),
      (Err(e), true) => diffs.push(("~rejected_although_all_hold/verify_signature".into(), json!("accepted"), json!(e.to_string()))),
      (Err(e), false) => {
        if !allowed.iter().any(|a| a == err_kind(e)) {
          diffs.push(("error_does_not_identify_condition/verify_signature".into(), json!(allowed), json!(err_kind(e))));
        }
      }
    }
    if run.trusted_both {
      return diffs;
    }
  }
  // ---- validate against the issuer document ----
  let r = validator.validate::<_, Object>(&run.jwt, &w.issuer, &run.opts, run.fail_fast);
  match (&r, accept) {
    (Ok(d), true) => check_accepted(&d.credential, &d.custom_claims, &mut diffs),
    (Ok(_), false) => diffs.push(("accepted_with_false_condition/validate".into(), json!({"errors": allowed}), json!("accepted"))),
    (Err(e), true) => diffs.push(("~rejected_although_all_hold/validate".into(), json!("accepted"), json!(e.to_string()))),
    (Err(e), false) => {
      let mut got: Vec<String> = e.validation_errors.iter().map(|x| err_kind(x).to_string()).collect();
      got.sort();
      let all_errors = (phase == "U" || phase == "C" || phase == "D") && matches!(run.fail_fast, FailFast::AllErrors);
      let ok = if all_errors {
        allowed.iter().all(|a| got.contains(a)) // every failing condition is reported
      } else {
        got.len() == 1 && allowed.contains(&got[0])
      };
      if !ok {
        diffs.push(("error_does_not_identify_condition/validate".into(), json!({"allowed": allowed, "all_errors": all_errors}), json!(got)));
      } else if all_errors && got != allowed {
        // further errors: the implementation holds more conditions to be false than the reference does
        diffs.push(("~additional_errors/validate".into(), json!(allowed), json!(got)));
      }
    }
  }
  diffs
}

fn replay_chunk(cases: &[Value], rep: &mut Report) {
  let w = world();
  for case in cases {
    note_case(&case["row"]);
    rep.eval();
    match guarded(|| run_row(case, &w)) {
      Err(p) => rep.mismatch("credential_validation/panic", case, json!("no panic"), json!(p), "panic"),
      Ok(diffs) => {
        for (k, exp, obs) in diffs {
          rep.mismatch(&format!("credential_validation/{k}"), case, exp, obs, "");
        }
      }
    }
    rep.nontrivial(format!("{}", case["row"]));
    if b(&case["out"]["accept"]) {
      rep.sample(case.clone());
    }
  }
}

pub fn replay(cases: &[Value], rep: &mut Report) {
  par_replay(cases, rep, replay_chunk);
}
