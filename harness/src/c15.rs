//! C15: the shipped key stores against spec/KeyStore.tla (sequential) and spec/KeyIdStore.tla (races).
//! Generic over the backend: the in-memory stores (crate `vh`) and StrongholdStorage (crate `vh_sh`, thorough tier).
use crate::util::*;
use identity_storage::JwkStorageBbsPlusExt;
use identity_eddsa_verifier::EdDSAJwsVerifier;
use identity_storage::JwkMemStore;
use identity_storage::JwkStorage;
use identity_storage::KeyId;
use identity_storage::KeyIdMemstore;
use identity_storage::KeyIdStorage;
use identity_storage::KeyType;
use identity_storage::MethodDigest;
use identity_verification::jose::jwk::Jwk;
use identity_verification::jose::jwk::JwkParamsEc;
use identity_verification::jose::jwk::JwkParamsOkp;
use identity_verification::jose::jws::JwsAlgorithm;
use identity_verification::jose::jws::JwsVerifier;
use identity_verification::jose::jws::VerificationInput;
use identity_verification::jose::jwu::encode_b64;
use identity_verification::VerificationMethod;
use rand::Rng;
use serde_json::json;
use serde_json::Value;
use std::sync::atomic::AtomicU64;
use std::sync::atomic::Ordering;
use std::sync::Arc;
use std::sync::Barrier;

struct Slot {
  id: KeyId,
  public: Jwk,
  bls: bool,
}

/// A shipped pair of stores under test.
pub trait Backend: 'static {
  type K: JwkStorage + JwkStorageBbsPlusExt;
  type I: KeyIdStorage + Send + Sync + 'static;
  fn make() -> (Self::K, Self::I);
  fn block_on<F: std::future::Future>(f: F) -> F::Output;
}

/// JwkMemStore + KeyIdMemstore
pub struct Mem;
impl Backend for Mem {
  type K = JwkMemStore;
  type I = KeyIdMemstore;
  fn make() -> (JwkMemStore, KeyIdMemstore) {
    (JwkMemStore::new(), KeyIdMemstore::new())
  }
  fn block_on<F: std::future::Future>(f: F) -> F::Output {
    futures::executor::block_on(f)
  }
}

struct Live<B: Backend> {
  store: B::K,
  kids: B::I,
  slots: Vec<Slot>, // slot k is slots[k-1]
}

fn digest(n: i64) -> MethodDigest {
  // distinct verification methods give distinct digests
  let did = identity_did::CoreDID::parse("did:example:digests").unwrap();
  let mut p = JwkParamsOkp::new();
  p.crv = "Ed25519".into();
  p.x = encode_b64([n as u8; 32]);
  let jwk = Jwk::from_params(p);
  let m = VerificationMethod::new_from_jwk(did, jwk, Some(&format!("d{n}"))).unwrap();
  MethodDigest::new(&m).unwrap()
}
fn kid_val(n: i64) -> KeyId {
  KeyId::new(format!("key-id-value-{n}"))
}
fn never_issued() -> KeyId {
  KeyId::new("never-issued-key-id")
}

fn fresh_ed25519() -> (Vec<u8>, Vec<u8>) {
  let sk = crypto::signatures::ed25519::SecretKey::generate().unwrap();
  let pk = sk.public_key();
  (sk.to_bytes().to_vec(), pk.to_bytes().to_vec())
}

/// Concrete realisations of a model JWK class: every model value stands for several real values and a refused class must
/// be refused in EVERY realisation.
fn jwk_variants(class: &str) -> Vec<Jwk> {
  let (sk, pk) = fresh_ed25519();
  let okp = |crv: &str, with_d: bool| {
    let mut p = JwkParamsOkp::new();
    p.crv = crv.into();
    p.x = encode_b64(&pk);
    if with_d {
      p.d = Some(encode_b64(&sk));
    }
    Jwk::from_params(p)
  };
  let with_alg = |mut j: Jwk, a: &str| {
    j.set_alg(a);
    j
  };
  match class {
    "private_alg" => vec![with_alg(okp("Ed25519", true), "EdDSA")],
    "public_only" => vec![with_alg(okp("Ed25519", false), "EdDSA")],
    "no_alg" => vec![okp("Ed25519", true)],
    "wrong_alg" => ["ES256", "ES256K", "HS256", "RS256", "none", "ES384"]
      .iter()
      .map(|a| with_alg(okp("Ed25519", true), a))
      .collect(),
    "unknown_alg" => ["Ed25519", "eddsa", "EDDSA", "EdDSA ", " EdDSA", "", "EdDSA\0", "BLS12381G2", "x"]
      .iter()
      .map(|a| with_alg(okp("Ed25519", true), a))
      .collect(),
    "wrong_crv" => ["X25519", "Ed448", "ed25519", "", "P-256"]
      .iter()
      .map(|c| with_alg(okp(c, true), "EdDSA"))
      .collect(),
    "wrong_kty" => {
      let mut p = JwkParamsEc::new();
      p.crv = "P-256".into();
      p.x = encode_b64([1u8; 32]);
      p.y = encode_b64([2u8; 32]);
      p.d = Some(encode_b64([3u8; 32]));
      let mut k = identity_verification::jwk::JwkParamsOct::new();
      k.k = encode_b64(&sk);
      vec![with_alg(Jwk::from_params(p), "EdDSA"), with_alg(Jwk::from_params(k), "EdDSA")]
    }
    o => tool_error(&format!("bad jwk class {o}")),
  }
}

/// A BLS public JWK no store knows.
fn throwaway_bls_public() -> Jwk {
  let alg = jsonprooftoken::jpa::algs::ProofAlgorithm::BLS12381_SHA256;
  let (sk, pk) = identity_storage::key_storage::bls::generate_bbs_keypair(alg).unwrap_or_else(|e| tool_error(&e.to_string()));
  identity_storage::key_storage::bls::encode_bls_jwk(&sk, &pk, alg).1
}

/// Independent BBS+ verification (zkryptium) under the ciphersuite the public JWK names.
fn bbs_verifies(sig: &[u8], public: &Jwk, messages: &[Vec<u8>], header: &[u8]) -> bool {
  use zkryptium::bbsplus::ciphersuites::Bls12381Sha256;
  use zkryptium::bbsplus::ciphersuites::Bls12381Shake256;
  use zkryptium::schemes::algorithms::BBSplus;
  use zkryptium::schemes::generics::Signature;
  let Ok((_, pk)) = identity_storage::key_storage::bls::expand_bls_jwk(public) else {
    return false;
  };
  let Ok(bytes): Result<[u8; 80], _> = sig.try_into() else {
    return false;
  };
  match public.alg() {
    Some("BBS-BLS12381-SHA256") => Signature::<BBSplus<Bls12381Sha256>>::from_bytes(&bytes)
      .map(|s| s.verify(&pk, Some(messages), Some(header)).is_ok())
      .unwrap_or(false),
    Some("BBS-BLS12381-SHAKE256") => Signature::<BBSplus<Bls12381Shake256>>::from_bytes(&bytes)
      .map(|s| s.verify(&pk, Some(messages), Some(header)).is_ok())
      .unwrap_or(false),
    _ => false,
  }
}

fn jwk_of_class(class: &str) -> Jwk {
  jwk_variants(class).remove(0)
}

impl<B: Backend> Live<B> {
  fn new() -> Self {
    let (store, kids) = B::make();
    Live { store, kids, slots: Vec::new() }
  }
  fn key_id(&self, slot: i64) -> KeyId {
    if slot == 0 {
      never_issued()
    } else {
      self.slots[slot as usize - 1].id.clone()
    }
  }
  /// observable state in the spec's vocabulary
  fn project(&self, ndigests: i64) -> Value {
    let mut live = Vec::new();
    let mut dead = Vec::new();
    for (k, sl) in self.slots.iter().enumerate() {
      if B::block_on(self.store.exists(&sl.id)).unwrap_or(false) {
        live.push(k + 1);
      } else {
        dead.push(k + 1);
      }
    }
    let kidmap: Vec<i64> = (1..=ndigests)
      .map(|d| match B::block_on(self.kids.get_key_id(&digest(d))) {
        Ok(k) => (1..=9).find(|v| kid_val(*v) == k).unwrap_or(99),
        Err(_) => 0,
      })
      .collect();
    let bls: Vec<usize> = self.slots.iter().enumerate().filter(|(_, sl)| sl.bls).map(|(k, _)| k + 1).collect();
    json!({"live": live, "dead": dead, "kidmap": kidmap, "bls": bls})
  }

  fn apply(&mut self, op: &Value) -> Result<Value, String> {
    let key_type = |n: &str| match n {
      "Ed25519" => JwkMemStore::ED25519_KEY_TYPE,
      "BLS12381G2" => JwkMemStore::BLS12381G2_KEY_TYPE,
      _ => KeyType::new("bogus-key-type"),
    };
    let alg = |n: &str| match n {
      "EdDSA" => JwsAlgorithm::EdDSA,
      "ES256" => JwsAlgorithm::ES256,
      _ => JwsAlgorithm::HS256,
    };
    match s(&op["name"]) {
      "generate" => match B::block_on(self.store.generate(key_type(s(&op["kt"])), alg(s(&op["alg"])))) {
        Err(_) => Ok(json!({"ok": false})),
        Ok(out) => {
          // fresh id, public-only JWK, kid = RFC 7638 thumbprint, alg as requested
          if self.slots.iter().any(|sl| sl.id == out.key_id) {
            return Err("generate returned a key id that was handed out before".into());
          }
          let j = &out.jwk;
          if !j.is_public() || j.is_private() || serde_json::to_string(j).unwrap_or_default().contains("\"d\"") {
            return Err("generate returned private key material".into());
          }
          if j.kid() != Some(j.thumbprint_sha256_b64().as_str()) {
            return Err(format!("kid {:?} is not the RFC 7638 thumbprint", j.kid()));
          }
          if j.alg() != Some(s(&op["alg"])) {
            return Err(format!("alg {:?} is not the requested one", j.alg()));
          }
          self.slots.push(Slot { id: out.key_id, public: out.jwk, bls: false });
          Ok(json!({"ok": true, "slot": self.slots.len()}))
        }
      },
      "generate_bbs" => {
        use jsonprooftoken::jpa::algs::ProofAlgorithm;
        let kt = key_type(s(&op["kt"]));
        let alg = match s(&op["alg"]) {
          "BLS12381_SHA256" => ProofAlgorithm::BLS12381_SHA256,
          "BLS12381_SHAKE256" => ProofAlgorithm::BLS12381_SHAKE256,
          _ => ProofAlgorithm::SU_ES256,
        };
        match B::block_on(self.store.generate_bbs(kt, alg)) {
          Err(_) => Ok(json!({"ok": false})),
          Ok(out) => {
            if self.slots.iter().any(|sl| sl.id == out.key_id) {
              return Err("generate_bbs returned a key id that was handed out before".into());
            }
            if !out.jwk.is_public() || serde_json::to_string(&out.jwk).unwrap_or_default().contains("\"d\"") {
              return Err("generate_bbs returned private key material".into());
            }
            self.slots.push(Slot { id: out.key_id, public: out.jwk, bls: true });
            Ok(json!({"ok": true, "slot": self.slots.len()}))
          }
        }
      }
      "insert" => {
        let variants = jwk_variants(s(&op["jwk"]));
        let many = variants.len() > 1;
        let mut outcome = json!({"ok": false});
        for jwk in variants {
          match B::block_on(self.store.insert(jwk.clone())) {
            Err(_) => {}
            Ok(id) => {
              if self.slots.iter().any(|sl| sl.id == id) {
                return Err("insert returned a key id that was handed out before".into());
              }
              let public = jwk.to_public().ok_or("no public part")?;
              self.slots.push(Slot { id, public, bls: false });
              outcome = json!({"ok": true, "slot": self.slots.len()});
              if many {
                outcome["accepted_alg"] = json!(jwk.alg());
                outcome["accepted_jwk_public"] = serde_json::to_value(jwk.to_public()).unwrap_or_default();
              }
              break;
            }
          }
        }
        Ok(outcome)
      }
      "sign" => {
        let slot = i(&op["slot"]);
        let id = self.key_id(slot);
        let own = if slot == 0 { None } else { Some(self.slots[slot as usize - 1].public.clone()) };
        let is_bls = slot != 0 && self.slots[slot as usize - 1].bls;
        // another LIVE key's public JWK
        let other = self
          .slots
          .iter()
          .enumerate()
          .find(|(k, sl)| (*k as i64 + 1) != slot && !sl.bls && B::block_on(self.store.exists(&sl.id)).unwrap_or(false))
          .map(|(_, sl)| sl.public.clone());
        let public = match s(&op["pub"]) {
          "own" => own.clone().or(other.clone()).unwrap_or_else(|| jwk_of_class("public_only")),
          "other" => other.clone().ok_or("no other live key")?,
          "no_alg" => {
            // for a BLS key id the caller presents an Ed25519 look-alike
            let mut j = own.clone().filter(|_| !is_bls).unwrap_or_else(|| jwk_of_class("public_only"));
            let p = j.try_okp_params().map_err(|e| e.to_string())?.clone();
            j = Jwk::from_params(p);
            j
          }
          "wrong_kty" => jwk_of_class("wrong_kty").to_public().unwrap(),
          c @ ("wrong_alg" | "unknown_alg" | "wrong_crv") => {
            // the key's own public JWK with only the alg / crv member replaced; every realisation must be refused
            let base = own.clone().filter(|_| !is_bls).unwrap_or_else(|| jwk_of_class("public_only"));
            let data = b"signing input of the harness";
            for v in jwk_variants(c) {
              let mut j = base.clone();
              if c == "wrong_crv" {
                let mut p = j.try_okp_params().map_err(|e| e.to_string())?.clone();
                p.crv = v.try_okp_params().map_err(|e| e.to_string())?.crv.clone();
                let alg = j.alg().map(|a| a.to_string());
                j = Jwk::from_params(p);
                if let Some(a) = alg {
                  j.set_alg(a);
                }
              } else {
                j.set_alg(v.alg().unwrap_or_default().to_string());
              }
              if B::block_on(self.store.sign(&id, data, &j)).is_ok() {
                return Ok(json!({"ok": true, "accepted_public_jwk": serde_json::to_value(&j).unwrap_or_default()}));
              }
            }
            return Ok(json!({"ok": false}));
          }
          o => tool_error(&format!("bad pub class {o}")),
        };
        let data = b"signing input of the harness";
        match B::block_on(self.store.sign(&id, data, &public)) {
          Err(_) => Ok(json!({"ok": false})),
          Ok(sig) => {
            // verifies under that key's public JWK and under no other stored key
            let input = |sig: &[u8]| VerificationInput {
              alg: JwsAlgorithm::EdDSA,
              signing_input: data.to_vec().into_boxed_slice(),
              decoded_signature: sig.to_vec().into_boxed_slice(),
            };
            let v = EdDSAJwsVerifier::default();
            let own = own.ok_or("signature produced for an id that was never issued")?;
            if v.verify(input(&sig), &own).is_err() {
              return Err("signature does not verify under the key's own public JWK".into());
            }
            for (k, sl) in self.slots.iter().enumerate() {
              if (k as i64 + 1) != slot && !sl.bls && v.verify(input(&sig), &sl.public).is_ok() {
                return Err(format!("signature of slot {slot} verifies under the key of slot {}", k + 1));
              }
            }
            Ok(json!({"ok": true}))
          }
        }
      }
      name @ ("sign_bbs" | "update_bbs") => {
        let slot = i(&op["slot"]);
        let id = self.key_id(slot);
        let own = if slot == 0 { None } else { Some(self.slots[slot as usize - 1].public.clone()) };
        let live_bls = |me: i64| {
          self
            .slots
            .iter()
            .enumerate()
            .find(|(k, sl)| (*k as i64 + 1) != me && sl.bls && B::block_on(self.store.exists(&sl.id)).unwrap_or(false))
            .map(|(_, sl)| sl.public.clone())
        };
        let public = match s(&op["pub"]) {
          // a never-issued id is presented with some BLS public JWK
          "own" => own.clone().or_else(|| live_bls(slot)).unwrap_or_else(throwaway_bls_public),
          "other_bls" => live_bls(slot).ok_or("no other live BLS key")?,
          "ed" => jwk_of_class("public_only"),
          o => tool_error(&format!("bad bbs pub class {o}")),
        };
        let data: Vec<Vec<u8>> = vec![b"first message".to_vec(), b"valid from".to_vec(), b"valid until".to_vec(), vec![0u8, 255, 7]];
        let header = b"header of the harness".to_vec();
        // a reference signature to update: made by the same store when it can, otherwise any 80 bytes
        let result = if name == "sign_bbs" {
          B::block_on(self.store.sign_bbs(&id, &data, &header, &public))
        } else {
          // the signature to update: made for this id when the store makes one; otherwise a VALID signature of the key whose
          // public JWK is presented (so that a refusal is about the key id, not about the signature's shape); else 80 bytes
          let lender = self
            .slots
            .iter()
            .find(|sl| sl.bls && sl.public == public && B::block_on(self.store.exists(&sl.id)).unwrap_or(false))
            .map(|sl| sl.id.clone());
          let base = B::block_on(self.store.sign_bbs(&id, &data, &header, &public))
            .ok()
            .or_else(|| lender.and_then(|l| B::block_on(self.store.sign_bbs(&l, &data, &header, &public)).ok()))
            .unwrap_or_else(|| vec![7u8; 80]);
          let ctx = identity_storage::ProofUpdateCtx {
            old_start_validity_timeframe: data[1].clone(),
            new_start_validity_timeframe: b"valid from later".to_vec(),
            old_end_validity_timeframe: data[2].clone(),
            new_end_validity_timeframe: b"valid until later".to_vec(),
            index_start_validity_timeframe: 1,
            index_end_validity_timeframe: 2,
            number_of_signed_messages: data.len(),
          };
          B::block_on(self.store.update_signature(&id, &public, &base, ctx))
        };
        match result {
          Err(_) => Ok(json!({"ok": false})),
          Ok(sig) => {
            let own = own.ok_or("BBS+ signature produced for an id that was never issued")?;
            let signed: Vec<Vec<u8>> = if name == "sign_bbs" {
              data.clone()
            } else {
              vec![data[0].clone(), b"valid from later".to_vec(), b"valid until later".to_vec(), data[3].clone()]
            };
            if !bbs_verifies(&sig, &own, &signed, &header) {
              return Err("BBS+ signature does not verify under the key's own public JWK (and its ciphersuite)".into());
            }
            for (k, sl) in self.slots.iter().enumerate() {
              if (k as i64 + 1) != slot && sl.bls && bbs_verifies(&sig, &sl.public, &signed, &header) {
                return Err(format!("BBS+ signature of slot {slot} verifies under the key of slot {}", k + 1));
              }
            }
            Ok(json!({"ok": true}))
          }
        }
      }
      "delete" => Ok(json!({"ok": B::block_on(self.store.delete(&self.key_id(i(&op["slot"])))).is_ok()})),
      "exists" => match B::block_on(self.store.exists(&self.key_id(i(&op["slot"])))) {
        Ok(v) => Ok(json!({"ok": true, "v": v})),
        Err(_) => Ok(json!({"ok": false})),
      },
      "insert_key_id" => Ok(json!({"ok": B::block_on(self.kids.insert_key_id(digest(i(&op["d"])), kid_val(i(&op["kid"])))).is_ok()})),
      "get_key_id" => match B::block_on(self.kids.get_key_id(&digest(i(&op["d"])))) {
        Ok(k) => Ok(json!({"ok": true, "kid": (1..=9).find(|v| kid_val(*v) == k).unwrap_or(99)})),
        Err(_) => Ok(json!({"ok": false})),
      },
      "delete_key_id" => Ok(json!({"ok": B::block_on(self.kids.delete_key_id(&digest(i(&op["d"])))).is_ok()})),
      o => tool_error(&format!("unknown key store op {o}")),
    }
  }
}

/// Rebuilds the abstract pre-state on fresh stores: slots are created in order, dead ones deleted afterwards.
fn build<B: Backend>(pre: &Value) -> Result<Live<B>, String> {
  let mut l = Live::<B>::new();
  let live: Vec<i64> = arr(&pre["live"]).iter().map(i).collect();
  let dead: Vec<i64> = arr(&pre["dead"]).iter().map(i).collect();
  let n = live.len() + dead.len();
  let bls: Vec<i64> = pre.get("bls").map(|b| arr(b).iter().map(i).collect()).unwrap_or_default();
  for k in 1..=n as i64 {
    if bls.contains(&k) {
      // alternate the two ciphersuites
      let alg = if k % 2 == 1 { "BLS12381_SHA256" } else { "BLS12381_SHAKE256" };
      let r = l.apply(&json!({"name": "generate_bbs", "kt": "BLS12381G2", "alg": alg}))?;
      if r["ok"] != json!(true) {
        return Err("could not create a BLS key for the pre-state".into());
      }
      continue;
    }
    // alternate the two ways a key can enter the store
    let op = if k % 2 == 1 { json!({"name": "generate", "kt": "Ed25519", "alg": "EdDSA"}) } else { json!({"name": "insert", "jwk": "private_alg"}) };
    let mut r = l.apply(&op)?;
    if r["ok"] != json!(true) {
      // a store may refuse one of the two ways in (the contract says what it may accept, not what it must): use the other
      let other = if k % 2 == 1 { json!({"name": "insert", "jwk": "private_alg"}) } else { json!({"name": "generate", "kt": "Ed25519", "alg": "EdDSA"}) };
      r = l.apply(&other)?;
    }
    if r["ok"] != json!(true) {
      return Err("could not create a key for the pre-state".into());
    }
  }
  for k in dead {
    B::block_on(l.store.delete(&l.key_id(k))).map_err(|e| e.to_string())?;
  }
  for (d, v) in arr(&pre["kidmap"]).iter().enumerate() {
    if i(v) != 0 {
      B::block_on(l.kids.insert_key_id(digest(d as i64 + 1), kid_val(i(v)))).map_err(|e| e.to_string())?;
    }
  }
  Ok(l)
}

fn replay_chunk<B: Backend>(cases: &[Value], rep: &mut Report) {
  for case in cases {
    note_case(case);
    rep.eval();
    let op = &case["op"];
    let name = s(&op["name"]).to_string();
    let nd = arr(&case["pre"]["kidmap"]).len() as i64;
    let out = guarded(|| {
      let mut l = build::<B>(&case["pre"])?;
      if l.project(nd) != case["pre"] {
        return Err(format!("harness pre-state {} differs", l.project(nd)));
      }
      let res = l.apply(op)?;
      Ok::<_, String>((res, l.project(nd)))
    });
    match out {
      Err(p) => rep.mismatch(&format!("key_store/{name}/panic"), case, json!("no panic"), json!(p), "panic"),
      Ok(Err(e)) => rep.mismatch(&format!("key_store/{name}/contract"), case, case["res"].clone(), json!(e), "key-storage contract broken"),
      Ok(Ok((res, post))) => {
        if res != case["res"] || post != case["post"] {
          // the contract states what a store may accept; refusing a generate/insert/sign the reference accepts, leaving
          // the store unchanged, is a deviation from the reference, not a breach of the contract
          let refused_only = matches!(name.as_str(), "generate" | "insert" | "sign" | "generate_bbs" | "sign_bbs" | "update_bbs")
            && case["res"]["ok"] == json!(true) && res["ok"] == json!(false) && post == case["pre"];
          let key = if refused_only { format!("key_store/~{name}_refused") } else { format!("key_store/{name}") };
          rep.mismatch(&key, case, json!({"res": case["res"], "post": case["post"]}), json!({"res": res, "post": post}), "");
        }
      }
    }
    rep.nontrivial(format!("{}|{}", case["pre"], op));
    rep.sample(case.clone());
  }
}

pub fn replay(cases: &[Value], rep: &mut Report) {
  par_replay(cases, rep, replay_chunk::<Mem>);
}
pub fn replay_on<B: Backend>(cases: &[Value], rep: &mut Report) {
  par_replay(cases, rep, replay_chunk::<B>);
}

/// Direction V (sequential): one live store, long random history.
pub fn record_seq(seed: u64, n: u64, out: &mut TraceOut) {
  record_seq_on::<Mem>(seed, n, out)
}
pub fn record_seq_on<B: Backend>(seed: u64, n: u64, out: &mut TraceOut) {
  let mut r = rng(seed);
  let mut left = n;
  let nd = 4i64;
  while left > 0 {
    let mut l = Live::<B>::new();
    out.event(json!({"op": {"name": "reset"}, "res": {"ok": true}, "post": l.project(nd)}));
    let seg = left.min(r.gen_range(80..250));
    left -= seg;
    for _ in 0..seg {
      let nslots = l.slots.len() as i64;
      let slot = if nslots == 0 || r.gen_bool(0.1) { 0 } else { r.gen_range(1..=nslots) };
      let op = match r.gen_range(0..100) {
        0..=2 => {
          let kt = ["BLS12381G2", "BLS12381G2", "Ed25519"][r.gen_range(0..3)];
          let alg = ["BLS12381_SHA256", "BLS12381_SHAKE256", "SU_ES256"][r.gen_range(0..3)];
          json!({"name": "generate_bbs", "kt": kt, "alg": alg})
        }
        3..=13 => {
          let kt = ["Ed25519", "Ed25519", "BLS12381G2", "bogus"][r.gen_range(0..4)];
          let alg = ["EdDSA", "EdDSA", "ES256", "bogus"][r.gen_range(0..4)];
          json!({"name": "generate", "kt": kt, "alg": alg})
        }
        14..=24 => {
          let class = ["private_alg", "private_alg", "public_only", "no_alg", "wrong_alg", "unknown_alg", "wrong_kty", "wrong_crv"][r.gen_range(0..8)];
          json!({"name": "insert", "jwk": class})
        }
        25..=49 => {
          let live_other = l.slots.iter().enumerate().any(|(k, sl)| (k as i64 + 1) != slot && !sl.bls && B::block_on(l.store.exists(&sl.id)).unwrap_or(false));
          let pubs: &[&str] = if live_other { &["own", "other", "no_alg", "wrong_alg", "unknown_alg", "wrong_crv", "wrong_kty"] } else { &["own", "no_alg", "wrong_alg", "unknown_alg", "wrong_crv", "wrong_kty"] };
          json!({"name": "sign", "slot": slot, "pub": pubs[r.gen_range(0..pubs.len())]})
        }
        50..=53 => {
          let me_live_bls = slot != 0 && l.slots[slot as usize - 1].bls && B::block_on(l.store.exists(&l.slots[slot as usize - 1].id)).unwrap_or(false);
          let other_live_bls = l.slots.iter().enumerate().any(|(k, sl)| (k as i64 + 1) != slot && sl.bls && B::block_on(l.store.exists(&sl.id)).unwrap_or(false));
          let pubs: &[&str] = if other_live_bls && !me_live_bls { &["own", "other_bls", "ed"] } else { &["own", "own", "ed"] };
          let which = if r.gen_bool(0.5) { "sign_bbs" } else { "update_bbs" };
          json!({"name": which, "slot": slot, "pub": pubs[r.gen_range(0..pubs.len())]})
        }
        54..=61 => json!({"name": "delete", "slot": slot}),
        62..=73 => json!({"name": "exists", "slot": slot}),
        74..=85 => json!({"name": "insert_key_id", "d": r.gen_range(1..=nd), "kid": r.gen_range(1..=3)}),
        86..=93 => json!({"name": "get_key_id", "d": r.gen_range(1..=nd)}),
        _ => json!({"name": "delete_key_id", "d": r.gen_range(1..=nd)}),
      };
      let res = match guarded(|| l.apply(&op)) {
        Err(p) => json!({"panic": p}),
        Ok(Err(e)) => json!({"contract_broken": e}),
        Ok(Ok(v)) => v,
      };
      out.event(json!({"op": op, "res": res, "post": l.project(nd)}));
    }
  }
}

/// Direction V (schedules): real threads race on one KeyIdMemstore; call/return events are stamped by one atomic
/// counter; linearizability is decided by TLC (KeyIdStoreTrace).
pub fn record_race(seed: u64, n: u64, out: &mut TraceOut) {
  record_race_on::<Mem>(seed, n, out)
}
pub fn record_race_on<B: Backend>(seed: u64, n: u64, out: &mut TraceOut) {
  let mut r = rng(seed);
  for round in 0..n {
    let threads: usize = [2, 3, 4, 8, 16][r.gen_range(0..5)].min(2 + (round as usize % 15));
    let store = Arc::new(B::make().1);
    let clock = Arc::new(AtomicU64::new(1));
    let barrier = Arc::new(Barrier::new(threads));
    // optionally a mapping exists before the race
    let pre = r.gen_bool(0.25);
    if pre {
      B::block_on(store.insert_key_id(digest(1), kid_val(9))).unwrap();
    }
    // plan: every thread performs 1..3 operations on digest 1 (mostly inserts of its own key id)
    let plans: Vec<Vec<(String, i64)>> = (0..threads)
      .map(|t| {
        (0..r.gen_range(1..=2))
          .map(|_| match r.gen_range(0..10) {
            0..=6 => ("insert_key_id".to_string(), t as i64 + 1),
            7 => ("delete_key_id".to_string(), 0),
            _ => ("get_key_id".to_string(), 0),
          })
          .collect()
      })
      .collect();
    let jitter: Vec<u32> = (0..threads).map(|_| r.gen_range(0..200)).collect();
    let mut handles = Vec::new();
    for t in 0..threads {
      let store = store.clone();
      let clock = clock.clone();
      let barrier = barrier.clone();
      let plan = plans[t].clone();
      let spin = jitter[t];
      handles.push(std::thread::spawn(move || {
        let mut evs: Vec<(u64, Value)> = Vec::new();
        barrier.wait();
        for _ in 0..spin {
          std::hint::spin_loop();
        }
        for (name, arg) in plan {
          let c = clock.fetch_add(1, Ordering::SeqCst);
          evs.push((c, json!({"ev": "call", "t": t + 1, "name": name, "kid": arg})));
          let res = match name.as_str() {
            "insert_key_id" => json!({"ok": B::block_on(store.insert_key_id(digest(1), kid_val(arg))).is_ok()}),
            "delete_key_id" => json!({"ok": B::block_on(store.delete_key_id(&digest(1))).is_ok()}),
            _ => match B::block_on(store.get_key_id(&digest(1))) {
              Ok(k) => json!({"ok": true, "kid": (1..=99).find(|v| kid_val(*v) == k).unwrap_or(0)}),
              Err(_) => json!({"ok": false}),
            },
          };
          let c = clock.fetch_add(1, Ordering::SeqCst);
          // the call event is completed with the result it turned out to have (same information as the return event)
          if let Some(last) = evs.last_mut() {
            last.1["exp"] = res.clone();
          }
          evs.push((c, json!({"ev": "ret", "t": t + 1, "res": res})));
        }
        evs
      }));
    }
    let mut all: Vec<(u64, Value)> = Vec::new();
    for h in handles {
      match h.join() {
        Ok(evs) => all.extend(evs),
        // a panic inside the store under a race is data: an event no specification step matches
        Err(_) => all.push((u64::MAX, json!({"ev": "panic", "t": 0, "res": {"ok": false}}))),
      }
    }
    all.sort_by_key(|(c, _)| *c);
    let fin = match B::block_on(store.get_key_id(&digest(1))) {
      Ok(k) => (1..=99).find(|v| kid_val(*v) == k).unwrap_or(0),
      Err(_) => 0,
    };
    out.event(json!({"ev": "begin", "threads": threads, "pre": if pre { 9 } else { 0 }}));
    for (_, e) in all {
      out.event(e);
    }
    out.event(json!({"ev": "end", "final": fin}));
  }
}
