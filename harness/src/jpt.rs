//! Beyond the list: credentials as JSON Proof Tokens with BBS+ (issue, validate, present selectively, validate) against
//! spec/JptFlow.tla.
use crate::util::*;
use futures::executor::block_on;
use identity_core::common::Duration;
use identity_core::common::Object;
use identity_core::common::Timestamp;
use identity_core::common::Url;
use identity_core::convert::FromJson;
use identity_credential::credential::Credential;
use identity_credential::credential::CredentialBuilder;
use identity_credential::credential::Jpt;
use identity_credential::credential::JwpCredentialOptions;
use identity_credential::credential::Subject;
use identity_credential::presentation::JwpPresentationOptions;
use identity_credential::presentation::SelectiveDisclosurePresentation;
use identity_credential::validator::FailFast;
use identity_credential::validator::JptCredentialValidationOptions;
use identity_credential::validator::JptCredentialValidator;
use identity_credential::validator::JptPresentationValidationOptions;
use identity_credential::validator::JptPresentationValidator;
use identity_credential::validator::JptCredentialValidatorUtils;
use identity_credential::validator::JptPresentationValidatorUtils;
use identity_credential::validator::JwtValidationError;
use identity_credential::validator::StatusCheck;
use identity_credential::revocation::RevocationBitmap;
use identity_credential::revocation::RevocationDocumentExt;
use identity_credential::revocation::RevocationTimeframeStatus;
use identity_credential::credential::Status;
use identity_storage::TimeframeRevocationExtension;
use identity_did::CoreDID;
use identity_did::DIDUrl;
use identity_did::DID;
use identity_document::document::CoreDocument;
use identity_document::verifiable::JwpVerificationOptions;
use identity_jose::jwu::decode_b64;
use identity_jose::jwu::encode_b64;
use identity_storage::JwkMemStore;
use identity_storage::JwpDocumentExt;
use identity_storage::KeyIdMemstore;
use identity_storage::Storage;
use identity_verification::MethodRelationship;
use identity_verification::MethodScope;
use jsonprooftoken::jpa::algs::ProofAlgorithm;
use serde_json::json;
use serde_json::Value;

const BOUND: i64 = 1_700_000_000;

type MemStorage = Storage<JwkMemStore, KeyIdMemstore>;

pub struct World {
  storage: MemStorage,
  issuer: CoreDocument,
  other: CoreDocument,
  /// the credential of the presented-form rows, issued by issuer#bbs-1
  base_jpt: Jpt,
}

fn did(name: &str) -> CoreDID {
  CoreDID::parse(format!("did:example:{name}")).unwrap()
}

fn world() -> World {
  let storage = MemStorage::new(JwkMemStore::new(), KeyIdMemstore::new());
  let mut issuer = CoreDocument::builder(Object::new()).id(did("issuer")).build().unwrap();
  let mut other = CoreDocument::builder(Object::new()).id(did("other")).build().unwrap();
  let gen = |doc: &mut CoreDocument, frag: &str, alg: ProofAlgorithm| {
    block_on(doc.generate_method_jwp(&storage, JwkMemStore::BLS12381G2_KEY_TYPE, alg, Some(frag), MethodScope::VerificationMethod))
      .unwrap_or_else(|e| tool_error(&format!("cannot generate a BLS method: {e}")))
  };
  gen(&mut issuer, "bbs-1", ProofAlgorithm::BLS12381_SHA256);
  gen(&mut issuer, "bbs-2", ProofAlgorithm::BLS12381_SHA256);
  gen(&mut other, "bbs-1", ProofAlgorithm::BLS12381_SHA256);
  let m = issuer.id().to_url().join("#bbs-1").unwrap();
  issuer.attach_method_relationship(&m, MethodRelationship::AssertionMethod).unwrap();
  let svc_id = issuer.id().to_url().join("#revocation").unwrap();
  let svc = RevocationBitmap::new().to_service(svc_id).unwrap_or_else(|e| tool_error(&e.to_string()));
  issuer.insert_service(svc).unwrap_or_else(|e| tool_error(&e.to_string()));
  let cred = credential("issuer", None, BOUND - 1000);
  let base_jpt = block_on(issuer.create_credential_jpt(&cred, &storage, "bbs-1", &JwpCredentialOptions::default(), None))
    .unwrap_or_else(|e| tool_error(&format!("cannot issue the base JPT: {e}")));
  World { storage, issuer, other, base_jpt }
}

fn credential(issuer: &str, expiry: Option<i64>, issuance: i64) -> Credential {
  let subject = Subject::from_json_value(json!({
    "id": "did:example:subject",
    "name": "Alice",
    "degree": {"type": "BachelorDegree", "name": "Bachelor of Science and Arts"},
    "courses": ["Object-oriented Programming", "Mathematics"],
  }))
  .unwrap();
  let mut b = CredentialBuilder::default()
    .id(Url::parse("https://example.edu/credentials/3732").unwrap())
    .issuer(Url::parse(format!("did:example:{issuer}")).unwrap())
    .type_("UniversityDegreeCredential")
    .issuance_date(Timestamp::from_unix(issuance).unwrap())
    .subject(subject);
  if let Some(e) = expiry {
    b = b.expiration_date(Timestamp::from_unix(e).unwrap());
  }
  b.build().unwrap()
}

fn method_url(m: &Value) -> DIDUrl {
  DIDUrl::parse(format!("did:example:{}#{}", s(&m["did"]), s(&m["frag"]))).unwrap()
}

/// compact JPT: segments separated by '.', payloads separated by '~' inside the payload segment
fn split(jpt: &str) -> Vec<String> {
  jpt.split('.').map(|x| x.to_string()).collect()
}
fn flip_b64(seg: &str) -> String {
  let mut bytes = decode_b64(seg).unwrap_or_else(|_| tool_error("proof segment is not base64url"));
  let k = bytes.len() / 2;
  bytes[k] ^= 0x01;
  encode_b64(bytes)
}

fn run(case: &Value, w: &World) -> Vec<(String, Value, Value)> {
  let row = &case["row"];
  let mut diffs = Vec::new();
  let accept = b(&case["out"]["accept"]);
  let doc_of = |n: &str| if n == "issuer" { &w.issuer } else { &w.other };
  match s(&row["form"]) {
    "issued" | "issued_dates" => {
      let dates = s(&row["form"]) == "issued_dates";
      let (signer_doc, frag, kid_opt, issuer_claim, cred) = if dates {
        let expiry = match s(&row["expiry"]) {
          "absent" => None,
          "before_bound" => Some(BOUND - 1),
          "at_bound" => Some(BOUND),
          _ => Some(BOUND + 1),
        };
        let issuance = match s(&row["issuance"]) {
          "before_bound" => BOUND - 1,
          "at_bound" => BOUND,
          _ => BOUND + 1,
        };
        (&w.issuer, "bbs-1".to_string(), JwpCredentialOptions::default(), "issuer", credential("issuer", expiry, issuance))
      } else {
        let sd = doc_of(s(&row["signed_by"]["did"]));
        let mut o = JwpCredentialOptions::default();
        if s(&row["kid"]) == "claims_bbs2" {
          o = o.kid("did:example:issuer#bbs-2");
        }
        (sd, s(&row["signed_by"]["frag"]).to_string(), o, s(&row["issuer_claim"]), credential(s(&row["issuer_claim"]), Some(BOUND + 5000), BOUND - 1000))
      };
      let _ = issuer_claim;
      let jpt = match block_on(signer_doc.create_credential_jpt(&cred, &w.storage, &frag, &kid_opt, None)) {
        Ok(j) => j,
        Err(e) => {
          diffs.push(("~issuance_refused".into(), json!("issued"), json!(e.to_string())));
          return diffs;
        }
      };
      let mut text = jpt.as_str().to_string();
      if !dates {
        let mut seg = split(&text);
        match s(&row["tamper"]) {
          "payload" => {
            // replace the LAST payload (an attribute of the subject) by another JSON value
            let mut ps: Vec<String> = seg[1].split('~').map(|x| x.to_string()).collect();
            let k = ps.len() - 1;
            ps[k] = encode_b64(b"\"Mallory\"");
            seg[1] = ps.join("~");
          }
          "proof" => {
            let k = seg.len() - 1;
            seg[k] = flip_b64(&seg[k]);
          }
          _ => {}
        }
        text = seg.join(".");
      }
      let jpt = Jpt::new(text);
      let mut vo = JwpVerificationOptions::default();
      let mut against = &w.issuer;
      if !dates {
        if s(&row["method_id"]["did"]) != "none" {
          vo = vo.method_id(method_url(&row["method_id"]));
        }
        if s(&row["scope"]) == "assertionMethod" {
          vo = vo.method_scope(MethodScope::assertion_method());
        }
        against = doc_of(s(&row["against"]));
      }
      let opts = JptCredentialValidationOptions::new()
        .latest_issuance_date(Timestamp::from_unix(BOUND).unwrap())
        .earliest_expiry_date(Timestamp::from_unix(BOUND).unwrap())
        .verification_options(vo);
      for ff in [FailFast::FirstError, FailFast::AllErrors] {
        let r = JptCredentialValidator::validate::<_, Object>(&jpt, against, &opts, ff);
        match (&r, accept) {
          (Ok(d), true) => {
            if d.credential != cred {
              diffs.push(("decoded_credential_differs".into(), serde_json::to_value(&cred).unwrap(), serde_json::to_value(&d.credential).unwrap()));
            }
          }
          (Ok(_), false) => diffs.push(("accepted_with_false_condition".into(), json!("rejected"), json!("accepted"))),
          (Err(e), true) => diffs.push(("~rejected_although_all_hold".into(), json!("accepted"), json!(e.to_string()))),
          (Err(_), false) => {}
        }
      }
    }
    _ => {
      // presented form: the holder validates the issued credential, conceals attributes, derives the presentation
      let decoded = match JptCredentialValidator::validate::<_, Object>(
        &w.base_jpt,
        &w.issuer,
        &JptCredentialValidationOptions::new()
          .latest_issuance_date(Timestamp::from_unix(BOUND).unwrap())
          .earliest_expiry_date(Timestamp::from_unix(BOUND).unwrap()),
        FailFast::FirstError,
      ) {
        Ok(d) => d,
        Err(e) => {
          diffs.push(("base_credential_rejected".into(), json!("accepted"), json!(e.to_string())));
          return diffs;
        }
      };
      let mut sdp = SelectiveDisclosurePresentation::new(&decoded.decoded_jwp);
      let concealed: Vec<String> = arr(&row["concealed"]).iter().map(|x| s(x).to_string()).collect();
      for c in &concealed {
        if sdp.conceal_in_subject(c).is_err() {
          diffs.push(("conceal_refused".into(), json!("ok"), json!(c)));
          return diffs;
        }
      }
      let mut po = JwpPresentationOptions::default();
      if s(&row["nonce_p"]) != "none" {
        po = po.nonce(format!("nonce-{}", s(&row["nonce_p"])));
      }
      if b(&row["aud"]) {
        po = po.audience(Url::parse("https://verifier.example.org/").unwrap());
      }
      let holder_doc = doc_of(s(&row["holder_used"]));
      let method_id = format!("did:example:{}#bbs-1", s(&row["holder_used"]));
      let pjpt = match block_on(holder_doc.create_presentation_jpt(&mut sdp, &method_id, &po)) {
        Ok(p) => p,
        Err(e) => {
          if accept {
            diffs.push(("~presentation_refused".into(), json!("presented"), json!(e.to_string())));
          }
          return diffs;
        }
      };
      // presented compact form: issuer header . presentation header . payloads . proof
      let mut seg = split(pjpt.as_str());
      let issued_payloads: Vec<String> = split(w.base_jpt.as_str())[1].split('~').map(|x| x.to_string()).collect();
      if seg.len() == 4 {
        let mut ps: Vec<String> = seg[2].split('~').map(|x| x.to_string()).collect();
        let subject_slots: Vec<usize> = (0..ps.len()).collect();
        match s(&row["tamper"]) {
          "swap_disclosed" => {
            // another value in the place of a disclosed attribute of the subject (the last disclosed payload)
            if let Some(k) = subject_slots.iter().rev().find(|k| !ps[**k].is_empty()) {
              ps[*k] = encode_b64(b"\"Mallory\"");
            }
          }
          "drop_disclosed" => {
            if let Some(k) = subject_slots.iter().rev().find(|k| !ps[**k].is_empty()) {
              ps[*k] = String::new();
            }
          }
          "reveal_concealed" => {
            // put the issued payload back where the holder concealed one
            if let Some(k) = subject_slots.iter().rev().find(|k| ps[**k].is_empty() && issued_payloads.get(**k).is_some()) {
              ps[*k] = issued_payloads[*k].clone();
            }
          }
          "proof" => seg[3] = flip_b64(&seg[3]),
          _ => {}
        }
        seg[2] = ps.join("~");
      } else if s(&row["tamper"]) != "none" {
        diffs.push(("presented_form_shape".into(), json!(4), json!(seg.len())));
        return diffs;
      }
      let pjpt = Jpt::new(seg.join("."));
      let mut vo = JwpVerificationOptions::default();
      if s(&row["scope"]) == "assertionMethod" {
        vo = vo.method_scope(MethodScope::assertion_method());
      }
      let mut opts = JptPresentationValidationOptions::default().verification_options(vo);
      if s(&row["nonce_v"]) != "none" {
        opts = opts.nonce(format!("nonce-{}", s(&row["nonce_v"])));
      }
      let against = doc_of(s(&row["against"]));
      let r = JptPresentationValidator::validate::<_, Object>(&pjpt, against, &opts, FailFast::FirstError);
      match (&r, accept) {
        (Ok(d), true) => {
          // exactly the attributes that were not concealed show, with the issued values
          let subj = serde_json::to_value(&d.credential.credential_subject).unwrap();
          let subj = if subj.is_array() { subj[0].clone() } else { subj };
          let look = |p: &str| -> Value {
            match p {
              "name" => subj["name"].clone(),
              "degree.name" => subj["degree"]["name"].clone(),
              _ => subj["courses"].get(1).cloned().unwrap_or(Value::Null),
            }
          };
          let want = |p: &str| -> Value {
            match p {
              "name" => json!("Alice"),
              "degree.name" => json!("Bachelor of Science and Arts"),
              _ => json!("Mathematics"),
            }
          };
          for p in ["name", "degree.name", "courses[1]"] {
            let shown = arr(&case["out"]["shown"]).iter().any(|x| s(x) == p);
            let got = look(p);
            if shown && got != want(p) {
              diffs.push(("disclosed_attribute_lost_or_changed".into(), want(p), got));
            } else if !shown && got == want(p) {
              diffs.push(("concealed_attribute_shows".into(), json!("absent"), got));
            }
          }
          // never-concealed attributes are intact
          if subj["degree"]["type"] != json!("BachelorDegree") || subj["courses"][0] != json!("Object-oriented Programming") {
            diffs.push(("untouched_attribute_changed".into(), json!("intact"), subj.clone()));
          }
          let aud = d.aud.as_ref().map(|u| u.to_string());
          let want_aud = if b(&row["aud"]) { Some("https://verifier.example.org/".to_string()) } else { None };
          if aud != want_aud {
            diffs.push(("audience_handed_back".into(), json!(want_aud), json!(aud)));
          }
        }
        (Ok(_), false) => diffs.push(("accepted_with_false_condition".into(), json!("rejected"), json!("accepted"))),
        (Err(e), true) => diffs.push(("~rejected_although_all_hold".into(), json!("accepted"), json!(e.to_string()))),
        (Err(e), false) => {
          if std::env::var("VH_JPT_DEBUG").is_ok() {
            eprintln!("JPTDBG {} {} => {}", s(&row["tamper"]), row, e);
          }
        }
      }
    }
  }
  diffs
}

fn replay_chunk(cases: &[Value], rep: &mut Report) {
  let w = world();
  for case in cases {
    note_case(&case["row"]);
    rep.eval();
    match guarded(|| run(case, &w)) {
      Err(p) => rep.mismatch("jpt/panic", case, json!("no panic"), json!(p), "panic"),
      Ok(diffs) => {
        for (k, exp, obs) in diffs {
          rep.mismatch(&format!("jpt/{k}"), case, exp, obs, "");
        }
      }
    }
    rep.nontrivial(format!("{}", case["row"]));
    if b(&case["out"]["accept"]) {
      rep.sample(case.clone());
    }
  }
}

pub fn replay(cases: &[Value], rep: &mut Report) {
  par_replay(cases, rep, replay_chunk);
}

// ------------------------------------------------------------------------------------------------------------------
// RevocationTimeframe2024 against spec/TimeframeRevocation.tla
// ------------------------------------------------------------------------------------------------------------------
const TICK: i64 = 1000;
const T0: i64 = 1_600_000_000;
const INDEX: u32 = 5;

fn tick(n: i64) -> Timestamp {
  Timestamp::from_unix(T0 + n * TICK).unwrap()
}

fn frame_of(update: &str) -> (i64, i64) {
  match update {
    "later" => (20, 30),
    "shifted" => (15, 25),
    "earlier" => (0, 10),
    _ => (10, 20),
  }
}

fn cause_of(e: &JwtValidationError) -> &'static str {
  match e {
    JwtValidationError::Revoked => "revoked",
    JwtValidationError::OutsideTimeframe => "outside_timeframe",
    JwtValidationError::JwpProofVerificationError(_) => "proof",
    _ => "other",
  }
}

fn run_tfr(case: &Value, w: &World) -> Vec<(String, Value, Value)> {
  let row = &case["row"];
  let mut diffs = Vec::new();
  let accept = b(&case["out"]["accept"]);
  // the credential, alive in [10, 20]
  let status: Status = RevocationTimeframeStatus::new(
    Some(tick(10)),
    Duration::seconds((10 * TICK) as u32),
    Url::parse("did:example:issuer#revocation").unwrap(),
    INDEX,
  )
  .unwrap()
  .into();
  let subject = Subject::from_json_value(json!({"id": "did:example:subject", "name": "Alice", "degree": {"type": "BachelorDegree", "name": "BSc"}})).unwrap();
  let cred: Credential = CredentialBuilder::default()
    .id(Url::parse("https://example.edu/credentials/42").unwrap())
    .issuer(Url::parse("did:example:issuer").unwrap())
    .type_("UniversityDegreeCredential")
    .issuance_date(tick(0))
    .subject(subject)
    .status(status)
    .build()
    .unwrap();
  let old = block_on(w.issuer.create_credential_jpt(&cred, &w.storage, "bbs-1", &JwpCredentialOptions::default(), None))
    .unwrap_or_else(|e| tool_error(&format!("cannot issue: {e}")));
  let vopts = JptCredentialValidationOptions::new();
  let mut token = old.clone();
  let update = s(&row["update"]);
  if update != "none" {
    let decoded = match JptCredentialValidator::validate::<_, Object>(&old, &w.issuer, &vopts, FailFast::FirstError) {
      Ok(d) => d,
      Err(e) => {
        diffs.push(("fresh_credential_rejected".into(), json!("accepted"), json!(e.to_string())));
        return diffs;
      }
    };
    let mut jwp = decoded.decoded_jwp.clone();
    let (st, en) = frame_of(update);
    match block_on(w.issuer.update(&w.storage, "bbs-1", Some(tick(st)), Duration::seconds(((en - st) * TICK) as u32), &mut jwp)) {
      Ok(newer) => {
        if s(&row["which"]) == "new" {
          token = newer;
        }
      }
      Err(e) => {
        diffs.push(("~update_refused".into(), json!("updated"), json!(e.to_string())));
        return diffs;
      }
    }
  }
  if b(&row["edited"]) {
    // the holder rewrites the two timeframe payloads himself
    let carried = if s(&row["which"]) == "new" { frame_of(update) } else { (10, 20) };
    let mut seg = split(token.as_str());
    let mut ps: Vec<String> = seg[1].split('~').map(|x| x.to_string()).collect();
    let enc = |t: Timestamp| encode_b64(serde_json::to_vec(&json!(t.to_rfc3339())).unwrap());
    let (mut hit_s, mut hit_e) = (false, false);
    for p in ps.iter_mut() {
      if *p == enc(tick(carried.0)) && !hit_s {
        *p = enc(tick(0));
        hit_s = true;
      } else if *p == enc(tick(carried.1)) && !hit_e {
        *p = enc(tick(100));
        hit_e = true;
      }
    }
    if !(hit_s && hit_e) {
      diffs.push(("timeframe_payloads_not_found".into(), json!("two payloads"), json!([hit_s, hit_e])));
      return diffs;
    }
    seg[1] = ps.join("~");
    token = Jpt::new(seg.join("."));
  }
  let mut doc = w.issuer.clone();
  if b(&row["revoked"]) {
    doc.revoke_credentials("#revocation", &[INDEX]).unwrap_or_else(|e| tool_error(&e.to_string()));
  }
  let mode = match s(&row["mode"]) {
    "Strict" => StatusCheck::Strict,
    "SkipUnsupported" => StatusCheck::SkipUnsupported,
    _ => StatusCheck::SkipAll,
  };
  let at = tick(i(&row["at"]));
  let carried = if b(&row["edited"]) { (0, 100) } else if s(&row["which"]) == "new" { frame_of(update) } else { (10, 20) };
  let verdict: Result<(), String> = (|| {
    let decoded = JptCredentialValidator::validate::<_, Object>(&token, &doc, &vopts, FailFast::FirstError)
      .map_err(|e| e.validation_errors.first().map(cause_of).unwrap_or("other").to_string())?;
    if s(&row["form"]) == "issued" {
      // what the credential carries
      let st = decoded.credential.credential_status.as_ref().and_then(|x| RevocationTimeframeStatus::try_from(x).ok());
      match st {
        Some(st) if st.start_validity_timeframe() == tick(carried.0) && st.end_validity_timeframe() == tick(carried.1) && st.index() == Some(INDEX) => {}
        other => return Err(format!("carried_status:{other:?}")),
      }
      if decoded.credential.credential_subject != cred.credential_subject || decoded.credential.id != cred.id {
        return Err("other_attributes_changed".into());
      }
      let both = JptCredentialValidatorUtils::check_timeframes_and_revocation_with_validity_timeframe_2024(&decoded.credential, &doc, Some(at), mode);
      let tf = JptCredentialValidatorUtils::check_timeframes_with_validity_timeframe_2024(&decoded.credential, Some(at), mode);
      let rv = JptCredentialValidatorUtils::check_revocation_with_validity_timeframe_2024(&decoded.credential, &doc, mode);
      if both.is_ok() != (tf.is_ok() && rv.is_ok()) {
        return Err("combined_check_disagrees_with_its_parts".into());
      }
      both.map_err(|e| cause_of(&e).to_string())
    } else {
      let mut sdp = SelectiveDisclosurePresentation::new(&decoded.decoded_jwp);
      let _ = sdp.conceal_in_subject("name");
      let p = block_on(doc.create_presentation_jpt(&mut sdp, "did:example:issuer#bbs-1", &JwpPresentationOptions::default()))
        .map_err(|e| format!("presentation_refused:{e}"))?;
      let d = JptPresentationValidator::validate::<_, Object>(&p, &doc, &JptPresentationValidationOptions::default(), FailFast::FirstError)
        .map_err(|e| e.validation_errors.first().map(cause_of).unwrap_or("other").to_string())?;
      // the index stays with the holder
      if let Some(st) = d.credential.credential_status.as_ref() {
        if st.properties.get("revocationBitmapIndex").map(|v| !v.is_null()).unwrap_or(false) {
          if std::env::var("VH_JPT_DEBUG").is_ok() {
            eprintln!("JPTDBG presented status {}", serde_json::to_string(st).unwrap());
            eprintln!("JPTDBG presented jpt {}", p.as_str());
          }
          return Err("index_disclosed".into());
        }
      }
      JptPresentationValidatorUtils::check_timeframes_with_validity_timeframe_2024(&d.credential, Some(at), mode).map_err(|e| cause_of(&e).to_string())
    }
  })();
  match (&verdict, accept) {
    (Ok(()), true) => {}
    (Ok(()), false) => diffs.push(("accepted_although_dead".into(), json!({"cause": case["out"]["cause"]}), json!("accepted"))),
    (Err(c), true) => diffs.push((if c.contains(':') || c.contains('_') && c != "outside_timeframe" { "contract".into() } else { "~rejected_although_alive".into() }, json!("accepted"), json!(c))),
    (Err(c), false) => {
      if c.starts_with("carried_status") || c == "other_attributes_changed" || c == "combined_check_disagrees_with_its_parts" || c == "index_disclosed" {
        diffs.push(("contract".into(), json!("rejected for its cause"), json!(c)));
      } else if c != s(&case["out"]["cause"]) {
        diffs.push(("~cause".into(), case["out"]["cause"].clone(), json!(c)));
      }
    }
  }
  diffs
}

fn replay_chunk_tfr(cases: &[Value], rep: &mut Report) {
  let w = world();
  for case in cases {
    note_case(&case["row"]);
    rep.eval();
    match guarded(|| run_tfr(case, &w)) {
      Err(p) => rep.mismatch("timeframe_revocation/panic", case, json!("no panic"), json!(p), "panic"),
      Ok(diffs) => {
        for (k, exp, obs) in diffs {
          rep.mismatch(&format!("timeframe_revocation/{k}"), case, exp, obs, "");
        }
      }
    }
    rep.nontrivial(format!("{}", case["row"]));
    if b(&case["out"]["accept"]) {
      rep.sample(case.clone());
    }
  }
}

pub fn replay_tfr(cases: &[Value], rep: &mut Report) {
  par_replay(cases, rep, replay_chunk_tfr);
}
