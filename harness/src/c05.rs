//! C05: no parser, decoder or validator panics on externally supplied data.
//!
//! The mutation operators come from spec/Mutate.tla (enumerated by TLC); they are applied to valid seed inputs of every
//! entry point and expanded over concrete positions and characters. Every call runs under catch_unwind; a stack overflow or
//! abort kills the process, which bin/check reports with the breadcrumb written before each batch.
use crate::c10::reps;
use crate::util::*;
use futures::executor::block_on;
use identity_core::common::Object;
use identity_core::common::Timestamp;
use identity_core::common::Url;
use identity_core::convert::Base;
use identity_core::convert::BaseEncoding;
use identity_core::convert::FromJson;
use identity_core::convert::ToJson;
use identity_credential::credential::Credential;
use identity_credential::credential::Jwt;
use identity_credential::credential::LinkedDomainService;
use identity_credential::credential::LinkedVerifiablePresentationService;
use identity_credential::credential::RevocationBitmapStatus;
use identity_credential::credential::Status;
use identity_credential::presentation::Presentation;
use identity_credential::revocation::status_list_2021::StatusList2021;
use identity_credential::revocation::status_list_2021::StatusList2021Credential;
use identity_credential::revocation::status_list_2021::StatusList2021Entry;
use identity_credential::revocation::RevocationBitmap;
use identity_credential::sd_jwt_payload::SdJwt;
use identity_credential::sd_jwt_payload::SdObjectDecoder;
use identity_credential::sd_jwt_vc::metadata::IntegrityMetadata;
use identity_credential::sd_jwt_vc::SdJwtVc;
use identity_credential::validator::FailFast;
use identity_credential::validator::JwtCredentialValidationOptions;
use identity_credential::validator::JwtCredentialValidator;
use identity_credential::validator::JwtCredentialValidatorUtils;
use identity_credential::validator::JwtPresentationValidationOptions;
use identity_credential::validator::JwtPresentationValidator;
use identity_credential::validator::JwtPresentationValidatorUtils;
use identity_credential::validator::KeyBindingJWTValidationOptions;
use identity_credential::validator::SdJwtCredentialValidator;
use identity_credential::validator::StatusCheck;
use identity_did::CoreDID;
use identity_did::DIDJwk;
use identity_did::DIDUrl;
use identity_did::DID;
use identity_document::document::CoreDocument;
use identity_document::service::Service;
use identity_document::verifiable::JwsVerificationOptions;
use identity_eddsa_verifier::EdDSAJwsVerifier;
use identity_iota_core::IotaDID;
use identity_iota_core::IotaDocument;
use identity_iota_core::NetworkName;
use identity_iota_core::StateMetadataDocument;
use identity_jose::jwk::Jwk;
use identity_jose::jwk::JwkSet;
use identity_jose::jws::JwsAlgorithm;
use identity_jose::jws::Decoder;
use identity_jose::jws::JwsHeader;
use identity_storage::MethodDigest;
use identity_verification::MethodRef;
use identity_verification::VerificationMethod;
use serde_json::json;
use serde_json::Value;
use std::io::Write;

struct World {
  c02: crate::c02::World,
  holder: CoreDocument,
  slc: Option<StatusList2021Credential>,
}

fn accessors_jws(item: identity_jose::jws::JwsValidationItem<'_>, key: &Jwk) {
  let _ = (item.alg(), item.kid(), item.nonce(), item.claims().len(), item.signing_input().len(), item.decoded_signature().len());
  let _ = item.protected_header().map(|h| (h.alg(), h.b64(), h.crit().map(|c| c.len()), h.custom().map(|c| c.len())));
  let _ = item.unprotected_header().map(|h| h.kid().map(str::len));
  let _ = item.verify(&EdDSAJwsVerifier::default(), key);
}

fn accessors_did(d: &CoreDID) {
  let _ = (d.method().len(), d.method_id().len(), d.authority().len(), d.scheme(), d.as_str().len(), d.to_string(), format!("{d:?}"));
  let u = d.to_url();
  let _ = (u.to_string(), Url::from(u.clone()), u.query_pairs().count());
  let _ = d.clone().join("#frag");
  let _ = serde_json::to_string(d);
}
fn accessors_url(u: &DIDUrl) {
  let _ = (u.to_string(), format!("{u:?}"), u.path().map(str::len), u.query().map(str::len), u.fragment().map(str::len), u.query_pairs().count());
  let _ = Url::from(u.clone());
  accessors_did(u.did());
  let _ = serde_json::to_string(u);
}
fn accessors_ts(t: Timestamp) {
  let _ = (t.to_rfc3339(), t.to_unix(), t.to_string(), format!("{t:?}"), t.to_json());
  let _ = t.checked_add(identity_core::common::Duration::weeks(u32::MAX));
  let _ = t.checked_sub(identity_core::common::Duration::days(u32::MAX));
}
fn accessors_doc(d: &CoreDocument, key: &Jwk) {
  let _ = (d.to_json(), d.to_string(), format!("{d:?}").len(), d.methods(None).len());
  let _ = d.resolve_method("#key-1", None);
  let _ = d.resolve_service("#revocation");
  use identity_credential::revocation::RevocationDocumentExt;
  let _ = d.resolve_revocation_bitmap("#revocation".into());
  let _ = d.verify_jws("e30.e30.AAAA", None, &EdDSAJwsVerifier::default(), &JwsVerificationOptions::default());
  let _ = key;
  for m in d.methods(None) {
    let _ = (m.data().try_decode(), m.data().public_key_jwk().map(|j| j.thumbprint_sha256_b64()), MethodDigest::new(m).map(|x| x.pack()));
  }
}

/// One entry point family: runs every relevant library call on `input`.
fn call(entry: &str, input: &[u8], w: &World) {
  let text: std::borrow::Cow<'_, str> = String::from_utf8_lossy(input);
  let text: &str = &text;
  let key = crate::c02::pub_jwk(&w.c02.k1);
  match entry {
    "did" => {
      if let Ok(d) = CoreDID::parse(text) {
        accessors_did(&d);
        let mut e = d.clone();
        let _ = e.set_method_name(text);
        let _ = e.set_method_id(text);
      }
      // every way in (parse, FromStr, TryFrom, serde) is followed by the accessors: an entry point that skips the validating
      // constructor shows in what is applied to the accepted value
      if let Ok(d) = text.parse::<CoreDID>() {
        accessors_did(&d);
      }
      if let Ok(d) = serde_json::from_value::<CoreDID>(json!(text)) {
        accessors_did(&d);
      }
      if let Ok(u) = DIDUrl::parse(text) {
        accessors_url(&u);
      }
      if let Ok(u) = serde_json::from_value::<DIDUrl>(json!(text)) {
        accessors_url(&u);
      }
      if let Ok(u) = text.parse::<DIDUrl>() {
        accessors_url(&u);
      }
      if let Ok(mut base) = DIDUrl::parse("did:example:base/p?q=1#f") {
        let _ = base.join(text).map(|u| accessors_url(&u));
        let _ = base.set_path(Some(text));
        let _ = base.set_query(Some(text));
        let _ = base.set_fragment(Some(text));
        accessors_url(&base);
      }
      if let Ok(i) = IotaDID::parse(text) {
        let _ = (i.network_str().len(), i.tag_str().len(), i.is_placeholder(), i.to_string(), String::from(i.clone()));
        accessors_did(i.as_ref());
      }
      let iota_acc = |i: &IotaDID| {
        let _ = (i.network_str().len(), i.tag_str().len(), i.is_placeholder(), i.to_string(), String::from(i.clone()));
        accessors_did(i.as_ref());
      };
      if let Ok(i) = serde_json::from_value::<IotaDID>(json!(text)) {
        iota_acc(&i);
      }
      if let Some(Ok(i)) = CoreDID::parse(text).ok().map(IotaDID::try_from_core) {
        iota_acc(&i);
      }
      if let Ok(i) = text.parse::<IotaDID>() {
        iota_acc(&i);
      }
      if let Ok(i) = IotaDID::try_from(text) {
        iota_acc(&i);
      }
      if let Ok(n) = NetworkName::try_from(text.to_string()) {
        let d = IotaDID::new(&[7u8; 32], &n);
        let _ = (d.network_str().len(), IotaDID::placeholder(&n).to_string());
      }
      if let Ok(n) = serde_json::from_value::<NetworkName>(json!(text)) {
        let _ = IotaDID::new(&[7u8; 32], &n);
      }
      let jwk_acc = |j: DIDJwk| {
        let _ = j.jwk().thumbprint_sha256_b64();
        let _ = (j.to_string(), format!("{j:?}"), serde_json::to_string(&j));
        let _ = CoreDocument::expand_did_jwk(j.clone()).map(|d| accessors_doc(&d, &key));
        let _ = VerificationMethod::try_from(j);
      };
      if let Ok(j) = DIDJwk::parse(text) {
        jwk_acc(j);
      }
      if let Ok(j) = DIDJwk::try_from(text) {
        jwk_acc(j);
      }
      if let Ok(j) = text.parse::<DIDJwk>() {
        jwk_acc(j);
      }
      if let Ok(j) = serde_json::from_value::<DIDJwk>(json!(text)) {
        jwk_acc(j);
      }
      if let Some(Ok(j)) = CoreDID::parse(text).ok().map(DIDJwk::try_from) {
        jwk_acc(j);
      }
      // resolver with arbitrary DID strings
      if let Ok(d) = CoreDID::parse(text) {
        let mut r: identity_resolver::Resolver<CoreDocument> = identity_resolver::Resolver::new();
        r.attach_did_jwk_handler();
        let _ = block_on(r.resolve(&d));
        let _ = block_on(r.resolve_multiple(&[d.clone(), d]));
      }
    }
    "timestamp" => {
      if let Ok(t) = Timestamp::parse(text) {
        accessors_ts(t);
      }
      if let Ok(t) = serde_json::from_value::<Timestamp>(json!(text)) {
        accessors_ts(t);
      }
      if let Ok(n) = text.trim().parse::<i64>() {
        if let Ok(t) = Timestamp::from_unix(n) {
          accessors_ts(t);
        }
      }
    }
    "base" => {
      for b in [Base::Base2, Base::Base8, Base::Base10, Base::Base16Lower, Base::Base16Upper, Base::Base32Lower, Base::Base32Upper, Base::Base32HexLower,
                Base::Base58Btc, Base::Base58Flickr, Base::Base64, Base::Base64Pad, Base::Base64Url, Base::Base64UrlPad] {
        let _ = BaseEncoding::decode(text, b);
      }
      let _ = BaseEncoding::decode_base58(text);
      let _ = BaseEncoding::decode_multibase(text);
      let _ = identity_jose::jwu::decode_b64(text);
      let _ = identity_jose::jwu::decode_b64_json::<Value>(text);
      if let Ok(im) = IntegrityMetadata::parse(text) {
        let _ = (im.alg().len(), im.digest().len(), im.digest_bytes().len(), im.options().map(str::len), im.to_string());
      }
    }
    "jwk" => {
      if let Ok(j) = Jwk::from_json(text) {
        let _ = (j.kty(), j.is_public(), j.is_private(), j.thumbprint_sha256_b64(), j.to_public().map(|p| p.to_json()), j.to_json());
        let _ = (j.try_ec_curve(), j.try_ed_curve(), j.try_ecx_curve(), j.check_alg("EdDSA"));
        let _ = VerificationMethod::new_from_jwk(crate::c02::did("x"), j.clone(), Some("k"));
        let _ = VerificationMethod::new_from_jwk(crate::c02::did("x"), j.clone(), None);
        // as a verification key
        let tok = crate::c02::sign_jwt("{}", None, None, &w.c02.k1);
        if let Ok(item) = Decoder::new().decode_compact_serialization(tok.as_str().as_bytes(), None) {
          let _ = item.verify(&EdDSAJwsVerifier::default(), &j);
        }
        if let Ok(item) = Decoder::new().decode_compact_serialization(tok.as_str().as_bytes(), None) {
          let _ = item.verify(&identity_ecdsa_verifier::EcDSAJwsVerifier::default(), &j);
        }
        // as the key of every shipped signature verifier, under every algorithm they implement (the key of a resolved
        // DID document is externally supplied data)
        {
          use identity_jose::jws::JwsVerifier;
          use identity_jose::jws::VerificationInput;
          for alg in [JwsAlgorithm::EdDSA, JwsAlgorithm::ES256, JwsAlgorithm::ES256K, JwsAlgorithm::ES384, JwsAlgorithm::RS256] {
            for sig_len in [0usize, 63, 64, 65] {
              let input = || VerificationInput { alg, signing_input: b"e30.e30".to_vec().into_boxed_slice(), decoded_signature: vec![7u8; sig_len].into_boxed_slice() };
              let _ = EdDSAJwsVerifier::default().verify(input(), &j);
              let _ = identity_ecdsa_verifier::EcDSAJwsVerifier::default().verify(input(), &j);
            }
          }
        }
        let did_jwk = format!("did:jwk:{}", identity_jose::jwu::encode_b64(text.as_bytes()));
        let _ = DIDJwk::parse(&did_jwk).map(|d| (d.jwk(), CoreDocument::expand_did_jwk(d)));
      }
      if let Ok(s) = JwkSet::from_json(text) {
        let _ = (s.len(), s.to_json(), s.get("kid").len());
      }
    }
    "jws_header" => {
      if let Ok(h) = JwsHeader::from_json(text) {
        let _ = (h.alg(), h.b64(), h.kid(), h.crit().map(|c| c.len()), h.custom().map(|c| c.len()), h.to_json(), h.has("alg"), h.is_disjoint(&JwsHeader::new()));
      }
    }
    "method" => {
      if let Ok(m) = VerificationMethod::from_json(text) {
        let _ = (m.id().to_string(), m.to_json(), m.data().try_decode(), m.data().public_key_jwk().map(|j| j.to_json()), MethodDigest::new(&m).map(|d| d.pack()));
      }
      if let Ok(r) = MethodRef::from_json(text) {
        let _ = (r.id().to_string(), r.to_json(), format!("{r:?}").len());
      }
    }
    "service" => {
      if let Ok(sv) = Service::from_json(text) {
        let _ = (sv.id().to_string(), sv.to_json(), sv.type_().len());
        let _ = RevocationBitmap::try_from(&sv).map(|b| (b.len(), b.is_revoked(0), b.to_service(sv.id().clone())));
        let _ = LinkedDomainService::try_from(sv.clone()).map(|l| (l.domains().len(), l.id().to_string()));
        let _ = LinkedVerifiablePresentationService::try_from(sv.clone()).map(|l| l.verifiable_presentation_urls().len());
      }
    }
    "document" => {
      if let Ok(d) = CoreDocument::from_json(text) {
        accessors_doc(&d, &key);
        let mut d2 = d.clone();
        use identity_credential::revocation::RevocationDocumentExt;
        let _ = d2.revoke_credentials("#revocation", &[1, 70_000]);
        let _ = d2.unrevoke_credentials("#revocation", &[1]);
      }
      if let Ok(d) = IotaDocument::from_json(text) {
        let _ = (d.to_json(), d.to_string(), d.id().to_string(), d.controller().count(), d.clone().pack().map(|p| p.len()));
        accessors_doc(d.core_document(), &key);
      }
    }
    "credential" => {
      if let Ok(c) = Credential::<Object>::from_json(text) {
        let _ = (c.to_json(), c.to_string(), c.check_structure(), c.serialize_jwt(None).map(|s| s.len()));
        let _ = JwtCredentialValidatorUtils::check_structure(&c);
        let _ = JwtCredentialValidatorUtils::check_status(&c, &[&w.c02.issuer], StatusCheck::Strict);
        let _ = JwtCredentialValidatorUtils::extract_issuer::<CoreDID, _>(&c);
        let _ = JwtCredentialValidatorUtils::check_expires_on_or_after(&c, Timestamp::from_unix(0).unwrap());
        if let Some(slc) = &w.slc {
          let _ = JwtCredentialValidatorUtils::check_status_with_status_list_2021(&c, slc, StatusCheck::Strict);
        }
        let _ = StatusList2021Credential::try_from(c.clone()).map(|mut s| {
          let _ = (s.entry(0), s.entry(usize::MAX), s.purpose(), s.to_string());
          for idx in [1usize, 7, 8, 9, 15, 16, 17, 127, 128, 129, 131_071, 131_072, 131_073, usize::MAX / 8] {
            let _ = s.entry(idx);
          }
          let _ = s.update(|l| l.set_entry(3, true));
          let mut target = c.clone();
          let _ = s.set_credential_status(&mut target, 5, true);
          let _ = s.set_credential_status(&mut target, usize::MAX, true);
        });
        if let Some(st) = c.credential_status.clone() {
          let _ = StatusList2021Entry::try_from(&st).map(|e| (e.index(), e.purpose(), e.id().to_string()));
          let _ = RevocationBitmapStatus::try_from(st).map(|r| (r.id().map(|u| u.to_string()), r.index()));
        }
      }
      if let Ok(st) = Status::from_json(text) {
        let _ = StatusList2021Entry::try_from(&st).map(|e| (e.index(), e.to_json()));
        let _ = RevocationBitmapStatus::try_from(st).map(|r| (r.id().map(|u| u.to_string()), r.index()));
      }
      if let Ok(p) = Presentation::<Jwt, Object>::from_json(text) {
        let _ = (p.to_json(), p.to_string(), p.check_structure());
        let _ = JwtPresentationValidatorUtils::check_structure(&p);
        let _ = p.serialize_jwt(&Default::default());
      }
      let _ = serde_json::from_str::<JwsVerificationOptions>(text);
      let _ = serde_json::from_str::<JwtCredentialValidationOptions>(text);
      let _ = serde_json::from_str::<JwtPresentationValidationOptions>(text);
      let _ = serde_json::from_str::<KeyBindingJWTValidationOptions>(text);
    }
    "status_list" => {
      if let Ok(mut l) = StatusList2021::try_from_encoded_str(text) {
        let n = l.len();
        let _ = (l.get(0), l.get(n), l.get(n.wrapping_sub(1)), l.get(usize::MAX), l.set(n, true), l.set(0, true), l.set(usize::MAX, false));
        // indices around every boundary a size check might be written against
        for idx in [1usize, 7, 8, 9, n + 1, n + 7, n + 8, 131_071, 131_072, 131_073, n.saturating_mul(8), usize::MAX / 8, usize::MAX - 1] {
          let _ = (l.get(idx), l.set(idx, true), l.set(idx, false));
        }
        let _ = l.into_encoded_str().len();
      }
    }
    "jws_compact" | "jws_flattened" | "jws_general" => {
      let d = Decoder::new();
      for detached in [None, Some(&b"cGF5bG9hZA"[..])] {
        match entry {
          "jws_compact" => {
            if let Ok(it) = d.decode_compact_serialization(input, detached) {
              accessors_jws(it, &key);
            }
          }
          "jws_flattened" => {
            if let Ok(it) = d.decode_flattened_serialization(input, detached) {
              accessors_jws(it, &key);
            }
          }
          _ => {
            if let Ok(iter) = d.decode_general_serialization(input, detached) {
              for it in iter.flatten() {
                accessors_jws(it, &key);
              }
            }
          }
        }
      }
      if entry == "jws_compact" {
        let _ = w.c02.issuer.verify_jws(text, None, &EdDSAJwsVerifier::default(), &JwsVerificationOptions::default());
        let jwt = Jwt::new(text.to_string());
        let v = JwtCredentialValidator::with_signature_verifier(EdDSAJwsVerifier::default());
        let opts = JwtCredentialValidationOptions::new()
          .latest_issuance_date(Timestamp::from_unix(crate::c02::LATEST_ISSUANCE).unwrap())
          .earliest_expiry_date(Timestamp::from_unix(crate::c02::EARLIEST_EXPIRY).unwrap());
        let _ = v.validate::<_, Object>(&jwt, &w.c02.issuer, &opts, FailFast::AllErrors);
        let _ = v.verify_signature::<_, Object>(&jwt, &[&w.c02.issuer, &w.c02.other], &JwsVerificationOptions::default());
        let _ = JwtCredentialValidatorUtils::extract_issuer_from_jwt::<CoreDID>(&jwt);
        let _ = JwtPresentationValidatorUtils::extract_holder::<CoreDID>(&jwt);
        let pv = JwtPresentationValidator::with_signature_verifier(EdDSAJwsVerifier::default());
        let popts = JwtPresentationValidationOptions::new()
          .latest_issuance_date(Timestamp::from_unix(crate::c02::EARLIEST_EXPIRY).unwrap())
          .earliest_expiry_date(Timestamp::from_unix(crate::c02::LATEST_ISSUANCE).unwrap());
        let _ = pv.validate::<_, Jwt, Object>(&jwt, &w.holder, &popts);
      }
    }
    "state_metadata" => {
      if let Ok(sm) = StateMetadataDocument::unpack(input) {
        let did = IotaDID::parse("did:iota:smr:0x2222222222222222222222222222222222222222222222222222222222222222").unwrap();
        let _ = sm.clone().into_iota_document(&did).map(|d| (d.to_json(), d.pack().map(|p| p.len())));
        let _ = sm.pack(Default::default());
      }
      let _ = MethodDigest::unpack(input.to_vec()).map(|d| d.pack());
    }
    "sd_jwt" => {
      if let Ok(sd) = SdJwt::parse(text) {
        let _ = sd.presentation().len();
        let v = SdJwtCredentialValidator::with_signature_verifier(EdDSAJwsVerifier::default(), SdObjectDecoder::new_with_sha256());
        let opts = JwtCredentialValidationOptions::new()
          .latest_issuance_date(Timestamp::from_unix(crate::c02::LATEST_ISSUANCE).unwrap())
          .earliest_expiry_date(Timestamp::from_unix(crate::c02::EARLIEST_EXPIRY).unwrap());
        let _ = v.validate_credential::<_, Object>(&sd, &w.c02.issuer, &opts, FailFast::AllErrors);
        let _ = v.verify_signature::<_, Object>(&sd, &[&w.c02.issuer], &JwsVerificationOptions::default());
        let kopts = KeyBindingJWTValidationOptions::new()
          .earliest_issuance_date(Timestamp::from_unix(0).unwrap())
          .latest_issuance_date(Timestamp::from_unix(4_000_000_000).unwrap());
        let _ = v.validate_key_binding_jwt(&sd, &w.holder, &kopts);
      }
      if let Ok(vc) = SdJwtVc::parse(text) {
        let c = vc.claims();
        let _ = (c.iss.to_string(), c.vct.to_string(), c.status.is_some(), c.sub.is_some());
        let _ = block_on(vc.issuer_metadata(&NoResolver));
        let _ = block_on(vc.issuer_jwk(&NoResolver));
        let _ = block_on(vc.type_metadata(&NoResolver));
        let _ = vc.clone().into_disclosed_object(&identity_credential::sd_jwt_v2::Sha256Hasher::new());
        let _ = vc.to_string().len();
      }
    }
    other => tool_error(&format!("unknown entry point family {other}")),
  }
}

struct NoResolver;
#[async_trait::async_trait]
impl<I: Sync, T> identity_credential::sd_jwt_vc::Resolver<I, T> for NoResolver {
  async fn resolve(&self, _input: &I) -> Result<T, identity_credential::sd_jwt_vc::resolver::Error> {
    Err(identity_credential::sd_jwt_vc::resolver::Error::NotFound("offline".into()))
  }
}

// ---------------------------------------------------------------------------------------------
// seeds
// ---------------------------------------------------------------------------------------------

fn seeds(w: &World) -> Vec<(&'static str, Vec<u8>)> {
  let mut v: Vec<(&'static str, Vec<u8>)> = Vec::new();
  let mut add = |e: &'static str, s: &str| v.push((e, s.as_bytes().to_vec()));
  add("did", "did:example:123");
  add("did", "did:example:123/path/sub?query=1&x=%20y#fragment");
  add("did", "did:iota:smr:0xf29dd16310c2100fd1bf568b345fb1cc14d71caa3bd9b5ad735d2bd6d455ca3b");
  add("did", "did:iota:0xF29DD16310C2100FD1BF568B345FB1CC14D71CAA3BD9B5AD735D2BD6D455CA3B#key");
  let jwk_json = crate::c02::pub_jwk(&w.c02.k1).to_json().unwrap();
  add("did", &format!("did:jwk:{}", identity_jose::jwu::encode_b64(jwk_json.as_bytes())));
  add("did", "smr");
  add("timestamp", "2020-01-01T00:00:00Z");
  add("timestamp", "9999-12-31T23:59:59.123456789-00:01");
  add("timestamp", "0000-01-01T00:00:00+23:59");
  add("timestamp", "253402300799");
  add("base", "zQmWvQxTqbG2Z9HPJgG57jjwR154cKhbtJenbyYTWkjgF3e");
  add("base", "SGVsbG8gV29ybGQ");
  add("base", "sha256-9cLlJNXN-TsMk-PmKjZ5t0WRL5ca_xGgX3c1VLmXfh-WRL5");
  add("jwk", &jwk_json);
  add("jwk", r#"{"kty":"EC","crv":"P-256","x":"f83OJ3D2xF1Bg8vub9tLe1gHMzV76e8Tus9uPHvRVEU","y":"x_FEzRu9m36HLN_tue659LNpXW6pCyStikYjKIWI5a0","d":"jpsQnnGQmL-YBIffH1136cspYG6-0iY7X1fCE9-E9LI","use":"sig","key_ops":["sign"],"kid":"1"}"#);
  add("jwk", r#"{"kty":"RSA","n":"0vx7agoebGcQ","e":"AQAB","d":"X4cTteJY","p":"83i","q":"3dfO","dp":"G4sP","dq":"s9lA","qi":"GyM","oth":[{"r":"AQ","d":"Ag","t":"Aw"}],"alg":"RS256","x5c":["MIID"],"x5u":"https://example.com/c"}"#);
  add("jwk", r#"{"keys":[{"kty":"oct","k":"AyM1SysPpbyDfgZld3umj1qzKObwVMkoqQ-EstJQLr_T-1qS0gZH75aKtMN3Yj0iPS4hcgUuTwjAzZr1Z9CAow","kid":"kid"},{"kty":"OKP","crv":"Ed25519","x":"11qYAYKxCrfVS_7TyWQHOg7hcvPapiMlrwIaaPcHURo"}]}"#);
  add("jws_header", r#"{"alg":"EdDSA","b64":false,"crit":["b64"],"kid":"did:example:1#k","typ":"JWT","nonce":"n","url":"https://example.com/","x-custom":{"a":[1,2]}}"#);
  let doc_json = w.c02.issuer.to_json().unwrap();
  let dv: Value = serde_json::from_str(&doc_json).unwrap();
  add("method", &dv["verificationMethod"][0].to_string());
  add("method", r#"{"id":"did:example:1#k2","controller":"did:example:1","type":"Ed25519VerificationKey2018","publicKeyMultibase":"zH3C2AVvLMv6gmMNam3uVAjZpfkcJCwDwnZn6z3wXmqPV"}"#);
  add("method", "\"did:example:1#k2\"");
  add("service", &dv["service"][0].to_string());
  // revocation services whose endpoint is a well-formed URL shorter than, as long as, or barely longer than the data-URL
  // header the decoder looks for (37 bytes): every length a slice or split could be written against
  for ep in [
    "data:,",
    "a:b",
    "https://example.com/",
    "data:application/octet-stream",
    "data:application/octet-stream;base64",
    "data:application/octet-stream;base64,",
    "data:application/octet-stream;base64,e",
    "data:application/octet-stream;base65,eJyzMmAAAwADKABr",
    "data:application/octet-stream;base64é",
    "data:application/octet-stream;base6é,eJyzMmAAAwADKABr",
    "DATA:application/octet-stream;base64,eJyzMmAAAwADKABr",
    "did:example:1234567890123456789012345",
    "did:example:12345678901234567890123456",
  ] {
    add("service", &format!(r#"{{"id":"did:example:1#revocation","type":"RevocationBitmap2022","serviceEndpoint":"{ep}"}}"#));
    add("document", &format!(r#"{{"id":"did:example:1","service":[{{"id":"did:example:1#revocation","type":"RevocationBitmap2022","serviceEndpoint":"{ep}"}}]}}"#));
  }
  add("service", r#"{"id":"did:example:1#ld","type":"LinkedDomains","serviceEndpoint":{"origins":["https://foo.example.com","https://bar.example.com/"]}}"#);
  add("service", r#"{"id":"did:example:1#lvp","type":"LinkedVerifiablePresentation","serviceEndpoint":["https://foo.example.com/vp.jwt"]}"#);
  add("document", &doc_json);
  let mut iota = IotaDocument::new_with_id(IotaDID::parse("did:iota:smr:0x1111111111111111111111111111111111111111111111111111111111111111").unwrap());
  iota.metadata.created = Some(Timestamp::from_unix(1_650_000_000).unwrap());
  iota.metadata.updated = Some(Timestamp::from_unix(1_650_000_000).unwrap());
  add("document", &iota.to_json().unwrap());
  let packed = iota.clone().pack().unwrap();
  v.push(("state_metadata", packed));
  let vm = w.c02.issuer.resolve_method("#key-1", None).unwrap();
  v.push(("state_metadata", MethodDigest::new(vm).unwrap().pack()));
  let mut add = |e: &'static str, s: &str| v.push((e, s.as_bytes().to_vec()));
  // credentials / presentations / status
  let (claims, cred) = crate::c02::claims_of(&crate::c02::Spec2 { status: "revoked".into(), ..Default::default() });
  add("credential", &cred.as_ref().unwrap().to_json().unwrap());
  add("credential", r#"{"id":"did:example:issuer?index=7#revocation","type":"RevocationBitmap2022","revocationBitmapIndex":"7"}"#);
  add("credential", r#"{"id":"https://example.com/credentials/status/3#94567","type":"StatusList2021Entry","statusPurpose":"revocation","statusListIndex":"94567","statusListCredential":"https://example.com/credentials/status/3"}"#);
  add("credential", r#"{"@context":"https://www.w3.org/2018/credentials/v1","id":"https://example.org/p/1","type":"VerifiablePresentation","verifiableCredential":["e30.e30.AA"],"holder":"did:example:holder"}"#);
  add("credential", r#"{"@context":["https://www.w3.org/2018/credentials/v1","https://w3id.org/vc/status-list/2021/v1"],"id":"https://example.com/credentials/status/3","type":["VerifiableCredential","StatusList2021Credential"],"issuer":"did:example:12345","issuanceDate":"2021-04-05T14:27:40Z","credentialSubject":{"id":"https://example.com/status/3#list","type":"StatusList2021","statusPurpose":"revocation","encodedList":"H4sIAAAAAAAAA-3BMQEAAADCoPVPbQwfoAAAAAAAAAAAAAAAAAAAAIC3AYbSVKsAQAAA"}}"#);
  add("credential", r#"{"nonce":"abc","method_scope":"VerificationMethod","method_id":"did:example:1#k"}"#);
  add("status_list", "H4sIAAAAAAAAA-3BMQEAAADCoPVPbQwfoAAAAAAAAAAAAAAAAAAAAIC3AYbSVKsAQAAA");
  // well-formed encoded lists of EVERY size class, also shorter than anything StatusList2021::new hands out: an externally
  // supplied list is as long as its author made it (0, 1, 2, 16 bytes, the 16 KiB minimum, one more)
  for nbytes in [0usize, 1, 2, 16, 16 * 1024, 16 * 1024 + 1] {
    use std::io::Write;
    let mut raw = vec![0u8; nbytes];
    if nbytes > 0 {
      raw[0] = 0x81;
      raw[nbytes - 1] |= 0x01;
    }
    let mut enc = flate2::write::GzEncoder::new(Vec::new(), flate2::Compression::default());
    enc.write_all(&raw).unwrap();
    let text = identity_core::convert::BaseEncoding::encode(&enc.finish().unwrap(), identity_core::convert::Base::Base64);
    add("status_list", &text);
    add(
      "credential",
      &format!(
        r#"{{"@context":["https://www.w3.org/2018/credentials/v1","https://w3id.org/vc/status-list/2021/v1"],"id":"https://example.com/credentials/status/3","type":["VerifiableCredential","StatusList2021Credential"],"issuer":"did:example:12345","issuanceDate":"2021-04-05T14:27:40Z","credentialSubject":{{"id":"https://example.com/status/3#list","type":"StatusList2021","statusPurpose":"revocation","encodedList":"{text}"}}}}"#
      ),
    );
  }
  // tokens
  let cred_jwt = crate::c02::sign_jwt(&claims, Some("did:example:issuer#key-1"), None, &w.c02.k1);
  add("jws_compact", cred_jwt.as_str());
  let pres_claims = r#"{"iss":"did:example:holder","jti":"https://example.org/p/1","aud":"https://v.example/","exp":1641000000,"nbf":1600000000,"vp":{"@context":"https://www.w3.org/2018/credentials/v1","type":"VerifiablePresentation","verifiableCredential":[]}}"#;
  let pres_jwt = crate::c02::sign_jwt(pres_claims, Some("did:example:holder#hkey-1"), Some("n"), &w.c02.k2);
  add("jws_compact", pres_jwt.as_str());
  let k = crate::c01::keys();
  for (entry, ser) in [("jws_flattened", "flattened"), ("jws_general", "general")] {
    let tok = json!({"ser": ser, "shape": "noncanonical", "b64": "false", "attached": "present", "detached": false, "algAt": "protected", "keyAlg": "absent", "sig": "over_SI", "alg": "EdDSA"});
    let bt = crate::c01::build(&tok, &k);
    v.push((entry, bt.token));
  }
  // SD-JWT with key binding
  let mut enc = identity_credential::sd_jwt_payload::SdObjectEncoder::new(&claims).unwrap();
  let d1 = enc.conceal("/vc/credentialSubject/degree/name", Some("salt-1".into())).unwrap().to_string();
  enc.add_sd_alg_property();
  let sd_jwt = crate::c02::sign_jwt(&enc.try_to_string().unwrap(), Some("did:example:issuer#key-1"), None, &w.c02.k1);
  let kb = identity_credential::sd_jwt_payload::KeyBindingJwtClaims::new(
    &identity_credential::sd_jwt_payload::Sha256Hasher::new(), sd_jwt.as_str().to_string(), vec![d1.clone()], "n".into(), "aud".into(), 1_700_000_000);
  let mut h = JwsHeader::new();
  h.set_alg(identity_jose::jws::JwsAlgorithm::EdDSA);
  h.set_typ("kb+jwt");
  h.set_kid("did:example:holder#hkey-1");
  let kb_text = serde_json::to_string(&kb).unwrap();
  let e2 = identity_jose::jws::CompactJwsEncoder::new(kb_text.as_bytes(), &h).unwrap();
  let sig = w.c02.k2.sign(e2.signing_input()).to_bytes();
  let kb_jwt = e2.into_jws(&sig);
  let mut add = |e: &'static str, s: &str| v.push((e, s.as_bytes().to_vec()));
  add("sd_jwt", &format!("{}~{}~{}", sd_jwt.as_str(), d1, kb_jwt));
  // an SD-JWT VC shaped token (vc+sd-jwt)
  let vc_claims = r#"{"iss":"https://issuer.example.com/tenant/1","vct":"https://credentials.example.com/identity_credential","iat":1683000000,"exp":1883000000,"sub":"6c5c0a49","status":{"status_list":{"idx":1,"uri":"https://example.com/statuslists/1"}},"_sd_alg":"sha-256","given_name":"John"}"#;
  let vh = json!({"alg": "EdDSA", "typ": "vc+sd-jwt", "kid": "key-1"});
  let vc_tok = format!("{}.{}.{}~", identity_jose::jwu::encode_b64(vh.to_string()), identity_jose::jwu::encode_b64(vc_claims), identity_jose::jwu::encode_b64([1u8; 64]));
  add("sd_jwt", &vc_tok);
  let vc_claims2 = vc_claims.replace("https://issuer.example.com/tenant/1", "did:example:issuer");
  let vc_tok2 = format!("{}.{}.{}~", identity_jose::jwu::encode_b64(vh.to_string()), identity_jose::jwu::encode_b64(vc_claims2), identity_jose::jwu::encode_b64([1u8; 64]));
  add("sd_jwt", &vc_tok2);
  v
}

// ---------------------------------------------------------------------------------------------
// mutations
// ---------------------------------------------------------------------------------------------

fn sym_chars(sym: &str) -> Vec<Vec<u8>> {
  match sym {
    "Q" => vec![b"\"".to_vec(), b"\\".to_vec(), b"\\u0000".to_vec()],
    "B" => vec![vec![0xff], vec![0xc3], vec![0xe2, 0x82], vec![0xf0, 0x9f, 0x98]],
    "Z" => vec![b"~".to_vec(), b",".to_vec(), b"}".to_vec(), b"]".to_vec(), b"[".to_vec(), b"=".to_vec()],
    s2 => reps(s2).iter().map(|c| c.as_bytes().to_vec()).collect(),
  }
}

fn positions(seed: &[u8], class: &str, cap: usize) -> Vec<usize> {
  let n = seed.len();
  if n == 0 {
    return vec![];
  }
  match class {
    "first" => vec![0],
    "last" => vec![n - 1],
    "delimiters" => seed
      .iter()
      .enumerate()
      .filter(|(_, c)| matches!(**c, b':' | b'#' | b'?' | b'/' | b'.' | b'~' | b'"' | b',' | b'{' | b'}' | b'[' | b']' | b'-' | b'+' | b'T' | b'Z'))
      .map(|(k, _)| k)
      .take(cap)
      .collect(),
    _ => {
      let stride = n.div_ceil(cap).max(1);
      (0..n).step_by(stride).collect()
    }
  }
}

fn byte_mutants(seed: &[u8], row: &Value, cap: usize) -> Vec<Vec<u8>> {
  let mut out = Vec::new();
  let op = s(&row["op"]);
  let chars: Vec<Vec<u8>> = row.get("sym").map(|x| sym_chars(s(x))).unwrap_or_else(|| vec![vec![]]);
  for p in positions(seed, s(&row["pos"]), cap) {
    for ch in &chars {
      let mut m = seed.to_vec();
      match op {
        "delete" => {
          m.remove(p);
        }
        "duplicate" => m.insert(p, seed[p]),
        "replace" => {
          m.splice(p..p + 1, ch.iter().copied());
        }
        "insert" => {
          m.splice(p..p, ch.iter().copied());
        }
        "truncate_after" => m.truncate(p),
        "swap_with_next" => {
          if p + 1 < m.len() {
            m.swap(p, p + 1);
          }
        }
        "flip_bit" => m[p] ^= 1 << (p % 8),
        o => tool_error(&format!("bad op {o}")),
      }
      out.push(m);
    }
  }
  out
}

fn json_value(tag: &str) -> Value {
  match tag {
    "null" => Value::Null,
    "0" => json!(0),
    "-1" => json!(-1),
    "1e400" => serde_json::from_str("1e308").unwrap(),
    "18446744073709551616" => serde_json::from_str("18446744073709551615").unwrap(),
    "empty_string" => json!(""),
    "empty_array" => json!([]),
    "empty_object" => json!({}),
    "true" => json!(true),
    "long_string" => json!("A".repeat(70_000)),
    "nan_like" => json!("NaN"),
    "control_string" => json!("a\u{0}\n\t\u{7f}\u{85}\u{2028}b"),
    o => tool_error(&format!("bad json value {o}")),
  }
}

/// all JSON pointers of a document
fn pointers(v: &Value, at: String, out: &mut Vec<String>) {
  out.push(at.clone());
  match v {
    Value::Object(o) => {
      for (k, x) in o {
        pointers(x, format!("{at}/{}", k.replace('~', "~0").replace('/', "~1")), out);
      }
    }
    Value::Array(a) => {
      for (i, x) in a.iter().enumerate() {
        pointers(x, format!("{at}/{i}"), out);
      }
    }
    _ => {}
  }
}

fn json_mutants(seed: &[u8], row: &Value) -> Vec<Vec<u8>> {
  let Ok(root) = serde_json::from_slice::<Value>(seed) else { return vec![] };
  if !(root.is_object() || root.is_array()) {
    return vec![];
  }
  let mut ptrs = Vec::new();
  pointers(&root, String::new(), &mut ptrs);
  let mut out = Vec::new();
  for p in ptrs.iter().skip(1) {
    let mut m = root.clone();
    let Some(slot) = m.pointer_mut(p) else { continue };
    match s(&row["op"]) {
      "replace_value" => *slot = json_value(s(&row["with"])),
      "wrap_in_array" => *slot = json!([slot.clone(), slot.clone()]),
      "cut_string" => {
        let Some(text) = slot.as_str().map(|t| t.to_string()) else { continue };
        let keep = i(&row["keep"]) as usize;
        let chars: Vec<char> = text.chars().collect();
        let start = if s(&row["at"]) == "start" {
          0
        } else {
          match chars.iter().rposition(|c| matches!(c, ',' | ';' | ':' | '/' | '#' | '?' | '.')) {
            Some(ix) => ix + 1,
            None => continue,
          }
        };
        if start + keep >= chars.len() {
          continue;
        }
        *slot = json!(chars[..start + keep].iter().collect::<String>());
      }
      "nest_deeply" => {
        let mut x = slot.clone();
        for _ in 0..200 {
          x = json!([x]);
        }
        *slot = x;
      }
      "remove_member" | "duplicate_member" => {
        let (parent, key) = p.rsplit_once('/').unwrap();
        let key = key.replace("~1", "/").replace("~0", "~");
        if let Some(Value::Object(o)) = m.pointer_mut(parent) {
          if s(&row["op"]) == "remove_member" {
            o.remove(&key);
          } else {
            // a duplicated member can only be written as text
            let text = serde_json::to_string(&root).unwrap();
            let needle = format!("\"{key}\":");
            if let Some(ix) = text.find(&needle) {
              let mut t = text.clone();
              t.insert_str(ix, &format!("\"{key}\":null,"));
              out.push(t.into_bytes());
            }
            continue;
          }
        } else {
          continue;
        }
      }
      o => tool_error(&format!("bad json op {o}")),
    }
    out.push(serde_json::to_vec(&m).unwrap());
  }
  out
}

fn breadcrumb(path: &str, text: &str) {
  if let Ok(mut f) = std::fs::File::create(path) {
    let _ = f.write_all(text.as_bytes());
  }
}

pub fn replay(cases: &[Value], rep: &mut Report) {
  let thorough = std::env::var("VERIF_TIER").map(|t| t == "thorough").unwrap_or(false);
  let cap = if thorough { 100_000 } else { 160 };
  let crumb = std::env::var("VERIF_BREADCRUMB").unwrap_or_else(|_| "/dev/null".into());
  let base = crate::c02::world();
  let mut holder = CoreDocument::builder(Object::new()).id(crate::c02::did("holder")).build().unwrap();
  holder
    .insert_method(
      VerificationMethod::new_from_jwk(crate::c02::did("holder"), crate::c02::pub_jwk(&base.k2), Some("hkey-1")).unwrap(),
      identity_verification::MethodScope::VerificationMethod,
    )
    .unwrap();
  let slc = serde_json::from_str::<StatusList2021Credential>(r#"{"@context":["https://www.w3.org/2018/credentials/v1"],"id":"https://example.com/credentials/status/3","type":["VerifiableCredential","StatusList2021Credential"],"issuer":"did:example:12345","issuanceDate":"2021-04-05T14:27:40Z","credentialSubject":{"id":"https://example.com/credentials/status/3","type":"StatusList2021","statusPurpose":"revocation","encodedList":"H4sIAAAAAAAAA-3BMQEAAADCoPVPbQwfoAAAAAAAAAAAAAAAAAAAAIC3AYbSVKsAQAAA"}}"#).ok();
  let w = World { c02: base, holder, slc };
  let all_seeds = seeds(&w);
  // work list: (entry, seed index, mutation row)
  let mut work: Vec<(usize, &Value)> = Vec::new();
  for (si, _) in all_seeds.iter().enumerate() {
    for row in cases {
      work.push((si, row));
    }
  }
  let threads = std::thread::available_parallelism().map(|n| n.get()).unwrap_or(4).min(16);
  let chunk = work.len().div_ceil(threads);
  let reports: Vec<Report> = std::thread::scope(|sc| {
    let hs: Vec<_> = work
      .chunks(chunk)
      .enumerate()
      .map(|(ti, items)| {
        let all_seeds = &all_seeds;
        let crumb = crumb.clone();
        sc.spawn(move || {
          // every worker owns its world (keys, documents)
          let base = crate::c02::world();
          let mut holder = CoreDocument::builder(Object::new()).id(crate::c02::did("holder")).build().unwrap();
          holder
            .insert_method(
              VerificationMethod::new_from_jwk(crate::c02::did("holder"), crate::c02::pub_jwk(&base.k2), Some("hkey-1")).unwrap(),
              identity_verification::MethodScope::VerificationMethod,
            )
            .unwrap();
          let w = World { c02: base, holder, slc: None };
          let mut r = Report::new();
          for (si, row) in items {
            let (entry, seed) = &all_seeds[*si];
            let ctx = json!({"entry": entry, "seed": String::from_utf8_lossy(seed).chars().take(120).collect::<String>(), "mutation": row});
            note_case(&ctx);
            breadcrumb(&format!("{crumb}.{ti}"), &ctx.to_string());
            let mutants: Vec<Vec<u8>> = match s(&row["level"]) {
              // binding demonstration: a case that makes the harness itself panic inside the guarded region
              "canary" => {
                r.eval();
                if let Err(p) = guarded(|| -> () { panic!("canary panic") }) {
                  r.mismatch("no_panic/canary", &ctx, json!("a value or an error"), json!(p), "panic");
                }
                continue;
              }
              "seed" => vec![seed.clone()],
              "bytes" => byte_mutants(seed, row, cap),
              _ => json_mutants(seed, row),
            };
            for m in mutants {
              r.eval();
              if let Err(p) = guarded(|| call(entry, &m, &w)) {
                let site = p.rsplit(" @ ").next().unwrap_or("").to_string();
                r.mismatch(
                  &format!("no_panic/{entry}/{site}"),
                  &json!({"entry": entry, "input": String::from_utf8_lossy(&m), "input_hex_prefix": m.iter().take(64).map(|b| format!("{b:02x}")).collect::<String>(), "mutation": row}),
                  json!("a value or an error"),
                  json!(p),
                  "panic",
                );
              }
            }
            r.nontrivial(format!("{entry}|{si}|{row}"));
            if s(&row["level"]) != "seed" {
              r.sample(ctx);
            }
          }
          r
        })
      })
      .collect();
    hs.into_iter().map(|h| h.join().unwrap_or_else(|_| tool_error("C05 worker died"))).collect()
  });
  for r in reports {
    rep.merge(r);
  }
  rep.add("seeds", all_seeds.len() as u64);
  rep.add("mutation_operators", cases.len() as u64);
  let _ = w;
}
