//! C11: JOSE header policy against spec/JoseHeaderPolicy.tla — the complete decision table at every encoder and decoder
//! entry point.
use crate::util::*;
use identity_jose::jwk::Jwk;
use identity_jose::jwk::JwkParamsOkp;
use identity_jose::jws::CompactJwsEncoder;
use identity_jose::jws::CompactJwsEncodingOptions;
use identity_jose::jws::Decoder;
use identity_jose::jws::FlattenedJwsEncoder;
use identity_jose::jws::GeneralJwsEncoder;
use identity_jose::jws::JwsHeader;
use identity_jose::jws::JwsVerifier;
use identity_jose::jws::Recipient;
use identity_jose::jws::SignatureVerificationError;
use identity_jose::jws::VerificationInput;
use identity_jose::jws::CharSet;
use identity_jose::jwu::encode_b64;
use serde_json::json;
use serde_json::Value;

pub struct AcceptAll;
impl JwsVerifier for AcceptAll {
  fn verify(&self, _input: VerificationInput, _public_key: &Jwk) -> Result<(), SignatureVerificationError> {
    Ok(())
  }
}

pub fn any_key() -> Jwk {
  let mut p = JwkParamsOkp::new();
  p.crv = "Ed25519".into();
  p.x = encode_b64([7u8; 32]);
  Jwk::from_params(p)
}

/// JSON object of an abstract header (None when the header is absent)
pub fn header_json(h: &Value) -> Option<Value> {
  header_json_with(h, "none")
}

/// `shared`: a registered parameter put into this header as well (the row puts it into both)
pub fn header_json_with(h: &Value, shared: &str) -> Option<Value> {
  if !b(&h["present"]) {
    return None;
  }
  let mut o = serde_json::Map::new();
  match shared {
    "none" => {}
    "nonce" => {
      o.insert("nonce".into(), json!("nonce-1"));
    }
    "url" => {
      o.insert("url".into(), json!("https://example.com/acme/new-order"));
    }
    "typ" => {
      o.insert("typ".into(), json!("JWT"));
    }
    "cty" => {
      o.insert("cty".into(), json!("text/plain"));
    }
    "x5t#S256" => {
      o.insert("x5t#S256".into(), json!("dGh1bWJwcmludA"));
    }
    "jku" => {
      o.insert("jku".into(), json!("https://example.com/jwks.json"));
    }
    o2 => tool_error(&format!("bad shared name {o2}")),
  }
  if b(&h["alg"]) {
    o.insert("alg".into(), json!("EdDSA"));
  }
  match s(&h["b64"]) {
    "true" => {
      o.insert("b64".into(), json!(true));
    }
    "false" => {
      o.insert("b64".into(), json!(false));
    }
    _ => {}
  }
  let crit = arr(&h["crit"]);
  if !(crit.len() == 1 && s(&crit[0]) == "absent") {
    o.insert("crit".into(), Value::Array(crit.clone()));
  }
  if b(&h["kid"]) {
    o.insert("kid".into(), json!("did:example:123#key-1"));
  }
  if b(&h["xc"]) {
    o.insert("x-c".into(), json!("custom value"));
  }
  if h.get("xa").and_then(|v| v.as_bool()).unwrap_or(false) {
    o.insert("a-trace".into(), json!("another custom value"));
  }
  if b(&h["exp"]) {
    o.insert("exp".into(), json!(1_700_000_000));
  }
  Some(Value::Object(o))
}

fn to_header(j: &Option<Value>) -> Result<Option<JwsHeader>, String> {
  match j {
    None => Ok(None),
    Some(v) => serde_json::from_value::<JwsHeader>(v.clone()).map(Some).map_err(|e| format!("header not constructible: {e}")),
  }
}

const RAW: &[u8] = b"hello world";

fn payload_for(b64: bool) -> String {
  if b64 {
    encode_b64(RAW)
  } else {
    String::from_utf8(RAW.to_vec()).unwrap()
  }
}

fn valid_other_recipient(b64: bool) -> JwsHeader {
  let mut h = JwsHeader::new();
  h.set_alg(identity_jose::jws::JwsAlgorithm::EdDSA);
  if !b64 {
    h.set_b64(false);
    h.set_crit(["b64"]);
  }
  h
}

/// (entry point, accepted?) pairs observed on the real code, with what the table expects
fn run_row(case: &Value) -> Result<Vec<(String, bool, bool)>, String> {
  let row = &case["row"];
  let out = &case["out"];
  let accept = b(&out["accept"]);
  let verify_ok = b(&out["verify"]);
  let eff_b64 = b(&out["b64"]);
  let shared = row.get("shared").and_then(|v| v.as_str()).unwrap_or("none");
  let pj = header_json_with(&row["p"], shared);
  let uj = header_json_with(&row["u"], shared);
  let mut obs: Vec<(String, bool, bool)> = Vec::new();
  let sig = [1u8; 64];

  // ---------------- encoders (need typed headers) ----------------
  let ph = to_header(&pj)?;
  let uh = to_header(&uj)?;
  if let (Some(p), None) = (&ph, &uh) {
    let r = CompactJwsEncoder::new_with_options(RAW, p, CompactJwsEncodingOptions::NonDetached { charset_requirements: CharSet::Default });
    obs.push(("CompactJwsEncoder::new_with_options".into(), r.is_ok(), accept));
    let r = CompactJwsEncoder::new_with_options(RAW, p, CompactJwsEncodingOptions::Detached);
    obs.push(("CompactJwsEncoder::new_with_options(detached)".into(), r.is_ok(), accept));
  }
  let recipient = Recipient { protected: ph.as_ref(), unprotected: uh.as_ref() };
  obs.push(("FlattenedJwsEncoder::new".into(), FlattenedJwsEncoder::new(RAW, recipient, false).is_ok(), accept));
  obs.push(("GeneralJwsEncoder::new".into(), GeneralJwsEncoder::new(RAW, recipient, false).is_ok(), accept));
  // R9: recipients of one general token agree on b64
  for first_b64 in [true, false] {
    let first = valid_other_recipient(first_b64);
    let enc = GeneralJwsEncoder::new(RAW, Recipient::new().protected(&first), false).map_err(|e| format!("reference recipient refused: {e}"))?;
    let enc = enc.set_signature(&sig);
    let r = enc.add_recipient(recipient);
    obs.push((
      format!("GeneralJwsEncoder::add_recipient(first b64={first_b64})"),
      r.is_ok(),
      accept && eff_b64 == first_b64,
    ));
  }

  // ---------------- decoders (raw crafted tokens) ----------------
  let payload = payload_for(eff_b64);
  let sig_s = encode_b64(sig);
  let prot_s = pj.as_ref().map(|v| encode_b64(serde_json::to_vec(v).unwrap()));
  let dec = Decoder::new();
  let key = any_key();
  let mut check_item = |name: &str, item: Result<identity_jose::jws::JwsValidationItem<'_>, identity_jose::error::Error>| {
    match item {
      Err(_) => obs.push((name.to_string(), false, accept)),
      Ok(it) => {
        obs.push((name.to_string(), true, accept));
        // R10: verification needs an algorithm in the protected header
        let v = it.verify(&AcceptAll, &key);
        obs.push((format!("{name} + verify"), v.is_ok(), verify_ok));
      }
    }
  };
  if let (Some(ps), None) = (&prot_s, &uj) {
    let token = format!("{ps}.{payload}.{sig_s}");
    check_item("Decoder::decode_compact_serialization", dec.decode_compact_serialization(token.as_bytes(), None));
  }
  let mut sig_obj = serde_json::Map::new();
  if let Some(ps) = &prot_s {
    sig_obj.insert("protected".into(), json!(ps));
  }
  if let Some(u) = &uj {
    sig_obj.insert("header".into(), u.clone());
  }
  sig_obj.insert("signature".into(), json!(sig_s));
  let mut flat = sig_obj.clone();
  flat.insert("payload".into(), json!(payload));
  let flat_s = serde_json::to_string(&Value::Object(flat)).unwrap();
  check_item("Decoder::decode_flattened_serialization", dec.decode_flattened_serialization(flat_s.as_bytes(), None));
  // general: the row as the only signature, and as the second signature after a valid one with the same b64
  let other = valid_other_recipient(eff_b64);
  let other_sig = json!({"protected": encode_b64(serde_json::to_vec(&other).unwrap()), "signature": sig_s});
  for (label, sigs, idx) in [
    ("Decoder::decode_general_serialization[1/1]", vec![Value::Object(sig_obj.clone())], 0usize),
    ("Decoder::decode_general_serialization[2/2]", vec![other_sig.clone(), Value::Object(sig_obj.clone())], 1usize),
  ] {
    let g = json!({"payload": payload, "signatures": sigs});
    let g_s = serde_json::to_string(&g).unwrap();
    match dec.decode_general_serialization(g_s.as_bytes(), None) {
      Err(e) => return Err(format!("general envelope refused: {e}")),
      Ok(iter) => {
        let items: Vec<_> = iter.collect();
        if items.len() != idx + 1 {
          return Err("general decoder yielded a wrong number of items".into());
        }
        if idx == 1 && items[0].is_err() {
          return Err("the valid first signature was refused".into());
        }
        let it = items.into_iter().nth(idx).unwrap();
        check_item(label, it);
      }
    }
  }
  Ok(obs)
}

fn replay_chunk(cases: &[Value], rep: &mut Report) {
  for case in cases {
    note_case(&case["row"]);
    rep.eval();
    match guarded(|| run_row(case)) {
      Err(p) => rep.mismatch("header_policy/panic", case, json!("no panic"), json!(p), "panic"),
      Ok(Err(e)) => rep.mismatch("header_policy/harness", case, json!("row executable"), json!(e), ""),
      Ok(Ok(obs)) => {
        for (entry, got, want) in obs {
          rep.count("entry_point_evaluations");
          if got != want {
            let dir = if got { "accepted_violating" } else { "rejected_compliant" };
            rep.mismatch(
              &format!("header_policy/{dir}/{entry}"),
              &json!({"protected": header_json(&case["row"]["p"]), "unprotected": header_json(&case["row"]["u"]), "violations": case["out"]["violations"]}),
              json!({"accepted": want}),
              json!({"accepted": got, "entry_point": entry}),
              "header policy",
            );
          }
        }
      }
    }
    rep.nontrivial(format!("{}", case["row"]));
    if b(&case["out"]["accept"]) {
      rep.sample(json!({"protected": header_json(&case["row"]["p"]), "unprotected": header_json(&case["row"]["u"]), "out": case["out"]}));
    }
  }
}

pub fn replay(cases: &[Value], rep: &mut Report) {
  par_replay(cases, rep, replay_chunk);
}
