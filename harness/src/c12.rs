//! C12: StatusList2021 / StatusList2021Credential against spec/StatusList.tla.
//!
//! The spec's state is a window of N bits. The harness places that window at several byte offsets of real
//! lists of every size class, and after every operation decodes the library's own encoded form back to raw
//! bytes (with flate2 directly) to compare the window *and* check that every byte outside it is still zero.
use crate::util::*;
use flate2::read::GzDecoder;
use flate2::write::GzEncoder;
use flate2::Compression;
use identity_core::common::Timestamp;
use identity_core::common::Url;
use identity_core::convert::Base;
use identity_core::convert::BaseEncoding;
use identity_credential::credential::Credential;
use identity_credential::credential::CredentialBuilder;
use identity_credential::credential::Issuer;
use identity_credential::credential::Status;
use identity_credential::credential::Subject;
use identity_credential::revocation::status_list_2021::CredentialStatus;
use identity_credential::revocation::status_list_2021::StatusList2021;
use identity_credential::revocation::status_list_2021::StatusList2021Credential;
use identity_credential::revocation::status_list_2021::StatusList2021CredentialBuilder;
use identity_credential::revocation::status_list_2021::StatusList2021CredentialError;
use identity_credential::revocation::status_list_2021::StatusList2021Entry;
use identity_credential::revocation::status_list_2021::StatusListError;
use identity_credential::revocation::status_list_2021::StatusPurpose;
use identity_credential::validator::JwtCredentialValidatorUtils;
use identity_credential::validator::JwtValidationError;
use identity_credential::validator::StatusCheck;
use rand::Rng;
use serde_json::json;
use serde_json::Value;
use std::io::Read;
use std::io::Write;

const MIN: usize = 131_072;
const MODES: [&str; 3] = ["Strict", "SkipUnsupported", "SkipAll"];

/// (requested entries, byte offset of the window) — size classes: minimum, rounded-up, 128 KiB, just above, 256 KiB.
fn placements(nbytes: usize) -> Vec<(usize, usize)> {
  let mut v = Vec::new();
  for entries in [MIN, MIN + 1, MIN + 8 * 3 + 5, 1 << 20, (1 << 20) + 9, 1 << 21] {
    let bytes = entries.div_ceil(8);
    for base in [0, 1, bytes / 2, bytes - nbytes] {
      v.push((entries, base));
    }
  }
  v
}

fn my_encode(bytes: &[u8]) -> String {
  let mut enc = GzEncoder::new(vec![], Compression::fast());
  enc.write_all(bytes).unwrap();
  BaseEncoding::encode(&enc.finish().unwrap(), Base::Base64)
}
fn my_decode(s: &str) -> Result<Vec<u8>, String> {
  let raw = BaseEncoding::decode(s, Base::Base64).map_err(|e| e.to_string())?;
  let mut out = vec![];
  GzDecoder::new(&raw[..]).read_to_end(&mut out).map_err(|e| e.to_string())?;
  Ok(out)
}

fn window_bytes(val: u64, nbytes: usize) -> Vec<u8> {
  (0..nbytes).map(|k| ((val >> (8 * (nbytes - 1 - k))) & 0xff) as u8).collect()
}
fn window_val(bytes: &[u8]) -> u64 {
  bytes.iter().fold(0u64, |a, b| (a << 8) | *b as u64)
}

struct Placed {
  entries: usize,
  base: usize,
  nbytes: usize,
}
impl Placed {
  fn total_bytes(&self) -> usize {
    self.entries.div_ceil(8)
  }
  fn raw(&self, val: u64) -> Vec<u8> {
    let mut v = vec![0u8; self.total_bytes()];
    v[self.base..self.base + self.nbytes].copy_from_slice(&window_bytes(val, self.nbytes));
    v
  }
  fn idx(&self, i: usize) -> usize {
    self.base * 8 + i
  }
  /// Splits raw bytes into (window value, number of non-zero bytes outside the window).
  fn split(&self, raw: &[u8]) -> Result<(u64, usize), String> {
    if raw.len() != self.total_bytes() {
      return Err(format!("length changed: {} bytes, expected {}", raw.len(), self.total_bytes()));
    }
    let w = window_val(&raw[self.base..self.base + self.nbytes]);
    let outside = raw
      .iter()
      .enumerate()
      .filter(|(k, b)| (*k < self.base || *k >= self.base + self.nbytes) && **b != 0)
      .count();
    Ok((w, outside))
  }
}

fn purpose(p: &str) -> StatusPurpose {
  match p {
    "revocation" => StatusPurpose::Revocation,
    "suspension" => StatusPurpose::Suspension,
    _ => tool_error("bad purpose"),
  }
}
fn mode(m: &str) -> StatusCheck {
  match m {
    "Strict" => StatusCheck::Strict,
    "SkipUnsupported" => StatusCheck::SkipUnsupported,
    "SkipAll" => StatusCheck::SkipAll,
    _ => tool_error("bad mode"),
  }
}

const LIST_URL: &str = "https://example.com/credentials/status/3";

fn build_list(pl: &Placed, val: u64) -> Result<StatusList2021, String> {
  // through the library's own decoder, from bytes produced independently of the library
  let l = StatusList2021::try_from_encoded_str(&my_encode(&pl.raw(val))).map_err(|e| format!("decode: {e}"))?;
  // and the constructor + set(true) path must give the same list
  let mut m = StatusList2021::new(pl.entries).map_err(|e| format!("new: {e}"))?;
  for i in 0..pl.nbytes * 8 {
    if (val >> (pl.nbytes * 8 - 1 - i)) & 1 == 1 {
      m.set(pl.idx(i), true).map_err(|e| format!("set: {e}"))?;
    }
  }
  if m != l {
    return Err("list built by new()+set(true) differs from the decoded list".into());
  }
  if l.len() != pl.total_bytes() * 8 {
    return Err(format!("len() = {}, expected {}", l.len(), pl.total_bytes() * 8));
  }
  Ok(l)
}

fn build_cred(pl: &Placed, val: u64, p: StatusPurpose) -> Result<StatusList2021Credential, String> {
  let list = build_list(pl, val)?;
  let url = Url::parse(LIST_URL).unwrap();
  StatusList2021CredentialBuilder::new(list)
    .issuer(Issuer::Url(Url::parse("did:example:issuer").unwrap()))
    .purpose(p)
    .subject_id(url)
    .build()
    .map_err(|e| format!("credential build: {e}"))
}

fn cred_raw(c: &StatusList2021Credential) -> Result<Vec<u8>, String> {
  let inner: Credential = c.clone().into_inner();
  let subj = inner.credential_subject.get(0).ok_or("no subject")?;
  let enc = subj
    .properties
    .get("encodedList")
    .and_then(|v| v.as_str())
    .ok_or("no encodedList")?;
  my_decode(enc)
}

fn some_credential(status: Option<Status>) -> Credential {
  let mut b = CredentialBuilder::default()
    .issuer(Url::parse("did:example:issuer").unwrap())
    .type_("TestCredential")
    .issuance_date(Timestamp::from_unix(1_600_000_000).unwrap())
    .subject(Subject::with_id(Url::parse("did:example:subject").unwrap()));
  if let Some(s) = status {
    b = b.status(s);
  }
  b.build().unwrap()
}

fn sl_err(e: &StatusListError) -> &'static str {
  match e {
    StatusListError::IndexOutOfBounds => "oob",
    _ => "other",
  }
}
fn cred_err(e: &StatusList2021CredentialError) -> &'static str {
  match e {
    StatusList2021CredentialError::UnreversibleRevocation => "unreversible",
    StatusList2021CredentialError::StatusListError(e) => sl_err(e),
    _ => "other",
  }
}
fn err(e: &str) -> Value {
  json!({"ok": false, "err": e})
}

enum Obj {
  List(StatusList2021),
  Cred(StatusList2021Credential),
}

fn is_cred_op(name: &str) -> bool {
  name.starts_with("cred_") || name.starts_with("check")
}

/// Applies one abstract op at placement `pl`; returns the spec-shaped result.
fn apply(obj: &mut Obj, pl: &Placed, p: StatusPurpose, op: &Value) -> Value {
  let name = s(&op["name"]);
  let in_idx = |op: &Value| pl.idx(i(&op["i"]) as usize);
  let oor_idx = |op: &Value, len: usize| len.saturating_add(i(&op["d"]) as usize);
  match (name, obj) {
    ("set", Obj::List(l)) => match l.set(in_idx(op), b(&op["v"])) {
      Ok(()) => json!({"ok": true}),
      Err(e) => err(sl_err(&e)),
    },
    ("get", Obj::List(l)) => match l.get(in_idx(op)) {
      Ok(v) => json!({"ok": true, "v": v}),
      Err(e) => err(sl_err(&e)),
    },
    ("set_oor", Obj::List(l)) => {
      let len = l.len();
      match l.set(oor_idx(op, len), b(&op["v"])) {
        Ok(()) => json!({"ok": true}),
        Err(e) => err(sl_err(&e)),
      }
    }
    ("get_oor", Obj::List(l)) => match l.get(oor_idx(op, l.len())) {
      Ok(v) => json!({"ok": true, "v": v}),
      Err(e) => err(sl_err(&e)),
    },
    ("encdec", Obj::List(l)) => {
      let enc = l.clone().into_encoded_str();
      match StatusList2021::try_from_encoded_str(&enc) {
        Ok(back) if &back == l => json!({"ok": true}),
        Ok(_) => err("decoded list differs"),
        Err(e) => err(&format!("own encoding rejected: {e}")),
      }
    }
    ("cred_set", Obj::Cred(c)) | ("cred_set_oor", Obj::Cred(c)) => {
      let len = pl.total_bytes() * 8;
      let idx = if name == "cred_set" { in_idx(op) } else { oor_idx(op, len) };
      let mut target = some_credential(None);
      match c.set_credential_status(&mut target, idx, b(&op["v"])) {
        Ok(entry) => {
          // the entry handed back and the one written into the credential name this list, purpose and index
          let written = target
            .credential_status
            .as_ref()
            .and_then(|st| StatusList2021Entry::try_from(st).ok());
          if written.as_ref() != Some(&entry) || entry.index() != idx || entry.purpose() != p {
            return json!({"ok": true, "diverged": "status entry written to the credential is wrong"});
          }
          json!({"ok": true})
        }
        Err(e) => err(cred_err(&e)),
      }
    }
    ("cred_update", Obj::Cred(c)) => {
      let ws: Vec<(usize, bool)> = arr(&op["ws"])
        .iter()
        .map(|w| (pl.idx(i(&w["i"]) as usize), b(&w["v"])))
        .collect();
      match c.update(|l| {
        for (idx, v) in &ws {
          l.set_entry(*idx, *v)?;
        }
        Ok(())
      }) {
        Ok(()) => json!({"ok": true}),
        Err(e) => err(cred_err(&e)),
      }
    }
    ("cred_entry", Obj::Cred(c)) | ("cred_entry_oor", Obj::Cred(c)) => {
      let len = pl.total_bytes() * 8;
      let idx = if name == "cred_entry" { in_idx(op) } else { oor_idx(op, len) };
      match c.entry(idx) {
        Ok(CredentialStatus::Valid) => json!({"ok": true, "v": "valid"}),
        Ok(CredentialStatus::Revoked) => json!({"ok": true, "v": "revoked"}),
        Ok(CredentialStatus::Suspended) => json!({"ok": true, "v": "suspended"}),
        Err(e) => err(cred_err(&e)),
      }
    }
    ("check", Obj::Cred(c)) | ("check_oor", Obj::Cred(c)) => {
      let len = pl.total_bytes() * 8;
      let idx = if name == "check" { in_idx(op) } else { oor_idx(op, len) };
      let entry = StatusList2021Entry::new(Url::parse(LIST_URL).unwrap(), purpose(s(&op["ep"])), idx, None);
      let credential = some_credential(Some(entry.into()));
      match JwtCredentialValidatorUtils::check_status_with_status_list_2021(&credential, c, mode(s(&op["mode"]))) {
        Ok(()) => json!({"ok": true, "v": "valid"}),
        Err(JwtValidationError::Revoked) => json!({"ok": true, "v": "revoked"}),
        Err(JwtValidationError::Suspended) => json!({"ok": true, "v": "suspended"}),
        // which of the applicable reasons is named, and in which words, is not part of the property
        Err(JwtValidationError::InvalidStatus(_)) => err("invalid_status"),
        Err(e) => err(&format!("unexpected error {e}")),
      }
    }
    (n, _) => tool_error(&format!("op {n} applied to the wrong object")),
  }
}

fn raw_of(obj: &Obj) -> Result<Vec<u8>, String> {
  match obj {
    Obj::List(l) => my_decode(&l.clone().into_encoded_str()),
    Obj::Cred(c) => cred_raw(c),
  }
}

fn replay_chunk(cases: &[Value], rep: &mut Report) {
  for (ci, case) in cases.iter().enumerate() {
    note_case(case);
    let op = &case["op"];
    let name = s(&op["name"]).to_string();
    let nbits = i(&case["n"]) as usize;
    let nbytes = nbits / 8;
    let pre = i(&case["pre"]) as u64;
    let post = i(&case["post"]) as u64;
    let p = purpose(s(&case["p"]));
    let all = placements(nbytes);
    // every case at 3 placements, rotating so that all placements (6 sizes x 4 offsets) are used evenly
    let picks: Vec<usize> = (0..3).map(|k| (ci * 3 + k * 5 + (pre as usize)) % all.len()).collect();
    for pk in picks {
      let (entries, base) = all[pk];
      let pl = Placed { entries, base, nbytes };
      rep.eval();
      let out = guarded(|| {
        let mut obj = if is_cred_op(&name) {
          Obj::Cred(build_cred(&pl, pre, p)?)
        } else {
          Obj::List(build_list(&pl, pre)?)
        };
        let res = apply(&mut obj, &pl, p, op);
        let raw = raw_of(&obj)?;
        let (w, outside) = pl.split(&raw)?;
        Ok::<_, String>((res, w, outside))
      });
      let ctx = json!({"entries": entries, "window_byte_offset": base});
      match out {
        Err(pmsg) => rep.mismatch(&format!("status_list/{name}/panic"), case, json!("no panic"), json!({"panic": pmsg, "placement": ctx}), "panic"),
        Ok(Err(e)) => rep.mismatch(&format!("status_list/{name}/harness"), case, json!("constructible"), json!({"error": e, "placement": ctx}), ""),
        Ok(Ok((res, w, outside))) => {
          if res != case["res"] || w != post {
            rep.mismatch(
              &format!("status_list/{name}"),
              case,
              json!({"res": case["res"], "post": post}),
              json!({"res": res, "post": w, "placement": ctx}),
              "result or window bits differ from the bit-vector model",
            );
          } else if outside != 0 {
            rep.mismatch(
              &format!("status_list/{name}/outside"),
              case,
              json!("all bytes outside the window remain zero"),
              json!({"nonzero_bytes_outside": outside, "placement": ctx}),
              "an operation disturbed entries outside the addressed byte(s)",
            );
          }
        }
      }
    }
    if pre != post || case["res"]["ok"] == json!(false) {
      rep.nontrivial(format!("{}|{}|{}", case["p"], pre, op));
    }
    rep.sample(case.clone());
  }
}

/// The size classes of the table stop at 256 KiB; lists of 1 MiB and more are exercised once per run: every size keeps its
/// length and its entries across the encoded form, also the entries at the far end.
fn large_list_laws(rep: &mut Report) {
  for entries in [1usize << 23, (1 << 23) + 8, 10_000_000, (1 << 24) + 3] {
    let ctx = json!({"law": "large list survives its encoded form", "entries": entries});
    note_case(&ctx);
    rep.eval();
    let r = guarded(|| -> Result<(), String> {
      let mut l = StatusList2021::new(entries).map_err(|e| format!("new: {e}"))?;
      let n = l.len();
      if n < entries {
        return Err(format!("len {n} < requested {entries}"));
      }
      let marks = [0usize, 7, n / 2, (1 << 23) - 1, 1 << 23, n - 9, n - 1];
      for m in marks.iter().filter(|m| **m < n) {
        l.set(*m, true).map_err(|e| format!("set {m}: {e}"))?;
      }
      let enc = l.clone().into_encoded_str();
      let raw = my_decode(&enc)?;
      if raw.len() * 8 != n {
        return Err(format!("encoded form holds {} bits, the list has {n}", raw.len() * 8));
      }
      let back = StatusList2021::try_from_encoded_str(&enc).map_err(|e| format!("decode: {e}"))?;
      if back.len() != n {
        return Err(format!("decoded list has {} entries, the encoded one had {n}", back.len()));
      }
      if back != l {
        return Err("decoded list differs from the encoded one".into());
      }
      for m in marks.iter().filter(|m| **m < n) {
        if back.get(*m) != Ok(true) {
          return Err(format!("entry {m} lost"));
        }
        if *m + 1 < n && !marks.contains(&(*m + 1)) && back.get(*m + 1) != Ok(false) {
          return Err(format!("entry {} set although never written", m + 1));
        }
      }
      Ok(())
    });
    match r {
      Err(p) => rep.mismatch("status_list/large/panic", &ctx, json!("no panic"), json!(p), "panic"),
      Ok(Err(e)) => rep.mismatch("status_list/large", &ctx, json!("identical list"), json!(e), ""),
      Ok(Ok(())) => {}
    }
  }
}

pub fn replay(cases: &[Value], rep: &mut Report) {
  large_list_laws(rep);
  par_replay(cases, rep, replay_chunk);
}

/// Direction V: long random write/read histories on ONE live object (no rebuild between ops).
pub fn record(kind: &str, seed: u64, n: u64, out: &mut TraceOut) {
  let mut r = rng(seed);
  let nbytes = 2usize;
  let all = placements(nbytes);
  let mut left = n;
  while left > 0 {
    let (entries, base) = all[r.gen_range(0..all.len())];
    let pl = Placed { entries, base, nbytes };
    let pstr = if r.gen_bool(0.5) { "revocation" } else { "suspension" };
    let p = purpose(pstr);
    let built = match kind {
      "list" => guarded(|| build_list(&pl, 0).map(Obj::List)),
      _ => guarded(|| build_cred(&pl, 0, p).map(Obj::Cred)),
    };
    let mut obj = match built {
      Ok(Ok(o)) => o,
      Ok(Err(e)) | Err(e) => {
        // a failure of the code under test is data: the trace specification has no step for it
        out.event(json!({"op": {"name": "reset"}, "p": pstr, "res": {"ok": false, "failure": e}, "post": 0, "outside": 0,
          "placement": {"entries": entries, "window_byte_offset": base}}));
        left = left.saturating_sub(50);
        continue;
      }
    };
    out.event(json!({"op": {"name": "reset"}, "p": pstr, "res": {"ok": true}, "post": 0, "outside": 0,
      "placement": {"entries": entries, "window_byte_offset": base}}));
    let seg = left.min(r.gen_range(100..400));
    left -= seg;
    for _ in 0..seg {
      let idx = r.gen_range(0..16);
      let d = [0, 1, 7, 8, 1_000_000][r.gen_range(0..5)];
      let op = if kind == "list" {
        match r.gen_range(0..100) {
          0..=54 => json!({"name": "set", "i": idx, "v": r.gen_bool(0.6)}),
          55..=79 => json!({"name": "get", "i": idx}),
          80..=86 => json!({"name": "set_oor", "d": d, "v": r.gen_bool(0.5)}),
          87..=93 => json!({"name": "get_oor", "d": d}),
          _ => json!({"name": "encdec"}),
        }
      } else {
        match r.gen_range(0..100) {
          0..=39 => json!({"name": "cred_set", "i": idx, "v": r.gen_bool(0.6)}),
          40..=54 => {
            let k = r.gen_range(0..4);
            let ws: Vec<Value> = (0..k).map(|_| json!({"i": r.gen_range(0..16), "v": r.gen_bool(0.6)})).collect();
            json!({"name": "cred_update", "ws": ws})
          }
          55..=69 => json!({"name": "cred_entry", "i": idx}),
          70..=74 => json!({"name": "cred_entry_oor", "d": d}),
          75..=79 => json!({"name": "cred_set_oor", "d": d, "v": r.gen_bool(0.5)}),
          80..=94 => {
            let ep = if r.gen_bool(0.7) { pstr } else { "suspension" };
            let m = MODES[r.gen_range(0..3)];
            json!({"name": "check", "i": idx, "ep": ep, "mode": m})
          }
          _ => {
            let m = MODES[r.gen_range(0..3)];
            json!({"name": "check_oor", "d": d, "ep": pstr, "mode": m})
          }
        }
      };
      let res = guarded(|| apply(&mut obj, &pl, p, &op)).unwrap_or_else(|pm| json!({"panic": pm}));
      let (w, outside) = raw_of(&obj)
        .and_then(|raw| pl.split(&raw))
        .unwrap_or((u64::MAX >> 40, usize::MAX >> 40));
      out.event(json!({"op": op, "p": pstr, "res": res, "post": w, "outside": outside}));
    }
  }
}
