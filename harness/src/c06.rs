//! C06: RevocationBitmap2022 against spec/RevocationBitmap.tla.
//!
//! An abstract member is an index CLASS; the harness owns the concrete u32 indices of each class and, after every
//! operation, checks membership of every concrete index of every class plus boundary neighbours that belong to no class.
use crate::util::*;
use identity_core::common::Object;
use identity_core::common::Timestamp;
use identity_core::common::Url;
use identity_core::convert::Base;
use identity_core::convert::BaseEncoding;
use identity_credential::credential::Credential;
use identity_credential::credential::CredentialBuilder;
use identity_credential::credential::RevocationBitmapStatus;
use identity_credential::credential::Status;
use identity_credential::credential::Subject;
use identity_credential::revocation::RevocationBitmap;
use identity_credential::revocation::RevocationDocumentExt;
use identity_credential::validator::JwtCredentialValidatorUtils;
use identity_credential::validator::JwtValidationError;
use identity_credential::validator::StatusCheck;
use identity_did::DIDUrl;
use identity_did::DID;
use identity_document::document::CoreDocument;
use identity_document::service::Service;
use identity_document::service::ServiceEndpoint;
use identity_iota_core::IotaDID;
use identity_iota_core::IotaDocument;
use once_cell_lite::Lazy;
use rand::Rng;
use serde_json::json;
use serde_json::Value;

mod once_cell_lite {
  pub use std::sync::LazyLock as Lazy;
}

/// Concrete indices of the four classes.
static CLASSES: Lazy<Vec<Vec<u32>>> = Lazy::new(|| {
  let c0 = vec![5u32];
  let c1: Vec<u32> = (1_000u32..101_000).collect(); // dense run of 100 000 crossing the 65 536 container boundary
  let forbidden: Vec<u32> = NEIGHBOURS.to_vec();
  let mut c2 = Vec::with_capacity(3000);
  let mut x: u64 = 0x9e37_79b9_7f4a_7c15;
  while c2.len() < 3000 {
    x = x.wrapping_mul(6364136223846793005).wrapping_add(1442695040888963407);
    let v = 200_000u32 + ((x >> 33) as u32 % 2_000_000_000);
    if !forbidden.contains(&v) && !c2.contains(&v) && !C3.contains(&v) {
      c2.push(v);
    }
  }
  vec![c0, c1, c2, C3.to_vec()]
});
const C3: [u32; 8] = [131_071, 131_072, 196_608, 262_143, 1_048_576, 4_294_967_295, 4_294_967_294, 2_147_483_648];
/// indices that belong to no class: they must never be reported revoked
const NEIGHBOURS: [u32; 14] = [0, 4, 6, 999, 101_000, 65_534 + 200_000, 131_073, 196_607, 196_609, 2_147_483_647, 2_147_483_649, 4_294_967_293, 150_000, 199_999];

fn class(c: &Value) -> &'static [u32] {
  &CLASSES[i(c) as usize]
}
fn classes_of(list: &Value) -> Vec<usize> {
  arr(list).iter().map(|c| i(c) as usize).collect()
}
fn sample_index(c: &Value, k: usize) -> u32 {
  let cl = class(c);
  cl[(k * 7919) % cl.len()]
}

#[derive(Clone, Copy, PartialEq)]
enum Kind {
  Raw,
  Core,
  Iota,
}

enum Obj {
  Raw(RevocationBitmap),
  Core(CoreDocument),
  Iota(Box<IotaDocument>),
}

const FRAG: &str = "revocation";

fn service_id(kind: Kind, iota_id: &IotaDID) -> DIDUrl {
  match kind {
    Kind::Iota => iota_id.to_url().join(format!("#{FRAG}")).unwrap(),
    _ => DIDUrl::parse(format!("did:example:issuer#{FRAG}")).unwrap(),
  }
}

fn iota_did() -> IotaDID {
  IotaDID::parse("did:iota:smr:0xf29dd16310c2100fd1bf568b345fb1cc14d71caa3bd9b5ad735d2bd6d455ca3b").unwrap()
}

fn bitmap_of(members: &[usize]) -> RevocationBitmap {
  let mut bm = RevocationBitmap::new();
  for c in members {
    for ix in &CLASSES[*c] {
      bm.revoke(*ix);
    }
  }
  bm
}

thread_local! {
  /// realisation of the case being run: bit 0 = a decoy bitmap service with the SAME fragment under a foreign DID is listed
  /// first; bit 1 = the service lists another type before RevocationBitmap2022
  static VARIANT: std::cell::Cell<usize> = const { std::cell::Cell::new(0) };
}
fn variant() -> usize {
  VARIANT.with(|v| v.get())
}

/// a service whose bitmap answers differently for every index the harness asks about
fn decoy_service() -> Service {
  let mut bm = RevocationBitmap::new();
  for cl in CLASSES.iter() {
    bm.revoke(cl[0] ^ 1);
    bm.revoke(cl[cl.len() - 1]);
  }
  for n in NEIGHBOURS {
    bm.revoke(n);
  }
  bm.to_service(DIDUrl::parse(format!("did:example:decoy#{FRAG}")).unwrap()).unwrap()
}

fn typed(svc: Service) -> Result<Service, String> {
  if variant() & 2 == 0 {
    return Ok(svc);
  }
  let mut v = serde_json::to_value(&svc).map_err(|e| e.to_string())?;
  v["type"] = json!(["CredentialRegistry", "RevocationBitmap2022"]);
  serde_json::from_value(v).map_err(|e| format!("multi-type service rejected: {e}"))
}

fn build(kind: Kind, members: &[usize]) -> Result<Obj, String> {
  let bm = bitmap_of(members);
  match kind {
    Kind::Raw => Ok(Obj::Raw(bm)),
    Kind::Core => {
      let id = service_id(kind, &iota_did());
      let svc = typed(bm.to_service(id.clone()).map_err(|e| format!("to_service: {e}"))?)?;
      let mut doc = CoreDocument::builder(Object::new())
        .id(id.did().clone())
        .build()
        .map_err(|e| e.to_string())?;
      if variant() & 1 == 1 {
        doc.insert_service(decoy_service()).map_err(|e| e.to_string())?;
      }
      // an unrelated second service must never be touched
      doc
        .insert_service(
          RevocationBitmap::new()
            .to_service(DIDUrl::parse("did:example:issuer#other-bitmap").unwrap())
            .unwrap(),
        )
        .map_err(|e| e.to_string())?;
      doc.insert_service(svc).map_err(|e| e.to_string())?;
      Ok(Obj::Core(doc))
    }
    Kind::Iota => {
      let did = iota_did();
      let id = service_id(kind, &did);
      let svc = typed(bm.to_service(id).map_err(|e| format!("to_service: {e}"))?)?;
      let mut doc = IotaDocument::new_with_id(did);
      if variant() & 1 == 1 {
        doc.insert_service(decoy_service()).map_err(|e| e.to_string())?;
      }
      doc.insert_service(svc).map_err(|e| e.to_string())?;
      Ok(Obj::Iota(Box::new(doc)))
    }
  }
}

fn core_of(obj: &Obj) -> Option<&CoreDocument> {
  match obj {
    Obj::Raw(_) => None,
    Obj::Core(d) => Some(d),
    Obj::Iota(d) => Some(d.core_document()),
  }
}

/// A reader of published services meets damaged ones too. Whatever the library refuses must leave nothing behind: the next
/// well-formed endpoint is read as if the refused ones had never been offered (same thread, same process).
fn offer_damaged_endpoints_first() {
  let good = RevocationBitmap::new();
  let id = DIDUrl::parse("did:example:someone#damaged").unwrap();
  let Ok(svc) = good.to_service(id) else { return };
  let Ok(mut v) = serde_json::to_value(&svc) else { return };
  let Some(text) = v["serviceEndpoint"].as_str().map(|x| x.to_string()) else { return };
  let Some((head, data)) = text.split_once(',') else { return };
  let zlib_of_garbage = "eJxLTEpOSU1LzwAADcwDDQ"; // zlib("abcdefgh"): inflates, but is no roaring bitmap
  for damaged in [
    format!("{head},{}", &data[..data.len() / 2]),                         // truncated zlib stream
    format!("{head},{}", BaseEncoding::encode(b"no zlib stream at all, just bytes", Base::Base64Url)),
    format!("{head},{zlib_of_garbage}"),
    format!("{head},{data}AAAA"),                                          // bytes after the stream
  ] {
    v["serviceEndpoint"] = json!(damaged);
    if let Ok(s) = serde_json::from_value::<Service>(v.clone()) {
      let _ = RevocationBitmap::try_from(&s);
    }
  }
}

/// The bitmap as a third party would read it: from the document's service endpoint.
fn current_bitmap(obj: &Obj, kind: Kind) -> Result<RevocationBitmap, String> {
  match obj {
    Obj::Raw(b) => Ok(b.clone()),
    _ => {
      offer_damaged_endpoints_first();
      let doc = core_of(obj).unwrap();
      let id = service_id(kind, &iota_did());
      doc
        .resolve_revocation_bitmap((&id).into())
        .map_err(|e| format!("resolve_revocation_bitmap: {e}"))
    }
  }
}

/// membership of every concrete index of every class and of the neighbours, against the abstract member set
fn membership_errors(bm: &RevocationBitmap, members: &[usize]) -> Option<String> {
  let mut expected_len = 0u64;
  for (c, cl) in CLASSES.iter().enumerate() {
    let want = members.contains(&c);
    if want {
      expected_len += cl.len() as u64;
    }
    for ix in cl {
      if bm.is_revoked(*ix) != want {
        return Some(format!("index {ix} of class {c}: is_revoked = {}, expected {want}", !want));
      }
    }
  }
  for n in NEIGHBOURS {
    if bm.is_revoked(n) {
      return Some(format!("index {n} belongs to no revoked class but is reported revoked"));
    }
  }
  if bm.len() != expected_len || bm.is_empty() != (expected_len == 0) {
    return Some(format!("len() = {}, expected {expected_len}", bm.len()));
  }
  None
}

fn mode(m: &str) -> StatusCheck {
  match m {
    "Strict" => StatusCheck::Strict,
    "SkipUnsupported" => StatusCheck::SkipUnsupported,
    _ => StatusCheck::SkipAll,
  }
}

fn credential(issuer: &str, status: Option<Status>) -> Credential {
  let mut b = CredentialBuilder::default()
    .issuer(Url::parse(issuer).unwrap())
    .type_("TestCredential")
    .issuance_date(Timestamp::from_unix(1_600_000_000).unwrap())
    .subject(Subject::with_id(Url::parse("did:example:subject").unwrap()));
  if let Some(s) = status {
    b = b.status(s);
  }
  b.build().unwrap()
}

fn apply(obj: &mut Obj, kind: Kind, op: &Value, k: usize) -> Result<Value, String> {
  let id = service_id(kind, &iota_did());
  let name = s(&op["name"]);
  match name {
    "revoke" | "unrevoke" => {
      let mut indices: Vec<u32> = Vec::new();
      for c in classes_of(&op["s"]) {
        indices.extend_from_slice(&CLASSES[c]);
      }
      // query by full id and by fragment alternately
      let frag = format!("#{FRAG}");
      // (a fragment-only query legitimately finds the FIRST service with that fragment: not used next to the decoy)
      let q: String = if k % 2 == 0 || variant() & 1 == 1 { id.to_string() } else { frag };
      match obj {
        Obj::Raw(b) => {
          for ix in &indices {
            let was = b.is_revoked(*ix);
            let changed = if name == "revoke" { b.revoke(*ix) } else { b.unrevoke(*ix) };
            // the flag says whether membership changed
            if changed != (was != (name == "revoke")) {
              return Err(format!("{name}({ix}) returned {changed} with previous membership {was}"));
            }
          }
          Ok(json!({"ok": true}))
        }
        Obj::Core(d) => {
          let r = if name == "revoke" { d.revoke_credentials(q.as_str(), &indices) } else { d.unrevoke_credentials(q.as_str(), &indices) };
          r.map(|_| json!({"ok": true})).map_err(|e| format!("{name}_credentials: {e}"))
        }
        Obj::Iota(d) => {
          let r = if name == "revoke" { d.revoke_credentials(q.as_str(), &indices) } else { d.unrevoke_credentials(q.as_str(), &indices) };
          r.map(|_| json!({"ok": true})).map_err(|e| format!("{name}_credentials: {e}"))
        }
      }
    }
    "encdec" => {
      let bm = current_bitmap(obj, kind)?;
      let svc = bm.to_service(id).map_err(|e| format!("to_service: {e}"))?;
      // through JSON as well: the endpoint is what gets published
      let json = serde_json::to_value(&svc).map_err(|e| e.to_string())?;
      let svc2: Service = serde_json::from_value(json).map_err(|e| format!("service json: {e}"))?;
      offer_damaged_endpoints_first();
      let back = RevocationBitmap::try_from(&svc2).map_err(|e| format!("own endpoint rejected: {e}"))?;
      Ok(json!({"ok": back == bm}))
    }
    "legacy" => {
      // the pre-#1291 form: Base64( Base64Url(zlib(bitmap)) ) — built from the current endpoint text
      let bm = current_bitmap(obj, kind)?;
      let svc = bm.to_service(id.clone()).map_err(|e| format!("to_service: {e}"))?;
      let ServiceEndpoint::One(url) = svc.service_endpoint() else {
        return Err("endpoint is not a single url".into());
      };
      let text = url.as_str();
      let pfx = "data:application/octet-stream;base64,";
      let inner = text.strip_prefix(pfx).ok_or("unexpected endpoint prefix")?;
      let legacy = format!("{pfx}{}", BaseEncoding::encode(inner.as_bytes(), Base::Base64));
      let legacy_svc = Service::builder(Object::new())
        .id(id)
        .type_(RevocationBitmap::TYPE)
        .service_endpoint(Url::parse(legacy).map_err(|e| e.to_string())?)
        .build()
        .map_err(|e| e.to_string())?;
      let back = RevocationBitmap::try_from(&legacy_svc).map_err(|e| format!("legacy endpoint rejected: {e}"))?;
      // install it in the document so that later operations start from a legacy endpoint
      match obj {
        Obj::Raw(_) => {}
        Obj::Core(d) => {
          d.remove_service(legacy_svc.id());
          d.insert_service(legacy_svc).map_err(|e| e.to_string())?;
        }
        Obj::Iota(d) => {
          d.remove_service(legacy_svc.id());
          d.insert_service(legacy_svc).map_err(|e| e.to_string())?;
        }
      }
      Ok(json!({"ok": back == bm}))
    }
    "query" => {
      let bm = current_bitmap(obj, kind)?;
      let cl = class(&op["c"]);
      let first = bm.is_revoked(cl[0]);
      if cl.iter().any(|ix| bm.is_revoked(*ix) != first) {
        return Err("class members disagree".into());
      }
      Ok(json!({"ok": true, "v": first}))
    }
    "check" => {
      let Some(doc) = core_of(obj) else {
        // the raw bitmap has no validator path: answer from the bitmap itself
        let bm = current_bitmap(obj, kind)?;
        let kindstr = s(&op["kind"]);
        let v = if s(&op["mode"]) == "SkipAll" || kindstr == "nostatus" {
          "ok"
        } else if kindstr == "unsupported" {
          if s(&op["mode"]) == "SkipUnsupported" { "ok" } else { "invalid" }
        } else if kindstr == "mismatch" {
          "invalid"
        } else if kindstr == "otherissuer" {
          "issuer"
        } else if kindstr == "noservice" {
          "lookup"
        } else if bm.is_revoked(sample_index(&op["c"], k)) {
          "revoked"
        } else {
          "ok"
        };
        return Ok(json!({"ok": true, "v": v}));
      };
      let index = sample_index(&op["c"], k);
      let issuer = doc.id().to_string();
      let status: Option<Status> = match s(&op["kind"]) {
        "nostatus" => None,
        "ok" | "otherissuer" => Some(RevocationBitmapStatus::new(id.clone(), index).into()),
        "noquery" => {
          let mut o = Object::new();
          o.insert("revocationBitmapIndex".into(), json!(index.to_string()));
          Some(Status::new_with_properties(Url::parse(id.to_string()).unwrap(), RevocationBitmap::TYPE.to_owned(), o))
        }
        "mismatch" => {
          let mut o = Object::new();
          o.insert("revocationBitmapIndex".into(), json!(index.to_string()));
          let mut u = id.clone();
          u.set_query(Some(&format!("index={}", index.wrapping_add(1)))).unwrap();
          Some(Status::new_with_properties(Url::parse(u.to_string()).unwrap(), RevocationBitmap::TYPE.to_owned(), o))
        }
        "noservice" => {
          let mut u = id.clone();
          u.set_fragment(Some("no-such-service")).unwrap();
          Some(RevocationBitmapStatus::new(u, index).into())
        }
        "unsupported" => {
          let mut o = Object::new();
          o.insert("revocationBitmapIndex".into(), json!(index.to_string()));
          Some(Status::new_with_properties(Url::parse(id.to_string()).unwrap(), "SomeOtherStatus2024".to_owned(), o))
        }
        kd => tool_error(&format!("bad check kind {kd}")),
      };
      let cred = if s(&op["kind"]) == "otherissuer" {
        credential("did:example:someone-else", status)
      } else {
        credential(&issuer, status)
      };
      let r = JwtCredentialValidatorUtils::check_status(&cred, std::slice::from_ref(doc), mode(s(&op["mode"])));
      let v = match r {
        Ok(()) => "ok",
        Err(JwtValidationError::Revoked) => "revoked",
        Err(JwtValidationError::InvalidStatus(_)) => "invalid",
        Err(JwtValidationError::ServiceLookupError { .. }) => "lookup",
        Err(JwtValidationError::DocumentMismatch { .. }) => "issuer",
        Err(_) => "other-error",
      };
      Ok(json!({"ok": true, "v": v}))
    }
    n => tool_error(&format!("unknown bitmap op {n}")),
  }
}

fn replay_chunk(cases: &[Value], rep: &mut Report) {
  for (ci, case) in cases.iter().enumerate() {
    note_case(case);
    let op = &case["op"];
    let name = s(&op["name"]).to_string();
    for kind in [Kind::Raw, Kind::Core, Kind::Iota] {
      rep.eval();
      let kname = match kind {
        Kind::Raw => "bitmap",
        Kind::Core => "core_document",
        Kind::Iota => "iota_document",
      };
      let pre = classes_of(&case["pre"]);
      let post = classes_of(&case["post"]);
      VARIANT.with(|v| v.set(ci / 2));
      let out = guarded(|| {
        let mut obj = build(kind, &pre)?;
        let res = apply(&mut obj, kind, op, ci)?;
        let bm = current_bitmap(&obj, kind)?;
        let memb = membership_errors(&bm, &post);
        // the unrelated service of the core document stays an empty bitmap
        if let Obj::Core(d) = &obj {
          let other = d
            .resolve_revocation_bitmap("#other-bitmap".into())
            .map_err(|e| format!("unrelated service broken: {e}"))?;
          if !other.is_empty() {
            return Err("an unrelated bitmap service was modified".into());
          }
        }
        Ok::<_, String>((res, memb))
      });
      let ctx = json!({"case": case, "object": kname, "decoy_service_first": variant() & 1 == 1, "multi_type_service": variant() & 2 == 2});
      match out {
        Err(p) => rep.mismatch(&format!("revocation_bitmap/{name}/panic"), &ctx, json!("no panic"), json!(p), "panic"),
        Ok(Err(e)) => rep.mismatch(&format!("revocation_bitmap/{name}/error"), &ctx, case["res"].clone(), json!(e), "operation failed or broke a law"),
        Ok(Ok((res, memb))) => {
          if res != case["res"] {
            rep.mismatch(&format!("revocation_bitmap/{name}"), &ctx, case["res"].clone(), res, "result differs from the set model");
          }
          if let Some(m) = memb {
            rep.mismatch(&format!("revocation_bitmap/{name}/membership"), &ctx, case["post"].clone(), json!(m), "membership of a concrete index differs from the set model");
          }
        }
      }
    }
    rep.nontrivial(format!("{}|{}", case["pre"], op));
    rep.sample(case.clone());
  }
}

pub fn replay(cases: &[Value], rep: &mut Report) {
  par_replay(cases, rep, replay_chunk);
}

/// Direction V: random batch histories on one live document; the abstract state is a set of plain indices < 2^31.
pub fn record(seed: u64, n: u64, out: &mut TraceOut) {
  let mut r = rng(seed);
  let mut left = n;
  while left > 0 {
    let kind = if r.gen_bool(0.5) { Kind::Core } else { Kind::Iota };
    let mut obj = match guarded(|| build(kind, &[])) {
      Ok(Ok(o)) => o,
      Ok(Err(e)) | Err(e) => {
        // a failure of the code under test is data: the trace specification has no step for it
        out.event(json!({"op": {"name": "reset"}, "res": {"ok": false, "failure": e}, "len": 0}));
        left = left.saturating_sub(20);
        continue;
      }
    };
    let id = service_id(kind, &iota_did());
    out.event(json!({"op": {"name": "reset"}, "res": {"ok": true}, "len": 0}));
    let seg = left.min(r.gen_range(40..120));
    left -= seg;
    // a pool of indices so that revoke/unrevoke/query collide
    let base: u32 = [0u32, 60_000, 65_000, 1_000_000, 2_000_000_000][r.gen_range(0..5)];
    let span: u32 = [50u32, 400, 5_000, 70_000][r.gen_range(0..4)];
    for _ in 0..seg {
      let pick = |r: &mut rand::rngs::StdRng| base + r.gen_range(0..span);
      let op = match r.gen_range(0..100) {
        0..=39 => {
          let k = [0usize, 1, 3, 40, 600][r.gen_range(0..5)];
          let run = r.gen_bool(0.3);
          let start = pick(&mut r);
          let s: Vec<u32> = (0..k).map(|j| if run { start.saturating_add(j as u32) % 2_147_483_647 } else { pick(&mut r) }).collect();
          json!({"name": "revoke", "s": s})
        }
        40..=64 => {
          let k = [0usize, 1, 3, 40, 600][r.gen_range(0..5)];
          let s: Vec<u32> = (0..k).map(|_| pick(&mut r)).collect();
          json!({"name": "unrevoke", "s": s})
        }
        65..=89 => json!({"name": "query", "c": pick(&mut r)}),
        90..=94 => json!({"name": "encdec"}),
        _ => json!({"name": "check", "c": pick(&mut r), "mode": "Strict", "kind": "ok"}),
      };
      let res = guarded(|| -> Result<Value, String> {
        match s(&op["name"]) {
          "revoke" | "unrevoke" => {
            let idx: Vec<u32> = arr(&op["s"]).iter().map(|v| i(v) as u32).collect();
            let q = id.to_string();
            let rr = match (&mut obj, s(&op["name"])) {
              (Obj::Core(d), "revoke") => d.revoke_credentials(q.as_str(), &idx).map_err(|e| e.to_string()),
              (Obj::Core(d), _) => d.unrevoke_credentials(q.as_str(), &idx).map_err(|e| e.to_string()),
              (Obj::Iota(d), "revoke") => d.revoke_credentials(q.as_str(), &idx).map_err(|e| e.to_string()),
              (Obj::Iota(d), _) => d.unrevoke_credentials(q.as_str(), &idx).map_err(|e| e.to_string()),
              _ => unreachable!(),
            };
            rr.map(|_| json!({"ok": true}))
          }
          "query" => {
            let bm = current_bitmap(&obj, kind)?;
            Ok(json!({"ok": true, "v": bm.is_revoked(i(&op["c"]) as u32)}))
          }
          "encdec" => apply(&mut obj, kind, &op, 0),
          "check" => {
            let doc = core_of(&obj).unwrap();
            let st: Status = RevocationBitmapStatus::new(id.clone(), i(&op["c"]) as u32).into();
            let cred = credential(&doc.id().to_string(), Some(st));
            let v = match JwtCredentialValidatorUtils::check_status(&cred, std::slice::from_ref(doc), StatusCheck::Strict) {
              Ok(()) => "ok",
              Err(JwtValidationError::Revoked) => "revoked",
              Err(_) => "error",
            };
            Ok(json!({"ok": true, "v": v}))
          }
          _ => unreachable!(),
        }
      })
      .unwrap_or_else(|p| Err(format!("panic: {p}")))
      .unwrap_or_else(|e| json!({"ok": false, "error": e}));
      let len = current_bitmap(&obj, kind).map(|b| b.len()).unwrap_or(u64::MAX >> 33);
      out.event(json!({"op": op, "res": res, "len": len}));
    }
  }
}
