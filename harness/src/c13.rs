//! C13: Timestamp against spec/Timestamp.tla (decision-table rows evaluated by the spec's calendar oracle).
use crate::util::*;
use identity_core::common::Duration;
use identity_core::common::Timestamp;
use identity_core::convert::FromJson;
use identity_core::convert::ToJson;
use rand::Rng;
use serde_json::json;
use serde_json::Value;

const EPOCH_DAY: i64 = 719_528;

fn unix_of(day: i64, sec: i64) -> i64 {
  (day - EPOCH_DAY) * 86_400 + sec
}
fn day_sec_of(unix: i64) -> (i64, i64) {
  let s = unix + EPOCH_DAY * 86_400;
  (s.div_euclid(86_400), s.rem_euclid(86_400))
}

fn offset_str(off: i64, variant: usize) -> String {
  if off == 10_000 {
    return "Z".into();
  }
  let sign = if off < 0 || (off == 0 && variant % 2 == 1) { '-' } else { '+' };
  let a = off.abs();
  format!("{sign}{:02}:{:02}", a / 60, a % 60)
}

pub fn parse_input(row: &Value, variant: usize) -> String {
  let d = arr(&row["date"]);
  let t = arr(&row["time"]);
  let frac = i(&row["frac"]) as usize;
  let mut st = format!(
    "{:04}-{:02}-{:02}T{:02}:{:02}:{:02}",
    i(&d[0]),
    i(&d[1]),
    i(&d[2]),
    i(&t[0]),
    i(&t[1]),
    i(&t[2])
  );
  if frac > 0 {
    st.push('.');
    // every digit pattern denotes the same truncated instant: all nines (truncation, not rounding), leading zeros then a
    // digit (sub-milli / sub-micro fractions), all zeros, a mixed pattern
    match (variant / 2) % 4 {
      0 => st.push_str(&"9".repeat(frac)),
      1 => {
        st.push_str(&"0".repeat(frac - 1));
        st.push('5');
      }
      2 => st.push_str(&"0".repeat(frac)),
      _ => st.push_str(&"4096381725"[..frac]),
    }
  }
  st.push_str(&offset_str(i(&row["off"]), variant));
  st
}

/// What the real value looks like in the spec's vocabulary, plus every accessor the property names.
fn observe(t: Timestamp) -> Result<Value, String> {
  let unix = t.to_unix();
  let (day, sec) = day_sec_of(unix);
  let text = t.to_rfc3339();
  if text.len() != 20 || !text.ends_with('Z') {
    return Err(format!("to_rfc3339 is not the canonical whole-second UTC form: {text}"));
  }
  let num = |a: usize, b: usize| text[a..b].parse::<i64>().map_err(|_| format!("bad canonical form {text}"));
  let out = json!({"acc": "yes", "day": day, "sec": sec,
    "y": num(0, 4)?, "mo": num(5, 7)?, "d": num(8, 10)?, "h": num(11, 13)?, "mi": num(14, 16)?, "s": num(17, 19)?});
  // formatting agrees across Display / Debug / Into<String>
  if t.to_string() != text || format!("{t:?}") != format!("{text:?}") || String::from(t) != text {
    return Err("Display/Debug/String disagree with to_rfc3339".into());
  }
  // format-then-parse, unix and JSON round trips are identities
  match Timestamp::parse(&text) {
    Ok(b) if b == t => {}
    _ => return Err(format!("parse(to_rfc3339()) != self for {text}")),
  }
  match Timestamp::from_unix(unix) {
    Ok(b) if b == t => {}
    _ => return Err(format!("from_unix(to_unix()) != self for {text}")),
  }
  match t.to_json().ok().and_then(|j| Timestamp::from_json(&j).ok()) {
    Some(b) if b == t => {}
    _ => return Err(format!("JSON round trip != self for {text}")),
  }
  match t.to_json_value().ok().and_then(|j| Timestamp::from_json_value(j).ok()) {
    Some(b) if b == t => {}
    _ => return Err(format!("JSON value round trip != self for {text}")),
  }
  Ok(out)
}

fn duration(du: &Value) -> Duration {
  let n: u32 = if b(&du["max"]) { u32::MAX } else { i(&du["n"]) as u32 };
  match s(&du["unit"]) {
    "seconds" => Duration::seconds(n),
    "minutes" => Duration::minutes(n),
    "hours" => Duration::hours(n),
    "days" => Duration::days(n),
    "weeks" => Duration::weeks(n),
    u => tool_error(&format!("bad unit {u}")),
  }
}

fn inst(v: &Value) -> i64 {
  let a = arr(v);
  unix_of(i(&a[0]), i(&a[1]))
}

/// Executes one row on the real code; returns (outcome in spec vocabulary, auxiliary failure).
pub fn execute(row: &Value, variant: usize) -> Result<Value, String> {
  let no = json!({"acc": "no"});
  match s(&row["kind"]) {
    "parse" => {
      let input = parse_input(row, variant);
      // every textual entry point, judged on its own: it either fails or yields the denoted instant
      let results: Vec<(&str, Option<Timestamp>)> = vec![
        ("parse", Timestamp::parse(&input).ok()),
        ("from_str", input.parse::<Timestamp>().ok()),
        ("try_from", Timestamp::try_from(input.as_str()).ok()),
        ("serde", Timestamp::from_json_value(json!(input)).ok()),
      ];
      let mut first: Option<Value> = None;
      let mut refused: Vec<&str> = Vec::new();
      for (name, r) in &results {
        match r {
          Some(t) => {
            let o = observe(*t)?;
            if let Some(f) = &first {
              if f != &o {
                return Err(format!("entry points yield different values for {input} ({name})"));
              }
            } else {
              first = Some(o);
            }
          }
          None => refused.push(name),
        }
      }
      match first {
        Some(mut o) => {
          if !refused.is_empty() {
            o["refused_by"] = json!(refused);
          }
          Ok(o)
        }
        None => Ok(no),
      }
    }
    "unix" => match Timestamp::from_unix(inst(&row["i"])) {
      Ok(t) => observe(t),
      Err(_) => Ok(no),
    },
    k @ ("add" | "sub") => {
      let t = Timestamp::from_unix(inst(&row["i"])).map_err(|e| format!("base instant rejected: {e}"))?;
      let du = duration(&row["du"]);
      let r = if k == "add" { t.checked_add(du) } else { t.checked_sub(du) };
      // durations that only serde can build (the public constructors take unsigned whole units): the same span as
      // [seconds, 0], its negation, and with half a second more. Whatever comes back is None or a canonical instant.
      if !b(&row["du"]["max"]) {
        let unit: i64 = match s(&row["du"]["unit"]) {
          "seconds" => 1,
          "minutes" => 60,
          "hours" => 3600,
          "days" => 86400,
          _ => 604800,
        };
        if let Some(secs) = i(&row["du"]["n"]).checked_mul(unit) {
          let via = |v: Value| serde_json::from_value::<Duration>(v).ok();
          let apply = |d: Duration, add: bool| if add { t.checked_add(d) } else { t.checked_sub(d) };
          let unix = |x: Option<Timestamp>| x.map(|y| y.to_unix());
          if let Some(d) = via(json!([secs, 0])) {
            if unix(apply(d, k == "add")) != unix(r) {
              return Err(format!("the duration [{secs}, 0] obtained through serde gives {:?}, the constructed one {:?}", unix(apply(d, k == "add")), unix(r)));
            }
          }
          if let Some(d) = via(json!([-secs, 0])) {
            let opposite = apply(d, k != "add");
            if let Some(x) = opposite {
              observe(x).map_err(|e| format!("negative duration: {e}"))?;
            }
            if unix(opposite) != unix(r) {
              return Err(format!("moving by -[{secs}] the other way gives {:?}, not {:?}", unix(opposite), unix(r)));
            }
          }
          if let Some(d) = via(json!([secs, 500_000_000])) {
            if let Some(x) = apply(d, k == "add") {
              observe(x).map_err(|e| format!("fractional duration: {e}"))?;
            }
          }
        }
      }
      match r {
        Some(t2) => observe(t2),
        None => Ok(no),
      }
    }
    "cmp" => {
      let a = Timestamp::from_unix(inst(&row["a"])).map_err(|e| e.to_string())?;
      let bb = Timestamp::from_unix(inst(&row["b"])).map_err(|e| e.to_string())?;
      let v = match a.cmp(&bb) {
        std::cmp::Ordering::Less => "lt",
        std::cmp::Ordering::Equal => "eq",
        std::cmp::Ordering::Greater => "gt",
      };
      if (a == bb) != (v == "eq") || a.partial_cmp(&bb) != Some(a.cmp(&bb)) || (a < bb) != (v == "lt") {
        return Err("Eq/PartialOrd/Ord disagree".into());
      }
      Ok(json!({"acc": "cmp", "v": v}))
    }
    k => tool_error(&format!("bad row kind {k}")),
  }
}

fn conforms(expected: &Value, got: &Value) -> bool {
  let mut got = got.clone();
  if let Some(o) = got.as_object_mut() {
    o.remove("refused_by");
  }
  let got = &got;
  if expected["acc"] == json!("leap") {
    // named deviation LeapSecondStandIn: rejected, or accepted as the preceding second
    return got["acc"] == json!("no") || got == &expected["alt"];
  }
  expected == got
}

fn replay_chunk(cases: &[Value], rep: &mut Report) {
  for case in cases {
    note_case(&case["row"]);
    let row = &case["row"];
    let kind = s(&row["kind"]).to_string();
    // variant = 2 * fraction pattern + spelling of a zero offset
    let variants: Vec<usize> = if kind == "parse" {
      let offs: &[usize] = if i(&row["off"]) == 0 { &[0, 1] } else { &[0] };
      let pats: &[usize] = if i(&row["frac"]) > 0 { &[0, 1, 2, 3] } else { &[0] };
      pats.iter().flat_map(|p| offs.iter().map(move |o| 2 * p + o)).collect()
    } else {
      vec![0]
    };
    for variant in variants {
      rep.eval();
      let out = guarded(|| execute(row, variant));
      let input = if kind == "parse" { json!(parse_input(row, variant)) } else { Value::Null };
      let ctx = json!({"row": row, "input": input});
      match out {
        Err(p) => rep.mismatch(&format!("timestamp/{kind}/panic"), &ctx, case["out"].clone(), json!({"panic": p}), "panic"),
        Ok(Err(e)) => rep.mismatch(&format!("timestamp/{kind}/law"), &ctx, case["out"].clone(), json!(e), "round trip / agreement law"),
        Ok(Ok(got)) => {
          if !conforms(&case["out"], &got) {
            // "either fails or yields the instant it denotes": refusing a valid string is allowed by the property
            let one_sided = kind == "parse" && case["out"]["acc"] == json!("yes") && got["acc"] == json!("no");
            let key = if one_sided { format!("timestamp/~{kind}_refused_valid") } else { format!("timestamp/{kind}") };
            rep.mismatch(&key, &ctx, case["out"].clone(), got, "outcome differs from the calendar oracle");
          } else if got.get("refused_by").is_some() {
            rep.mismatch(&format!("timestamp/~{kind}_entry_points_disagree"), &ctx, case["out"].clone(), got, "some entry points refuse a string others accept");
          }
        }
      }
    }
    rep.nontrivial(format!("{}", row));
    rep.sample(case.clone());
  }
}

pub fn replay(cases: &[Value], rep: &mut Report) {
  par_replay(cases, rep, replay_chunk);
}

/// Direction V: uniformly random rows executed on the real code, outcome logged in the spec's vocabulary.
pub fn record(seed: u64, n: u64, out: &mut TraceOut) {
  let mut r = rng(seed);
  for _ in 0..n {
    let row = match r.gen_range(0..100) {
      0..=49 => {
        let y = if r.gen_bool(0.2) { [0, 1, 9998, 9999][r.gen_range(0..4)] } else { r.gen_range(0..10_000) };
        let off = if r.gen_bool(0.15) { 10_000 } else { r.gen_range(-1439..=1439) };
        let sec = if r.gen_bool(0.03) { 60 } else { r.gen_range(0..60) };
        json!({"kind": "parse", "date": [y, r.gen_range(1..=12), r.gen_range(1..=31)],
               "time": [r.gen_range(0..24), r.gen_range(0..60), sec], "off": off, "frac": r.gen_range(0..10)})
      }
      50..=64 => {
        let day = if r.gen_bool(0.2) { [-2, -1, 0, 3_652_424, 3_652_425][r.gen_range(0..5)] } else { r.gen_range(0..3_652_425) };
        json!({"kind": "unix", "i": [day, r.gen_range(0..86_400)]})
      }
      65..=89 => {
        let day = if r.gen_bool(0.3) { [0, 1, 3_652_423, 3_652_424][r.gen_range(0..4)] } else { r.gen_range(0..3_652_425) };
        let unit = ["seconds", "minutes", "hours", "days", "weeks"][r.gen_range(0..5)];
        let nn: i64 = match r.gen_range(0..4) {
          0 => r.gen_range(0..100),
          1 => r.gen_range(0..100_000),
          2 => r.gen_range(0..4_000_000),
          _ => r.gen_range(0..2_147_483_647),
        };
        let kind = if r.gen_bool(0.5) { "add" } else { "sub" };
        json!({"kind": kind, "i": [day, r.gen_range(0..86_400)], "du": {"unit": unit, "n": nn, "max": r.gen_bool(0.05)}})
      }
      _ => {
        let d1 = r.gen_range(0..3_652_425);
        let d2 = if r.gen_bool(0.5) { d1 } else { r.gen_range(0..3_652_425) };
        let s1 = r.gen_range(0..86_400);
        let s2 = if r.gen_bool(0.3) { s1 } else { r.gen_range(0..86_400) };
        json!({"kind": "cmp", "a": [d1, s1], "b": [d2, s2]})
      }
    };
    let got = match guarded(|| execute(&row, 0)) {
      Err(p) => json!({"acc": "panic", "msg": p}),
      Ok(Err(e)) => json!({"acc": "law-broken", "msg": e}),
      Ok(Ok(mut v)) => {
        if let Some(o) = v.as_object_mut() {
          o.remove("refused_by"); // entry points judged one by one; the trace carries the instant
        }
        v
      }
    };
    out.event(json!({"row": row, "out": got}));
  }
}
