//! C07: Credential / Presentation <-> JWT claims against spec/JwtClaims.tla.
use crate::c02::did;
use crate::c02::pub_jwk;
use crate::c11::AcceptAll;
use crate::util::*;
use identity_core::common::Object;
use identity_core::common::Timestamp;
use identity_core::common::Url;
use identity_credential::credential::Credential;
use identity_credential::credential::CredentialBuilder;
use identity_credential::credential::Evidence;
use identity_credential::credential::Issuer;
use identity_credential::credential::Jwt;
use identity_credential::credential::Policy;
use identity_credential::credential::Proof;
use identity_credential::credential::RefreshService;
use identity_credential::credential::Schema;
use identity_credential::credential::Status;
use identity_credential::credential::Subject;
use identity_credential::presentation::JwtPresentationOptions;
use identity_credential::presentation::Presentation;
use identity_credential::presentation::PresentationBuilder;
use identity_credential::validator::JwtCredentialValidator;
use identity_credential::validator::JwtPresentationValidationOptions;
use identity_credential::validator::JwtPresentationValidator;
use identity_document::document::CoreDocument;
use identity_document::verifiable::JwsVerificationOptions;
use identity_jose::jwu::encode_b64;
use identity_verification::MethodScope;
use identity_verification::VerificationMethod;
use serde_json::json;
use serde_json::Value;

const T0: i64 = 1_600_000_000;
const T1: i64 = 1_600_000_777;
const E0: i64 = 1_900_000_000;
const E1: i64 = 1_900_000_555;
const OUT_OF_RANGE: i64 = 400_000_000_000;

fn doc(name: &str) -> CoreDocument {
  let sk = crypto::signatures::ed25519::SecretKey::from_bytes(&[0x51u8; 32]);
  let mut d = CoreDocument::builder(Object::new()).id(did(name)).build().unwrap();
  d.insert_method(VerificationMethod::new_from_jwk(did(name), pub_jwk(&sk), Some("key-1")).unwrap(), MethodScope::VerificationMethod)
    .unwrap();
  d
}

/// a compact JWS around `claims` that an accept-all verifier passes
fn jws_of(claims: &str, kid: &str) -> Jwt {
  let header = json!({"alg": "EdDSA", "kid": kid, "typ": "JWT"});
  Jwt::new(format!("{}.{}.{}", encode_b64(serde_json::to_vec(&header).unwrap()), encode_b64(claims.as_bytes()), encode_b64([0u8; 64])))
}

fn obj(k: &str, v: Value) -> Object {
  let mut o = Object::new();
  o.insert(k.into(), v);
  o
}
fn url(u: &str) -> Url {
  Url::parse(u).unwrap()
}
fn ts(t: i64) -> String {
  Timestamp::from_unix(t).unwrap().to_rfc3339()
}

fn build_credential(c: &Value) -> Result<(Credential, Option<Object>), String> {
  let issuer = match s(&c["issuer"]) {
    "url" => Issuer::Url(url("did:example:issuer")),
    _ => serde_json::from_value::<Issuer>(json!({"id": "did:example:issuer", "name": "Example University"})).unwrap(),
  };
  let subject = match (s(&c["subj_id"]), s(&c["subj_props"])) {
    ("none", "none") => return Err("no subject".into()),
    ("none", _) => Subject::with_properties(obj("degree", json!({"type": "BachelorDegree"}))),
    (_, "none") => Subject::with_id(url("did:example:subject")),
    _ => Subject::with_id_and_properties(url("did:example:subject"), obj("degree", json!({"type": "BachelorDegree"}))),
  };
  let mut b2 = CredentialBuilder::default()
    .issuer(issuer)
    .type_("UniversityDegreeCredential")
    .issuance_date(Timestamp::from_unix(T0).unwrap())
    .subject(subject);
  if s(&c["id"]) != "none" {
    b2 = b2.id(url("https://example.edu/credentials/3732"));
  }
  if s(&c["exp"]) != "none" {
    b2 = b2.expiration_date(Timestamp::from_unix(E0).unwrap());
  }
  if s(&c["status"]) != "none" {
    b2 = b2.status(Status::new_with_properties(url("https://example.edu/status/24"), "CredentialStatusList2017".into(), obj("n", json!(1))));
  }
  for k in 0..s(&c["schema"]).parse::<usize>().unwrap() {
    b2 = b2.schema(Schema::new(url(&format!("https://example.org/schemas/{k}.json")), "JsonSchemaValidator2018".to_string()));
  }
  if s(&c["evidence"]) != "none" {
    b2 = b2.evidence(Evidence::with_id_and_properties::<String, String, ()>("DocumentVerification".to_string(), "https://example.edu/evidence/1".to_string(), obj("verifier", json!("https://example.edu/issuers/14"))));
  }
  if s(&c["terms"]) != "none" {
    b2 = b2.terms_of_use(Policy::with_id_and_properties("IssuerPolicy".to_string(), url("https://example.com/policies/credential/4"), obj("profile", json!("https://example.com/profiles/credential"))));
  }
  if s(&c["refresh"]) != "none" {
    b2 = b2.refresh_service(RefreshService::with_properties(url("https://example.edu/refresh/3732"), "ManualRefreshService2018".to_string(), obj("a", json!([1, 2]))));
  }
  if s(&c["proof"]) != "none" {
    b2 = b2.proof(Proof::new("RsaSignature2018".into(), obj("jws", json!("abc"))));
  }
  match s(&c["non_transferable"]) {
    "true" => b2 = b2.non_transferable(true),
    "false" => b2 = b2.non_transferable(false),
    _ => {}
  }
  if s(&c["props"]) != "none" {
    b2 = b2.property("extraProperty", json!({"nested": [true, null, 1.5]}));
  }
  let custom = if s(&c["custom"]) != "none" { Some(obj("custom_claim", json!({"k": "v"}))) } else { None };
  b2.build().map(|cr| (cr, custom)).map_err(|e| e.to_string())
}

fn fwd_cred(case: &Value, issuer_doc: &CoreDocument) -> Vec<(String, Value, Value)> {
  let c = &case["row"]["c"];
  let mut diffs = Vec::new();
  let (cred, custom) = match build_credential(c) {
    Ok(x) => x,
    Err(e) => {
      diffs.push(("not_buildable".into(), json!("credential builds"), json!(e)));
      return diffs;
    }
  };
  let text = match cred.serialize_jwt(custom.clone()) {
    Ok(t) => t,
    Err(e) => {
      diffs.push(("serialize_jwt".into(), json!("serialises"), json!(e.to_string())));
      return diffs;
    }
  };
  let v: Value = serde_json::from_str(&text).unwrap();
  // each duplicated value is carried once, in the registered claim
  let present = |name: &str| v.get(name).is_some();
  let once = present("iss")
    && present("nbf")
    && present("jti") == (s(&c["id"]) != "none")
    && present("exp") == (s(&c["exp"]) != "none")
    && present("sub") == (s(&c["subj_id"]) != "none")
    && v["vc"].get("issuer").is_none()
    && v["vc"].get("id").is_none()
    && v["vc"].get("issuanceDate").is_none()
    && v["vc"].get("expirationDate").is_none()
    && v["vc"]["credentialSubject"].get("id").is_none()
    && v["nbf"] == json!(T0)
    && (s(&c["exp"]) == "none" || v["exp"] == json!(E0));
  if !once {
    diffs.push(("carried_once".into(), json!("iss/sub/jti/nbf/exp carry the values once"), v.clone()));
  }
  // and back
  let validator = JwtCredentialValidator::with_signature_verifier(AcceptAll);
  match validator.verify_signature::<_, Object>(&jws_of(&text, "did:example:issuer#key-1"), &[issuer_doc], &JwsVerificationOptions::new()) {
    Err(e) => diffs.push(("round_trip_rejected".into(), json!("claims convert back"), json!(e.to_string()))),
    Ok(d) => {
      if d.credential != cred {
        diffs.push(("round_trip_differs".into(), serde_json::to_value(&cred).unwrap(), serde_json::to_value(&d.credential).unwrap()));
      }
      // "no custom claims" comes back as an empty map
      if d.custom_claims.clone().filter(|m| !m.is_empty()) != custom {
        diffs.push(("custom_claims".into(), json!(custom), json!(d.custom_claims)));
      }
    }
  }
  diffs
}

fn back(case: &Value, issuer_doc: &CoreDocument) -> Vec<(String, Value, Value)> {
  let r = &case["row"];
  let mut diffs = Vec::new();
  let mut claims = json!({
    "iss": "did:example:issuer",
    "vc": {"@context": "https://www.w3.org/2018/credentials/v1", "type": ["VerifiableCredential", "UniversityDegreeCredential"],
           "credentialSubject": {"degree": {"type": "BachelorDegree"}}}
  });
  let iss_obj = r.get("iss_form").and_then(|v| v.as_str()) == Some("obj");
  if iss_obj {
    claims["iss"] = json!({"id": "did:example:issuer", "name": "Example University"});
  }
  let o = claims.as_object_mut().unwrap();
  let pick = |tag: &str, v: Value, w: Value| if tag == "v" { Some(v) } else if tag == "w" { Some(w) } else { None };
  // registered claims
  if s(&r["id"]["reg"]) == "v" {
    o.insert("jti".into(), json!("https://example.edu/credentials/1"));
  }
  match s(&r["exp"]["reg"]) {
    "v" => {
      o.insert("exp".into(), json!(E0));
    }
    "out_of_range" => {
      o.insert("exp".into(), json!(OUT_OF_RANGE));
    }
    _ => {}
  }
  if s(&r["sub"]["reg"]) == "v" {
    o.insert("sub".into(), json!("did:example:subject"));
  }
  match s(&r["issuance"]["nbf"]) {
    "v" => {
      o.insert("nbf".into(), json!(T0));
    }
    "out_of_range" => {
      o.insert("nbf".into(), json!(OUT_OF_RANGE));
    }
    _ => {}
  }
  if let Some(x) = pick(s(&r["issuance"]["iat"]), json!(T0), json!(T1)) {
    o.insert("iat".into(), x);
  }
  // inner copies
  let vc = claims["vc"].as_object_mut().unwrap();
  let same = if iss_obj { json!({"id": "did:example:issuer", "name": "Example University"}) } else { json!("did:example:issuer") };
  let other_id = if iss_obj { json!({"id": "did:example:mallory", "name": "Example University"}) } else { json!("did:example:mallory") };
  let inner_issuer = match s(&r["issuer_inner"]) {
    "v" => Some(same),
    "w" => Some(other_id),
    // the same id, but not the same value
    "same_id_other_form" => Some(if iss_obj { json!("did:example:issuer") } else { json!({"id": "did:example:issuer", "name": "Example University"}) }),
    "same_id_other_name" => Some(json!({"id": "did:example:issuer", "name": "A Different University"})),
    _ => None,
  };
  if let Some(x) = inner_issuer {
    vc.insert("issuer".into(), x);
  }
  if let Some(x) = pick(s(&r["id"]["inner"]), json!("https://example.edu/credentials/1"), json!("https://example.edu/credentials/2")) {
    vc.insert("id".into(), x);
  }
  if let Some(x) = pick(s(&r["exp"]["inner"]), json!(ts(E0)), json!(ts(E1))) {
    vc.insert("expirationDate".into(), x);
  }
  if let Some(x) = pick(s(&r["sub"]["inner"]), json!("did:example:subject"), json!("did:example:someone-else")) {
    vc["credentialSubject"]["id"] = x;
  }
  if let Some(x) = pick(s(&r["issuance"]["inner"]), json!(ts(T0)), json!(ts(T1))) {
    vc.insert("issuanceDate".into(), x);
  }
  let text = serde_json::to_string(&claims).unwrap();
  let validator = JwtCredentialValidator::with_signature_verifier(AcceptAll);
  let res = validator.verify_signature::<_, Object>(&jws_of(&text, "did:example:issuer#key-1"), &[issuer_doc], &JwsVerificationOptions::new());
  let accept = b(&case["out"]["accept"]);
  match (res, accept) {
    (Err(_), false) => {}
    (Err(e), true) => diffs.push(("~consistent_claims_rejected".into(), json!("accepted"), json!({"error": e.to_string(), "claims": claims}))),
    (Ok(d), false) => diffs.push(("inconsistent_claims_accepted".into(), json!("rejected"), json!({"claims": claims, "credential": serde_json::to_value(&d.credential).unwrap()}))),
    (Ok(d), true) => {
      let want_iss = if s(&case["out"]["issuance"]) == "w" { T1 } else { T0 };
      let c = &d.credential;
      let ok = c.issuance_date.to_unix() == want_iss
        && c.id.as_ref().map(|u| u.to_string()) == if s(&r["id"]["reg"]) == "v" { Some("https://example.edu/credentials/1".to_string()) } else { None }
        && c.expiration_date.map(|t| t.to_unix()) == if s(&r["exp"]["reg"]) == "v" { Some(E0) } else { None }
        && c.credential_subject.get(0).and_then(|sb| sb.id.as_ref()).map(|u| u.to_string()) == if s(&r["sub"]["reg"]) == "v" { Some("did:example:subject".to_string()) } else { None }
        && c.issuer.url().as_str() == "did:example:issuer";
      if !ok {
        diffs.push(("registered_values_not_used".into(), claims.clone(), serde_json::to_value(c).unwrap()));
      }
    }
  }
  diffs
}

fn fwd_pres(case: &Value, holder_doc: &CoreDocument) -> Vec<(String, Value, Value)> {
  let p = &case["row"]["p"];
  let mut diffs = Vec::new();
  let props = if s(&p["props"]) != "none" { obj("extraProperty", json!([1, "two"])) } else { Object::new() };
  let mut b2: PresentationBuilder<Jwt, Object> = PresentationBuilder::new(url("did:example:holder"), props);
  if s(&p["id"]) != "none" {
    b2 = b2.id(url("https://example.org/presentations/7"));
  }
  for k in 0..s(&p["creds"]).parse::<usize>().unwrap() {
    b2 = b2.credential(Jwt::new(format!("eyJhbGciOiJFZERTQSJ9.e30.c2ln{k}")));
  }
  if s(&p["refresh"]) != "none" {
    b2 = b2.refresh_service(RefreshService::new(url("https://example.edu/refresh/1"), "ManualRefreshService2018".to_string()));
  }
  if s(&p["terms"]) != "none" {
    b2 = b2.terms_of_use(Policy::new("HolderPolicy".to_string()));
  }
  let mut pres: Presentation<Jwt, Object> = match b2.build() {
    Ok(x) => x,
    Err(e) => {
      diffs.push(("not_buildable".into(), json!("presentation builds"), json!(e.to_string())));
      return diffs;
    }
  };
  if s(&p["proof"]) != "none" {
    pres.set_proof(Some(Proof::new("Ed25519Signature2018".into(), obj("jws", json!("xyz")))));
  }
  let mut o = JwtPresentationOptions::default();
  if s(&p["exp"]) != "none" {
    o = o.expiration_date(Timestamp::from_unix(E0).unwrap());
  }
  // the default options stamp the current time; time must not leak into the check
  o.issuance_date = if s(&p["issuance"]) != "none" { Some(Timestamp::from_unix(T0).unwrap()) } else { None };
  if s(&p["aud"]) != "none" {
    o = o.audience(url("https://verifier.example.org/"));
  }
  let custom = if s(&p["custom"]) != "none" { Some(obj("custom_claim", json!(42))) } else { None };
  if let Some(c) = &custom {
    o.custom_claims = Some(c.clone());
  }
  let text = match pres.serialize_jwt(&o) {
    Ok(t) => t,
    Err(e) => {
      diffs.push(("serialize_jwt".into(), json!("serialises"), json!(e.to_string())));
      return diffs;
    }
  };
  let v: Value = serde_json::from_str(&text).unwrap();
  let present = |name: &str| v.get(name).is_some();
  let once = v["iss"] == json!("did:example:holder")
    && present("jti") == (s(&p["id"]) != "none")
    && present("exp") == (s(&p["exp"]) != "none")
    && present("nbf") == (s(&p["issuance"]) != "none")
    && present("aud") == (s(&p["aud"]) != "none")
    && v["vp"].get("holder").is_none()
    && v["vp"].get("id").is_none();
  if !once {
    diffs.push(("carried_once".into(), json!("iss/jti/exp/nbf/aud carry the values once"), v.clone()));
  }
  let validator = JwtPresentationValidator::with_signature_verifier(AcceptAll);
  let vo = JwtPresentationValidationOptions::new()
    .earliest_expiry_date(Timestamp::from_unix(T0).unwrap())
    .latest_issuance_date(Timestamp::from_unix(E1).unwrap());
  match validator.validate::<_, Jwt, Object>(&jws_of(&text, "did:example:holder#key-1"), holder_doc, &vo) {
    Err(e) => diffs.push(("round_trip_rejected".into(), json!("claims convert back"), json!(e.to_string()))),
    Ok(d) => {
      if d.presentation != pres {
        diffs.push(("round_trip_differs".into(), serde_json::to_value(&pres).unwrap(), serde_json::to_value(&d.presentation).unwrap()));
      }
      let ok = d.expiration_date.map(|t| t.to_unix()) == if s(&p["exp"]) != "none" { Some(E0) } else { None }
        && d.issuance_date.map(|t| t.to_unix()) == if s(&p["issuance"]) != "none" { Some(T0) } else { None }
        && d.aud.is_some() == (s(&p["aud"]) != "none")
        && d.custom_claims.clone().filter(|m| !m.is_empty()) == custom;
      if !ok {
        diffs.push(("options_round_trip".into(), json!("exp / issuance / aud / custom as given"), json!({"exp": d.expiration_date.map(|t| t.to_unix()), "iss": d.issuance_date.map(|t| t.to_unix()), "custom": d.custom_claims})));
      }
    }
  }
  diffs
}

fn replay_chunk(cases: &[Value], rep: &mut Report) {
  let issuer_doc = doc("issuer");
  let holder_doc = doc("holder");
  for case in cases {
    note_case(&case["row"]);
    rep.eval();
    let kind = s(&case["row"]["kind"]).to_string();
    let r = guarded(|| match kind.as_str() {
      "fwd_cred" => fwd_cred(case, &issuer_doc),
      "back" => back(case, &issuer_doc),
      _ => fwd_pres(case, &holder_doc),
    });
    match r {
      Err(p) => rep.mismatch(&format!("jwt_claims/{kind}/panic"), case, json!("no panic"), json!(p), "panic"),
      Ok(diffs) => {
        for (k, exp, obs) in diffs {
          rep.mismatch(&format!("jwt_claims/{kind}/{k}"), &case["row"], exp, obs, "");
        }
      }
    }
    rep.nontrivial(format!("{}", case["row"]));
    rep.sample(case.clone());
  }
}

pub fn replay(cases: &[Value], rep: &mut Report) {
  par_replay(cases, rep, replay_chunk);
}
