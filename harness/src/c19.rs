//! C19: OrderedSet / OneOrSet / OneOrMany against spec/OrderedSet.tla, OneOrSet.tla, OneOrMany.tla.
use crate::util::*;
use identity_core::common::KeyComparable;
use identity_core::common::OneOrMany;
use identity_core::common::OneOrSet;
use identity_core::common::OrderedSet;
use rand::Rng;
use serde::Deserialize;
use serde::Serialize;
use serde_json::json;
use serde_json::Value;

/// Element whose comparison key is a projection (k) of the value (k, v).
#[derive(Clone, Debug, PartialEq, Eq, Serialize, Deserialize)]
pub struct El {
  pub k: String,
  pub v: i64,
}
impl KeyComparable for El {
  type Key = str;
  fn key(&self) -> &str {
    &self.k
  }
}

fn el(v: &Value) -> El {
  El {
    k: s(&v["k"]).to_string(),
    v: i(&v["v"]),
  }
}
fn els(v: &Value) -> Vec<El> {
  arr(v).iter().map(el).collect()
}
fn elj(e: &El) -> Value {
  json!({"k": e.k, "v": e.v})
}
fn elsj(es: &[El]) -> Value {
  Value::Array(es.iter().map(elj).collect())
}
/// key-only query value (the `U: KeyComparable<Key = T::Key>` argument of replace/remove/contains)
struct K(String);
impl KeyComparable for K {
  type Key = str;
  fn key(&self) -> &str {
    &self.0
  }
}

// ---------------------------------------------------------------------------------------------
// OrderedSet
// ---------------------------------------------------------------------------------------------

/// Builds the concrete set holding exactly the abstract list `pre` (through the checked constructor).
fn os_build(pre: &Value) -> Result<OrderedSet<El>, String> {
  OrderedSet::try_from(els(pre)).map_err(|e| format!("pre-state rejected: {e}"))
}

/// Applies one abstract op to the real OrderedSet; returns the result as the spec encodes it.
pub fn os_apply(set: &mut OrderedSet<El>, op: &Value) -> Value {
  match s(&op["name"]) {
    "append" => json!({"ok": set.append(el(&op["e"]))}),
    "prepend" => json!({"ok": set.prepend(el(&op["e"]))}),
    "update" => json!({"ok": set.update(el(&op["e"]))}),
    "replace" => json!({"ok": set.replace(&K(s(&op["cur"]).to_string()), el(&op["e"]))}),
    "remove" => match set.remove(&K(s(&op["key"]).to_string())) {
      Some(e) => json!({"tag": "some", "e": elj(&e)}),
      None => json!({"tag": "none"}),
    },
    "contains" => json!({"ok": set.contains(&K(s(&op["key"]).to_string()))}),
    "try_from_vec" => {
      let list = els(&op["list"]);
      let a = OrderedSet::try_from(list.clone());
      // the serde path is declared as try_from = "Vec<T>"; it must agree
      let b: Result<OrderedSet<El>, _> = serde_json::from_value(elsj(&list));
      match (a, b) {
        (Ok(x), Ok(y)) => {
          if x != y {
            return json!({"ok": true, "diverged": "try_from and serde disagree"});
          }
          *set = x;
          json!({"ok": true})
        }
        (Err(_), Err(_)) => json!({"ok": false}),
        (a, b) => json!({"ok": a.is_ok(), "diverged": format!("try_from ok={} serde ok={}", a.is_ok(), b.is_ok())}),
      }
    }
    "collect" => {
      // the collecting constructor must not depend on what the iterator says about its length: exact (Vec), upper
      // bound only (filter), no upper bound (flat_map, from_fn), a lying hint
      let a: OrderedSet<El> = els(&op["list"]).into_iter().collect();
      let b: OrderedSet<El> = els(&op["list"]).into_iter().filter(|_| true).collect();
      let c: OrderedSet<El> = els(&op["list"]).into_iter().flat_map(|e| std::iter::once(e)).collect();
      let mut it = els(&op["list"]).into_iter();
      let d: OrderedSet<El> = std::iter::from_fn(move || it.next()).collect();
      let e: OrderedSet<El> = LyingIter(els(&op["list"]).into_iter()).collect();
      if a != b || a != c || a != d || a != e {
        return json!({"ok": true, "diverged": "collect depends on the iterator's size hint"});
      }
      let n = els(&op["list"]).len();
      for (lo, hi) in legal_hints(n) {
        let h: OrderedSet<El> = HintIter(els(&op["list"]).into_iter(), lo, hi).collect();
        if h != a {
          return json!({"ok": true, "diverged": format!("collect depends on the size hint ({lo}, {hi:?})")});
        }
      }
      *set = a;
      json!({"ok": true})
    }
    other => tool_error(&format!("unknown OrderedSet op {other}")),
  }
}

fn os_project(set: &OrderedSet<El>) -> Value {
  elsj(set.as_slice())
}

/// Observations the property makes on *every* state, independent of the spec's prediction.
fn os_state_checks(set: &OrderedSet<El>) -> Option<String> {
  let sl = set.as_slice();
  for (a, x) in sl.iter().enumerate() {
    for y in sl.iter().skip(a + 1) {
      if x.k == y.k {
        return Some(format!("duplicate key {} in {:?}", x.k, sl));
      }
    }
  }
  if set.len() != sl.len() || set.is_empty() != sl.is_empty() {
    return Some("len/is_empty disagree with as_slice".into());
  }
  if set.head() != sl.first() || set.tail() != sl.last() {
    return Some("head/tail disagree with as_slice".into());
  }
  if set.iter().cloned().collect::<Vec<_>>() != sl.to_vec() {
    return Some("iter disagrees with as_slice".into());
  }
  // serde round trip of a key-unique set is the identity
  match serde_json::to_value(set).and_then(serde_json::from_value::<OrderedSet<El>>) {
    Ok(back) if &back == set => {}
    Ok(_) => return Some("serde round trip changed the set".into()),
    Err(e) => return Some(format!("serde round trip failed: {e}")),
  }
  None
}

pub fn replay_ordered_set(cases: &[Value], rep: &mut Report) {
  for case in cases {
    note_case(case);
    rep.eval();
    let op = &case["op"];
    let name = s(&op["name"]).to_string();
    let out = guarded(|| {
      let mut set = os_build(&case["pre"])?;
      let res = os_apply(&mut set, op);
      let chk = os_state_checks(&set);
      Ok::<_, String>((res, os_project(&set), chk))
    });
    match out {
      Err(p) => rep.mismatch(&format!("ordered_set/{name}/panic"), case, json!("no panic"), json!(p), "panic"),
      Ok(Err(e)) => rep.mismatch(&format!("ordered_set/{name}/build"), case, json!("constructible"), json!(e), ""),
      Ok(Ok((res, post, chk))) => {
        if res != case["res"] || post != case["post"] {
          rep.mismatch(
            &format!("ordered_set/{name}"),
            case,
            json!({"res": case["res"], "post": case["post"]}),
            json!({"res": res, "post": post}),
            "result flag or resulting order differs from the abstract list model",
          );
        }
        if let Some(c) = chk {
          rep.mismatch(&format!("ordered_set/{name}/state"), case, json!("state laws"), json!(c), "");
        }
        if case["pre"] != case["post"] || res.get("ok") == Some(&json!(false)) {
          rep.nontrivial(format!("os:{}", serde_json::to_string(case).unwrap()));
        }
        rep.sample(case.clone());
      }
    }
  }
}

fn rand_el(r: &mut impl Rng, keys: &[&str], nv: i64) -> Value {
  json!({"k": keys[r.gen_range(0..keys.len())], "v": r.gen_range(0..nv)})
}
fn rand_list(r: &mut impl Rng, keys: &[&str], nv: i64, max: usize) -> Value {
  let n = r.gen_range(0..=max);
  Value::Array((0..n).map(|_| rand_el(r, keys, nv)).collect())
}

/// Direction V: long random histories on one live object; every call logged at its return.
pub fn record_ordered_set(seed: u64, n: u64, out: &mut TraceOut) {
  let keys = ["a", "b", "c", "d", "e", "f"];
  let mut r = rng(seed);
  let mut set: OrderedSet<El> = OrderedSet::new();
  out.event(json!({"op": {"name": "reset"}, "res": {"ok": true}, "post": []}));
  for _ in 0..n {
    let op = match r.gen_range(0..100) {
      0..=19 => json!({"name": "append", "e": rand_el(&mut r, &keys, 3)}),
      20..=34 => json!({"name": "prepend", "e": rand_el(&mut r, &keys, 3)}),
      35..=49 => json!({"name": "update", "e": rand_el(&mut r, &keys, 3)}),
      50..=69 => json!({"name": "replace", "cur": keys[r.gen_range(0..keys.len())], "e": rand_el(&mut r, &keys, 3)}),
      70..=84 => json!({"name": "remove", "key": keys[r.gen_range(0..keys.len())]}),
      85..=91 => json!({"name": "contains", "key": keys[r.gen_range(0..keys.len())]}),
      92..=95 => json!({"name": "try_from_vec", "list": rand_list(&mut r, &keys, 3, 5)}),
      _ => json!({"name": "collect", "list": rand_list(&mut r, &keys, 3, 7)}),
    };
    let res = guarded(|| os_apply(&mut set, &op)).unwrap_or_else(|p| json!({"panic": p}));
    out.event(json!({"op": op, "res": res, "post": os_project(&set)}));
  }
}

// ---------------------------------------------------------------------------------------------
// OneOrSet
// ---------------------------------------------------------------------------------------------

/// Abstract view: [tag: "one" | "set", items: list]. The tag is observable through the JSON shape.
fn oos_project(x: &OneOrSet<El>) -> Value {
  let j = serde_json::to_value(x).unwrap();
  let tag = if j.is_array() { "set" } else { "one" };
  json!({"tag": tag, "items": elsj(x.as_slice())})
}

fn oos_build(st: &Value) -> Result<OneOrSet<El>, String> {
  let items = els(&st["items"]);
  match s(&st["tag"]) {
    "one" => Ok(OneOrSet::new_one(items[0].clone())),
    // a Set of one element is only reachable through deserialisation
    "set" => serde_json::from_value(elsj(&items)).map_err(|e| format!("pre-state rejected: {e}")),
    t => tool_error(&format!("bad tag {t}")),
  }
}

/// f in the spec is a key renaming given as an object {from: to}; "fail" means the closure errs.
fn apply_f(f: &Value, e: El) -> Result<El, String> {
  match f.get(&e.k) {
    Some(Value::String(t)) if t == "fail" => Err("f failed".into()),
    Some(Value::String(t)) => Ok(El { k: t.clone(), v: e.v }),
    _ => Ok(e),
  }
}

/// Returns (res, Some(new value)) — constructors replace the value, queries keep it.
fn oos_apply(cur: &mut Option<OneOrSet<El>>, op: &Value) -> Value {
  let ok = |x: OneOrSet<El>, cur: &mut Option<OneOrSet<El>>| {
    *cur = Some(x);
    json!({"ok": true})
  };
  match s(&op["name"]) {
    "new_one" => ok(OneOrSet::new_one(el(&op["e"])), cur),
    "from" => ok(OneOrSet::from(el(&op["e"])), cur),
    "try_from_vec" => match OneOrSet::try_from(els(&op["list"])) {
      Ok(x) => ok(x, cur),
      Err(_) => json!({"ok": false}),
    },
    "new_set" => {
      // new_set takes an OrderedSet; duplicates are impossible there, so the list is collected first
      let set: OrderedSet<El> = els(&op["list"]).into_iter().flat_map(|e| std::iter::once(e)).collect();
      let exact: OrderedSet<El> = els(&op["list"]).into_iter().collect();
      if set != exact {
        return json!({"ok": true, "diverged": "collect depends on the iterator's size hint"});
      }
      match OneOrSet::new_set(set.clone()) {
        Ok(x) => {
          // TryFrom<OrderedSet> must agree
          if OneOrSet::try_from(set).ok().as_ref() != Some(&x) {
            return json!({"ok": true, "diverged": "new_set vs TryFrom<OrderedSet>"});
          }
          ok(x, cur)
        }
        Err(_) => json!({"ok": false}),
      }
    }
    "de" => match serde_json::from_value::<OneOrSet<El>>(op["json"].clone()) {
      Ok(x) => ok(x, cur),
      Err(_) => json!({"ok": false}),
    },
    "append" => {
      let x = cur.as_mut().expect("append on no value");
      json!({"ok": x.append(el(&op["e"]))})
    }
    "contains" => {
      let x = cur.as_ref().expect("contains on no value");
      json!({"ok": x.contains(&K(s(&op["key"]).to_string()))})
    }
    "map" => {
      let x = cur.take().expect("map on no value");
      let f = op["f"].clone();
      ok(x.map(|e| apply_f(&f, e).expect("map with total f")), cur)
    }
    "try_map" => {
      let x = cur.clone().expect("try_map on no value");
      let f = op["f"].clone();
      match x.try_map(|e| apply_f(&f, e)) {
        Ok(y) => ok(y, cur),
        Err(_) => json!({"ok": false}),
      }
    }
    "serde" => {
      let x = cur.as_ref().expect("serde on no value");
      let j = serde_json::to_value(x).unwrap();
      match serde_json::from_value::<OneOrSet<El>>(j) {
        Ok(y) => json!({"ok": &y == x}),
        Err(_) => json!({"ok": false}),
      }
    }
    other => tool_error(&format!("unknown OneOrSet op {other}")),
  }
}

fn oos_state_checks(x: &OneOrSet<El>) -> Option<String> {
  let sl = x.as_slice();
  if sl.is_empty() {
    return Some("empty OneOrSet".into());
  }
  for (a, p) in sl.iter().enumerate() {
    for q in sl.iter().skip(a + 1) {
      if p.k == q.k {
        return Some(format!("duplicate key {}", p.k));
      }
    }
  }
  if x.len() != sl.len() || x.iter().count() != sl.len() || x.get(0) != sl.first() || x.get(sl.len()).is_some() {
    return Some("len/iter/get disagree with as_slice".into());
  }
  if x.clone().into_vec() != sl.to_vec() || OrderedSet::from(x.clone()).as_slice() != sl {
    return Some("into_vec / Into<OrderedSet> disagree with as_slice".into());
  }
  None
}

const NOVALUE: &str = "novalue";

fn oos_proj_opt(cur: &Option<OneOrSet<El>>) -> Value {
  match cur {
    Some(x) => oos_project(x),
    None => json!({"tag": NOVALUE, "items": []}),
  }
}

pub fn replay_one_or_set(cases: &[Value], rep: &mut Report) {
  for case in cases {
    note_case(case);
    rep.eval();
    let op = &case["op"];
    let name = s(&op["name"]).to_string();
    let out = guarded(|| {
      let mut cur = if s(&case["pre"]["tag"]) == NOVALUE {
        None
      } else {
        Some(oos_build(&case["pre"])?)
      };
      let res = oos_apply(&mut cur, op);
      let chk = cur.as_ref().and_then(oos_state_checks);
      Ok::<_, String>((res, oos_proj_opt(&cur), chk))
    });
    match out {
      Err(p) => rep.mismatch(&format!("one_or_set/{name}/panic"), case, json!("no panic"), json!(p), "panic"),
      Ok(Err(e)) => rep.mismatch(&format!("one_or_set/{name}/build"), case, json!("constructible"), json!(e), ""),
      Ok(Ok((res, post, chk))) => {
        if res != case["res"] || post != case["post"] {
          rep.mismatch(
            &format!("one_or_set/{name}"),
            case,
            json!({"res": case["res"], "post": case["post"]}),
            json!({"res": res, "post": post}),
            "",
          );
        }
        if let Some(c) = chk {
          rep.mismatch(&format!("one_or_set/{name}/state"), case, json!("state laws"), json!(c), "");
        }
        rep.nontrivial(format!("oos:{}", serde_json::to_string(case).unwrap()));
        rep.sample(case.clone());
      }
    }
  }
}

pub fn record_one_or_set(seed: u64, n: u64, out: &mut TraceOut) {
  let keys = ["a", "b", "c", "d"];
  let mut r = rng(seed ^ 0x5e7);
  let mut cur: Option<OneOrSet<El>> = None;
  out.event(json!({"op": {"name": "reset"}, "res": {"ok": true}, "post": oos_proj_opt(&cur)}));
  for _ in 0..n {
    let have = cur.is_some();
    let pick = r.gen_range(0..100);
    let op = if !have || pick < 12 {
      match r.gen_range(0..5) {
        0 => json!({"name": "new_one", "e": rand_el(&mut r, &keys, 2)}),
        1 => json!({"name": "try_from_vec", "list": rand_list(&mut r, &keys, 2, 4)}),
        2 => json!({"name": "new_set", "list": rand_list(&mut r, &keys, 2, 4)}),
        3 => {
          // arbitrary JSON: bare element or array (possibly empty / with duplicates)
          if r.gen_bool(0.3) {
            json!({"name": "de", "shape": "bare", "json": rand_el(&mut r, &keys, 2)})
          } else {
            json!({"name": "de", "shape": "array", "json": rand_list(&mut r, &keys, 2, 3)})
          }
        }
        _ => json!({"name": "from", "e": rand_el(&mut r, &keys, 2)}),
      }
    } else if pick < 55 {
      json!({"name": "append", "e": rand_el(&mut r, &keys, 2)})
    } else if pick < 65 {
      json!({"name": "contains", "key": keys[r.gen_range(0..keys.len())]})
    } else if pick < 80 {
      let mut f = serde_json::Map::new();
      for k in keys {
        let to = if r.gen_bool(0.4) { keys[r.gen_range(0..keys.len())] } else { k };
        f.insert(k.to_string(), json!(to));
      }
      json!({"name": "map", "f": f})
    } else if pick < 90 {
      let mut f = serde_json::Map::new();
      for k in keys {
        match r.gen_range(0..5) {
          0 => {
            f.insert(k.to_string(), json!("fail"));
          }
          1 | 2 => {
            f.insert(k.to_string(), json!(keys[r.gen_range(0..keys.len())]));
          }
          _ => {
            f.insert(k.to_string(), json!(k));
          }
        }
      }
      json!({"name": "try_map", "f": f})
    } else {
      json!({"name": "serde"})
    };
    let res = guarded(|| oos_apply(&mut cur, &op)).unwrap_or_else(|p| json!({"panic": p}));
    out.event(json!({"op": op, "res": res, "post": oos_proj_opt(&cur)}));
  }
}

// ---------------------------------------------------------------------------------------------
// OneOrMany
// ---------------------------------------------------------------------------------------------

fn oom_project(x: &OneOrMany<El>) -> Value {
  let tag = match x {
    OneOrMany::One(_) => "one",
    OneOrMany::Many(_) => "many",
  };
  json!({"tag": tag, "items": elsj(x.as_slice())})
}

fn oom_build(st: &Value) -> OneOrMany<El> {
  let items = els(&st["items"]);
  match s(&st["tag"]) {
    "one" => OneOrMany::One(items[0].clone()),
    "many" => OneOrMany::Many(items),
    t => tool_error(&format!("bad tag {t}")),
  }
}

fn oom_apply(cur: &mut OneOrMany<El>, op: &Value) -> Value {
  match s(&op["name"]) {
    "default" => {
      *cur = OneOrMany::default();
      json!({"ok": true})
    }
    "from" => {
      *cur = OneOrMany::from(el(&op["e"]));
      json!({"ok": true})
    }
    "from_vec" => {
      *cur = OneOrMany::from(els(&op["list"]));
      json!({"ok": true})
    }
    "collect" => {
      // exact size hint (Vec iterator) and unknown upper bound (filter) paths
      let a: OneOrMany<El> = els(&op["list"]).into_iter().collect();
      let b: OneOrMany<El> = els(&op["list"]).into_iter().filter(|_| true).collect();
      // a lying size hint: claims at most one element
      let c: OneOrMany<El> = LyingIter(els(&op["list"]).into_iter()).collect();
      if a != b || a != c {
        return json!({"ok": true, "diverged": "collect depends on the size hint"});
      }
      let n = els(&op["list"]).len();
      for (lo, hi) in legal_hints(n) {
        let h: OneOrMany<El> = HintIter(els(&op["list"]).into_iter(), lo, hi).collect();
        // One(x) and Many([x]) are different values (and serialise differently): compare the variants, not the slices
        if h != a || serde_json::to_value(&h).ok() != serde_json::to_value(&a).ok() {
          return json!({"ok": true, "diverged": format!("collect depends on the size hint ({lo}, {hi:?})")});
        }
      }
      *cur = a;
      json!({"ok": true})
    }
    "push" => {
      cur.push(el(&op["e"]));
      json!({"ok": true})
    }
    "contains" => json!({"ok": cur.contains(&el(&op["e"]))}),
    "de" => match serde_json::from_value::<OneOrMany<El>>(op["json"].clone()) {
      Ok(x) => {
        *cur = x;
        json!({"ok": true})
      }
      Err(_) => json!({"ok": false}),
    },
    "serde" => {
      let j = serde_json::to_value(&*cur).unwrap();
      match serde_json::from_value::<OneOrMany<El>>(j) {
        Ok(y) => json!({"ok": &y == cur}),
        Err(_) => json!({"ok": false}),
      }
    }
    other => tool_error(&format!("unknown OneOrMany op {other}")),
  }
}

/// An iterator that reports a chosen (legal) size hint: lower bound <= what it yields <= upper bound.
struct HintIter<I>(I, usize, Option<usize>);
impl<I: Iterator> Iterator for HintIter<I> {
  type Item = I::Item;
  fn next(&mut self) -> Option<I::Item> {
    self.0.next()
  }
  fn size_hint(&self) -> (usize, Option<usize>) {
    (self.1, self.2)
  }
}
/// every legal hint shape for a sequence of n elements: lower in {0, 1, n}, upper in {none, n, n+1, n+3}
fn legal_hints(n: usize) -> Vec<(usize, Option<usize>)> {
  let mut out = Vec::new();
  for lo in [0usize, 1, n] {
    if lo > n {
      continue;
    }
    for hi in [None, Some(n), Some(n + 1), Some(n + 3)] {
      if !out.contains(&(lo, hi)) {
        out.push((lo, hi));
      }
    }
  }
  out
}

struct LyingIter<I>(I);
impl<I: Iterator> Iterator for LyingIter<I> {
  type Item = I::Item;
  fn next(&mut self) -> Option<I::Item> {
    self.0.next()
  }
  fn size_hint(&self) -> (usize, Option<usize>) {
    (0, Some(1))
  }
}

fn oom_state_checks(x: &OneOrMany<El>) -> Option<String> {
  let sl = x.as_slice();
  if x.len() != sl.len() || x.is_empty() != sl.is_empty() || x.iter().count() != sl.len() {
    return Some("len/is_empty/iter disagree with as_slice".into());
  }
  if x.get(0) != sl.first() || x.get(sl.len()).is_some() {
    return Some("get disagrees with as_slice".into());
  }
  if x.clone().into_vec() != sl.to_vec() || x.clone().into_iter().collect::<Vec<_>>() != sl.to_vec() {
    return Some("into_vec/into_iter disagree with as_slice".into());
  }
  None
}

pub fn replay_one_or_many(cases: &[Value], rep: &mut Report) {
  for case in cases {
    note_case(case);
    rep.eval();
    let op = &case["op"];
    let name = s(&op["name"]).to_string();
    let out = guarded(|| {
      let mut cur = oom_build(&case["pre"]);
      let res = oom_apply(&mut cur, op);
      let chk = oom_state_checks(&cur);
      (res, oom_project(&cur), chk)
    });
    match out {
      Err(p) => rep.mismatch(&format!("one_or_many/{name}/panic"), case, json!("no panic"), json!(p), "panic"),
      Ok((res, post, chk)) => {
        if res != case["res"] || post != case["post"] {
          rep.mismatch(
            &format!("one_or_many/{name}"),
            case,
            json!({"res": case["res"], "post": case["post"]}),
            json!({"res": res, "post": post}),
            "",
          );
        }
        if let Some(c) = chk {
          rep.mismatch(&format!("one_or_many/{name}/state"), case, json!("state laws"), json!(c), "");
        }
        rep.nontrivial(format!("oom:{}", serde_json::to_string(case).unwrap()));
        rep.sample(case.clone());
      }
    }
  }
}

pub fn record_one_or_many(seed: u64, n: u64, out: &mut TraceOut) {
  let keys = ["a", "b", "c"];
  let mut r = rng(seed ^ 0x0a11);
  let mut cur: OneOrMany<El> = OneOrMany::default();
  out.event(json!({"op": {"name": "reset"}, "res": {"ok": true}, "post": oom_project(&cur)}));
  for _ in 0..n {
    let op = match r.gen_range(0..100) {
      0..=3 => json!({"name": "default"}),
      4..=9 => json!({"name": "from", "e": rand_el(&mut r, &keys, 2)}),
      10..=17 => json!({"name": "from_vec", "list": rand_list(&mut r, &keys, 2, 3)}),
      18..=27 => json!({"name": "collect", "list": rand_list(&mut r, &keys, 2, 3)}),
      28..=69 => json!({"name": "push", "e": rand_el(&mut r, &keys, 2)}),
      70..=79 => json!({"name": "contains", "e": rand_el(&mut r, &keys, 2)}),
      80..=89 => {
        if r.gen_bool(0.3) {
          json!({"name": "de", "shape": "bare", "json": rand_el(&mut r, &keys, 2)})
        } else {
          json!({"name": "de", "shape": "array", "json": rand_list(&mut r, &keys, 2, 3)})
        }
      }
      _ => json!({"name": "serde"}),
    };
    let res = guarded(|| oom_apply(&mut cur, &op)).unwrap_or_else(|p| json!({"panic": p}));
    out.event(json!({"op": op, "res": res, "post": oom_project(&cur)}));
    // keep traces inside the trace spec's small universe
    if cur.len() > 6 {
      cur = OneOrMany::default();
      out.event(json!({"op": {"name": "default"}, "res": {"ok": true}, "post": oom_project(&cur)}));
    }
  }
}

pub fn replay(cases: &[Value], rep: &mut Report) {
  par_replay(cases, rep, |chunk, r| {
    for c in chunk {
      let one = std::slice::from_ref(c);
      match c.get("m").and_then(|m| m.as_str()) {
        Some("oos") => {
          replay_one_or_set(one, r);
          r.add("one_or_set_cases", 1);
        }
        Some("oom") => {
          replay_one_or_many(one, r);
          r.add("one_or_many_cases", 1);
        }
        _ => {
          replay_ordered_set(one, r);
          r.add("ordered_set_cases", 1);
        }
      }
    }
  });
}
