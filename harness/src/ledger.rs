//! Beyond the list: the ledger life of an IOTA DID document (IotaIdentityClientExt over a mock ledger) against
//! spec/IotaLedger.tla.
use crate::util::*;
use futures::executor::block_on;
use identity_core::convert::ToJson;
use identity_did::DID;
use identity_iota_core::block::address::Address;
use identity_iota_core::block::address::Ed25519Address;
use identity_iota_core::block::address::ToBech32Ext;
use identity_iota_core::block::output::AliasId;
use identity_iota_core::block::output::AliasOutput;
use identity_iota_core::block::output::OutputId;
use identity_iota_core::block::output::RentStructure;
use identity_iota_core::block::protocol::ProtocolParameters;
use identity_iota_core::Error as IotaError;
use identity_iota_core::IotaDID;
use identity_iota_core::IotaDocument;
use identity_iota_core::IotaIdentityClient;
use identity_iota_core::IotaIdentityClientExt;
use identity_iota_core::NetworkName;
use identity_verification::jose::jwk::Jwk;
use identity_verification::jose::jwk::JwkParamsOkp;
use identity_verification::jose::jwu::encode_b64;
use identity_verification::MethodScope;
use identity_verification::VerificationMethod;
use iota_sdk::types::block::payload::transaction::TransactionId;
use serde_json::json;
use serde_json::Value;
use std::cell::RefCell;
use std::collections::BTreeMap;

/// A ledger that stores alias outputs and hands out alias ids; the library only ever reads from it.
struct MockLedger {
  outputs: RefCell<BTreeMap<AliasId, (OutputId, AliasOutput)>>,
  published: RefCell<u8>,
  params: ProtocolParameters,
}

#[async_trait::async_trait(?Send)]
impl IotaIdentityClient for MockLedger {
  async fn get_alias_output(&self, alias_id: AliasId) -> identity_iota_core::Result<(OutputId, AliasOutput)> {
    self
      .outputs
      .borrow()
      .get(&alias_id)
      .cloned()
      .ok_or_else(|| IotaError::OutputIdConversionError("the mock ledger has no such alias output".into()))
  }
  async fn get_protocol_parameters(&self) -> identity_iota_core::Result<ProtocolParameters> {
    Ok(self.params.clone())
  }
}

impl MockLedger {
  fn new() -> Self {
    MockLedger { outputs: RefCell::new(BTreeMap::new()), published: RefCell::new(0), params: ProtocolParameters::default() }
  }
  /// publication of a NEW alias output: the ledger derives the alias id from the output id
  fn publish_new(&self, output: AliasOutput) -> AliasId {
    let n = {
      let mut p = self.published.borrow_mut();
      *p += 1;
      *p
    };
    let oid = OutputId::new(TransactionId::new([n; 32]), 0).unwrap();
    let id = AliasId::from(&oid);
    self.outputs.borrow_mut().insert(id, (oid, output));
    id
  }
  /// publication of a transition of an existing alias
  fn publish_update(&self, id: AliasId, output: AliasOutput) {
    let n = {
      let mut p = self.published.borrow_mut();
      *p += 1;
      *p
    };
    let oid = OutputId::new(TransactionId::new([n.wrapping_add(100); 32]), 0).unwrap();
    self.outputs.borrow_mut().insert(id, (oid, output));
  }
}

fn address() -> Address {
  Address::Ed25519(Ed25519Address::new([7u8; 32]))
}
/// the output is controlled by another alias
fn alias_address() -> Address {
  Address::Alias(identity_iota_core::block::address::AliasAddress::new(AliasId::new([0xC7; 32])))
}
fn address_of(ctrl: &str) -> Address {
  if ctrl == "alias" {
    alias_address()
  } else {
    address()
  }
}

fn method_jwk(k: usize) -> Jwk {
  let mut p = JwkParamsOkp::new();
  p.crv = "Ed25519".into();
  p.x = encode_b64([k as u8 + 1; 32]);
  Jwk::from_params(p)
}

/// brings `doc` to version v: exactly the methods key-1..key-v
fn set_version(doc: &mut IotaDocument, v: usize) {
  for k in 1..=4usize {
    let frag = format!("key-{k}");
    let present = doc.resolve_method(frag.as_str(), None).is_some();
    if k <= v && !present {
      let m = VerificationMethod::new_from_jwk(doc.id().clone(), method_jwk(k), Some(frag.as_str())).unwrap();
      doc.insert_method(m, MethodScope::VerificationMethod).unwrap();
    } else if k > v && present {
      let url = doc.id().to_url().join(format!("#{frag}")).unwrap();
      doc.remove_method(&url);
    }
  }
}

fn network() -> NetworkName {
  NetworkName::try_from("smr").unwrap()
}

struct Slot {
  id: AliasId,
  did: IotaDID,
  ctrl: String,
}

struct World {
  ledger: MockLedger,
  slots: Vec<Slot>,
}

fn did_of_slot_never_published(k: usize) -> IotaDID {
  IotaDID::new(&[0xA0 + k as u8; 32], &network())
}

impl World {
  fn did(&self, slot: usize) -> IotaDID {
    self.slots.get(slot - 1).map(|s| s.did.clone()).unwrap_or_else(|| did_of_slot_never_published(slot))
  }

  fn create(&mut self, v: usize, ctrl: &str) -> Result<usize, String> {
    let mut doc = IotaDocument::new(&network());
    set_version(&mut doc, v);
    let out = block_on(self.ledger.new_did_output(address_of(ctrl), doc, Some(RentStructure::default()))).map_err(|e| format!("new_did_output: {e}"))?;
    if !out.alias_id().is_null() || out.state_index() != 0 {
      return Err(format!("a new output must carry the null alias id and state index 0, got {} / {}", out.alias_id(), out.state_index()));
    }
    if out.state_controller_address() != &address_of(ctrl) || out.governor_address() != &address_of(ctrl) {
      return Err("a new output must be controlled and governed by the given address".into());
    }
    let id = self.ledger.publish_new(out);
    let did = IotaDID::new(&id, &network());
    self.slots.push(Slot { id, did, ctrl: ctrl.to_string() });
    Ok(self.slots.len())
  }

  /// builds the transition output for `slot` (document version v, or deactivation when v = 0); None = the library refused
  fn build(&self, slot: usize, v: usize) -> Result<Option<AliasOutput>, String> {
    let did = self.did(slot);
    let before = self.ledger.outputs.borrow().get(&AliasId::from(&did)).cloned();
    let built = if v == 0 {
      block_on(self.ledger.deactivate_did_output(&did))
    } else {
      // the holder works on the document as resolved (or, for a DID that does not exist, on a fresh one under that DID)
      let mut doc = block_on(self.ledger.resolve_did(&did)).unwrap_or_else(|_| IotaDocument::new_with_id(did.clone()));
      set_version(&mut doc, v);
      doc.metadata.deactivated = None;
      block_on(self.ledger.update_did_output(doc))
    };
    // building never touches the ledger
    if self.ledger.outputs.borrow().get(&AliasId::from(&did)).cloned() != before {
      return Err("building an output changed the ledger".into());
    }
    match (built, before) {
      (Err(_), _) => Ok(None),
      (Ok(_), None) => Err("an output was built for a DID that is not on the ledger".into()),
      (Ok(out), Some((_, old))) => {
        if out.state_index() != old.state_index() + 1 {
          return Err(format!("state index {} after {}", out.state_index(), old.state_index()));
        }
        if out.alias_id() != &AliasId::from(&did) {
          return Err(format!("the transition output carries alias id {}, the DID says {}", out.alias_id(), AliasId::from(&did)));
        }
        if out.amount() != old.amount() || out.unlock_conditions() != old.unlock_conditions() || out.features() != old.features() {
          return Err("an update changed the deposit, the unlock conditions or the features".into());
        }
        if (v == 0) != out.state_metadata().is_empty() {
          return Err("state metadata: empty exactly for a deactivation".into());
        }
        Ok(Some(out))
      }
    }
  }

  fn project(&self, nslots: usize) -> Value {
    let rows: Vec<Value> = (1..=nslots)
      .map(|k| match self.slots.get(k - 1) {
        None => json!({"pub": false, "idx": 0, "meta": 0, "idset": false, "ctrl": "ed"}),
        Some(s) => {
          let (_, out) = self.ledger.outputs.borrow().get(&s.id).cloned().unwrap();
          let meta = if out.state_metadata().is_empty() {
            0
          } else {
            IotaDocument::unpack_from_output(&s.did, &out, false).map(|d| d.core_document().verification_method().len()).unwrap_or(99)
          };
          let ctrl = if matches!(out.state_controller_address(), Address::Alias(_)) { "alias" } else { "ed" };
          json!({"pub": true, "idx": out.state_index(), "meta": meta, "idset": !out.alias_id().is_null(), "ctrl": ctrl})
        }
      })
      .collect();
    json!(rows)
  }

  fn apply(&mut self, op: &Value) -> Result<Value, String> {
    match s(&op["name"]) {
      "create" => self.create(i(&op["v"]) as usize, s(&op["ctrl"])).map(|slot| json!({"ok": true, "slot": slot})),
      name @ ("update" | "deactivate" | "build_only") => {
        let slot = i(&op["slot"]) as usize;
        let v = if name == "deactivate" { 0 } else { i(&op["v"]) as usize };
        match self.build(slot, v)? {
          None => Ok(json!({"ok": false})),
          Some(out) => {
            if name != "build_only" {
              let id = AliasId::from(&self.did(slot));
              self.ledger.publish_update(id, out);
            }
            Ok(json!({"ok": true}))
          }
        }
      }
      "corrupt" => {
        // the controller publishes a transition whose state metadata is no DID document
        let slot = i(&op["slot"]) as usize;
        let did = self.did(slot);
        let id = AliasId::from(&did);
        let (_, old) = self.ledger.outputs.borrow().get(&id).cloned().ok_or("corrupt: slot not on the ledger")?;
        let out = identity_iota_core::block::output::AliasOutputBuilder::from(&old)
          .with_alias_id(id)
          .with_state_index(old.state_index() + 1)
          .with_state_metadata(b"not a DID document".to_vec())
          .finish()
          .map_err(|e| e.to_string())?;
        self.ledger.publish_update(id, out);
        Ok(json!({"ok": true}))
      }
      "unpack_strict" => {
        let slot = i(&op["slot"]) as usize;
        let did = self.did(slot);
        let (_, out) = self.ledger.outputs.borrow().get(&AliasId::from(&did)).cloned().ok_or("unpack_strict: slot not on the ledger")?;
        match IotaDocument::unpack_from_output(&did, &out, false) {
          Err(_) => Ok(json!({"ok": false})),
          Ok(doc) => Ok(json!({"ok": true, "version": doc.core_document().verification_method().len()})),
        }
      }
      "resolve" => {
        let slot = i(&op["slot"]) as usize;
        let mut did = self.did(slot);
        if s(&op["net"]) == "other" {
          did = IotaDID::new(&AliasId::from(&did), &NetworkName::try_from("rms").unwrap());
        }
        let out_res = block_on(self.ledger.resolve_did_output(&did));
        match block_on(self.ledger.resolve_did(&did)) {
          Err(_) => {
            // the output may be there while its state metadata is no DID document
            if let Ok(out) = &out_res {
              if IotaDocument::unpack_from_output(&did, out, true).is_ok() {
                return Err("resolve_did fails where resolve_did_output succeeds and the output unpacks".into());
              }
            }
            Ok(json!({"ok": false}))
          }
          Ok(doc) => {
            let out = out_res.map_err(|e| format!("resolve_did_output fails where resolve_did succeeds: {e}"))?;
            if doc.id() != &did {
              return Err(format!("resolved document has id {}, asked for {did}", doc.id()));
            }
            let hrp = "smr";
            let ctrl = self.slots.get(slot - 1).map(|x| x.ctrl.clone()).unwrap_or_else(|| "ed".into());
            let want_addr = address_of(&ctrl).to_bech32(iota_sdk::types::block::address::Hrp::from_str_unchecked(hrp)).to_string();
            // an alias-controlled output: the controlling alias's DID is a controller of the resolved document, and only then
            let controller_did = IotaDID::new(&AliasId::new([0xC7; 32]), &network());
            let named = doc.core_document().controller().map(|c| c.iter().any(|x| x == controller_did.as_ref())).unwrap_or(false);
            if named != (ctrl == "alias") {
              return Err(format!("controller of the resolved document: {:?}, the output is controlled by {ctrl}", doc.core_document().controller()));
            }
            if doc.metadata.governor_address.as_deref() != Some(want_addr.as_str()) || doc.metadata.state_controller_address.as_deref() != Some(want_addr.as_str()) {
              return Err(format!("addresses in the metadata: {:?} / {:?}", doc.metadata.governor_address, doc.metadata.state_controller_address));
            }
            let deactivated = doc.metadata.deactivated == Some(true);
            let version = doc.core_document().verification_method().len();
            // every method sits under the resolved DID and holds the key of its version slot
            for (k, m) in doc.core_document().verification_method().iter().enumerate() {
              if m.id().did() != did.as_ref() || m.controller() != did.as_ref() {
                return Err(format!("method {} of the resolved document is not under {did}", m.id()));
              }
              let want = method_jwk(k + 1);
              if m.data().public_key_jwk().map(|j| j.to_json().ok()) != Some(want.to_json().ok()) {
                return Err(format!("method {} does not hold the published key", m.id()));
              }
            }
            if deactivated && version != 0 {
              return Err("a deactivated document with methods".into());
            }
            Ok(json!({"ok": true, "deactivated": deactivated, "version": version, "idx": out.state_index(), "alias_controller": named}))
          }
        }
      }
      o => tool_error(&format!("bad ledger op {o}")),
    }
  }
}

fn build_world(pre: &Value) -> Result<World, String> {
  let mut w = World { ledger: MockLedger::new(), slots: Vec::new() };
  for row in arr(pre) {
    if !b(&row["pub"]) {
      continue;
    }
    let idx = i(&row["idx"]) as usize;
    let meta = i(&row["meta"]) as usize;
    // first version: the final one when nothing follows, otherwise something else
    let first = if idx == 0 { meta.clamp(1, 4) } else { 1 + (meta % 2) };
    let slot = w.create(first, s(&row["ctrl"]))?;
    for step in 1..=idx {
      if step == idx && meta == 99 {
        w.apply(&json!({"name": "corrupt", "slot": slot}))?;
        continue;
      }
      let v = if step == idx { meta } else { 1 + (step % 2) };
      let out = w.build(slot, v)?.ok_or("could not build a pre-state transition")?;
      w.ledger.publish_update(AliasId::from(&w.did(slot)), out);
    }
  }
  Ok(w)
}

fn replay_chunk(cases: &[Value], rep: &mut Report) {
  for case in cases {
    note_case(case);
    rep.eval();
    let op = &case["op"];
    let name = s(&op["name"]).to_string();
    let n = arr(&case["pre"]).len();
    let out = guarded(|| {
      let mut w = build_world(&case["pre"])?;
      if w.project(n) != case["pre"] {
        return Err(format!("harness pre-state {} differs", w.project(n)));
      }
      let res = w.apply(op)?;
      Ok::<_, String>((res, w.project(n)))
    });
    match out {
      Err(p) => rep.mismatch(&format!("iota_ledger/{name}/panic"), case, json!("no panic"), json!(p), "panic"),
      Ok(Err(e)) => rep.mismatch(&format!("iota_ledger/{name}/law"), case, case["res"].clone(), json!(e), ""),
      Ok(Ok((res, post))) => {
        if res != case["res"] || post != case["post"] {
          rep.mismatch(&format!("iota_ledger/{name}"), case, json!({"res": case["res"], "post": case["post"]}), json!({"res": res, "post": post}), "");
        }
      }
    }
    rep.nontrivial(format!("{}|{}", case["pre"], op));
    rep.sample(case.clone());
  }
}

pub fn replay(cases: &[Value], rep: &mut Report) {
  par_replay(cases, rep, replay_chunk);
}
