//! C16: SdJwtCredentialValidator against spec/SdJwtValidation.tla.
use crate::c02::claims_of;
use crate::c02::did;
use crate::c02::pub_jwk;
use crate::c02::sign_jwt;
use crate::c02::Spec2;
use crate::c02::EARLIEST_EXPIRY;
use crate::c02::LATEST_ISSUANCE;
use crate::util::*;
use identity_core::common::Object;
use identity_core::common::Timestamp;
use identity_credential::sd_jwt_payload::KeyBindingJwtClaims;
use identity_credential::sd_jwt_payload::SdJwt;
use identity_credential::sd_jwt_payload::SdObjectDecoder;
use identity_credential::sd_jwt_payload::SdObjectEncoder;
use identity_credential::sd_jwt_payload::Sha256Hasher;
use identity_credential::validator::FailFast;
use identity_credential::validator::JwtCredentialValidationOptions;
use identity_credential::validator::KeyBindingJWTValidationOptions;
use identity_credential::validator::SdJwtCredentialValidator;
use identity_did::DIDUrl;
use identity_document::document::CoreDocument;
use identity_document::verifiable::JwsVerificationOptions;
use identity_eddsa_verifier::EdDSAJwsVerifier;
use identity_jose::jws::CompactJwsEncoder;
use identity_jose::jws::JwsAlgorithm;
use identity_jose::jws::JwsHeader;
use identity_verification::MethodScope;
use identity_verification::VerificationMethod;
use serde_json::json;
use serde_json::Value;

type Sk = crypto::signatures::ed25519::SecretKey;

struct World {
  base: crate::c02::World, // issuer document with key-1 = K1, key-2 = K2 and the revocation service
  holder: CoreDocument,
  h1: Sk,
  h2: Sk,
  foreign: Sk,
}

fn world() -> World {
  let base = crate::c02::world();
  let h1 = Sk::from_bytes(&[0x61u8; 32]);
  let h2 = Sk::from_bytes(&[0x62u8; 32]);
  let foreign = Sk::from_bytes(&[0x63u8; 32]);
  let mut holder = CoreDocument::builder(Object::new()).id(did("holder")).build().unwrap();
  holder
    .insert_method(VerificationMethod::new_from_jwk(did("holder"), pub_jwk(&h1), Some("hkey-1")).unwrap(), MethodScope::VerificationMethod)
    .unwrap();
  holder
    .insert_method(VerificationMethod::new_from_jwk(did("holder"), pub_jwk(&h2), Some("hkey-2")).unwrap(), MethodScope::VerificationMethod)
    .unwrap();
  World { base, holder, h1, h2, foreign }
}

struct Token {
  jwt: String,
  disclosures: Vec<String>,
}

/// issues an SD-JWT over the given claims with two concealed claims
fn issue(claims: &str, kid: &str, nonce: Option<&str>, sk: &Sk, salt: &str) -> Token {
  issue_with(claims, kid, nonce, sk, salt, &[])
}

/// `extra`: further JSON pointers to conceal (registered claims); their disclosures follow the two degree disclosures
fn issue_with(claims: &str, kid: &str, nonce: Option<&str>, sk: &Sk, salt: &str, extra: &[&str]) -> Token {
  let mut enc = SdObjectEncoder::new(claims).unwrap();
  let mut d: Vec<String> = vec![
    enc.conceal("/vc/credentialSubject/degree/type", Some(format!("{salt}-1"))).unwrap().to_string(),
    enc.conceal("/vc/credentialSubject/degree/name", Some(format!("{salt}-2"))).unwrap().to_string(),
  ];
  for (k, p) in extra.iter().enumerate() {
    d.push(enc.conceal(p, Some(format!("{salt}-x{k}"))).unwrap().to_string());
  }
  enc.add_sd_alg_property();
  let payload = enc.try_to_string().unwrap();
  let jwt = sign_jwt(&payload, Some(kid), nonce, sk);
  Token { jwt: jwt.as_str().to_string(), disclosures: d }
}

fn cred_row(case: &Value, w: &World) -> Vec<(String, Value, Value)> {
  let r = &case["row"];
  let mut diffs = Vec::new();
  let sp = Spec2 {
    issuer_claim: s(&r["issuer_claim"]).into(),
    expiry: Some(EARLIEST_EXPIRY + if s(&r["expiry"]) == "1" { 1 } else { -1 }),
    status: s(&r["status"]).into(),
    ..Default::default()
  };
  let (claims, expected) = claims_of(&sp);
  let kid = match s(&r["kid"]) {
    "full" => "did:example:issuer#key-1",
    "fragment" => "#key-1",
    _ => "did:example:issuer#no-such-key",
  };
  let sk = if s(&r["signed_with"]) == "issuer_key" { &w.base.k1 } else { &w.base.k2 };
  let nonce = if s(&r["nonce_hdr"]) == "a" { Some("nonce-a") } else { None };
  let extra: &[&str] = match s(&r["concealed"]) {
    "iss" => &["/iss"],
    "exp" => &["/exp"],
    "iss_exp" => &["/iss", "/exp"],
    _ => &[],
  };
  let tok = issue_with(&claims, kid, nonce, sk, "salt", extra);
  let other = issue_with(&claims, kid, nonce, sk, "other-token-salt", extra);
  let extras: Vec<String> = tok.disclosures[2..].to_vec();
  let with_extras = |mut v: Vec<String>| {
    v.extend(extras.iter().cloned());
    v
  };
  let disclosures: Vec<String> = match s(&r["disclosures"]) {
    "all" => tok.disclosures.clone(),
    "subset" => with_extras(vec![tok.disclosures[1].clone()]),
    "none" => vec![],
    "reordered" => tok.disclosures.iter().rev().cloned().collect(),
    "forged_extra" => {
      let mut d = tok.disclosures.clone();
      d.push(identity_jose::jwu::encode_b64(br#"["forged-salt","admin",true]"#));
      d
    }
    "for_other_token" => with_extras(vec![tok.disclosures[0].clone(), other.disclosures[1].clone()]),
    _ => with_extras(vec![tok.disclosures[0].clone(), tok.disclosures[0].clone()]),
  };
  let sd = SdJwt::new(tok.jwt.clone(), disclosures.clone(), None);
  let mut v = JwsVerificationOptions::new();
  match s(&r["nonce_opt"]) {
    "a" => v = v.nonce("nonce-a"),
    "b" => v = v.nonce("nonce-b"),
    _ => {}
  }
  let opts = JwtCredentialValidationOptions::new()
    .latest_issuance_date(Timestamp::from_unix(LATEST_ISSUANCE).unwrap())
    .earliest_expiry_date(Timestamp::from_unix(EARLIEST_EXPIRY).unwrap())
    .verification_options(v);
  let ff = if s(&r["fail_fast"]) == "FirstError" { FailFast::FirstError } else { FailFast::AllErrors };
  let validator = SdJwtCredentialValidator::with_signature_verifier(EdDSAJwsVerifier::default(), SdObjectDecoder::new_with_sha256());
  let res = validator.validate_credential::<_, Object>(&sd, &w.base.issuer, &opts, ff);
  let verdict = s(&case["out"]["verdict"]);
  match (&res, verdict) {
    (Ok(_), "reject") => diffs.push(("accepted_unbound".into(), json!("rejected"), json!({"accepted_with_disclosures": disclosures.len()}))),
    (Err(e), "accept") => diffs.push(("~rejected_although_bound".into(), json!("accepted"), json!(e.to_string()))),
    _ => {}
  }
  if let (Ok(d), true) = (&res, verdict != "reject") {
    // the reconstructed credential shows exactly what was disclosed, nothing forged
    let degree = &d.credential.credential_subject.get(0).unwrap().properties["degree"];
    let want_type = matches!(s(&r["disclosures"]), "all" | "reordered" | "duplicated");
    let want_name = matches!(s(&r["disclosures"]), "all" | "subset" | "reordered");
    let exp_degree = expected.as_ref().map(|c| c.credential_subject.get(0).unwrap().properties["degree"].clone()).unwrap_or(Value::Null);
    let ok = degree.get("type").is_some() == want_type
      && degree.get("name").is_some() == want_name
      && (!want_type || degree.get("type") == exp_degree.get("type"))
      && (!want_name || degree.get("name") == exp_degree.get("name"))
      && d.credential.properties.get("admin").is_none();
    if !ok {
      diffs.push(("reconstructed_credential".into(), json!({"type": want_type, "name": want_name}), degree.clone()));
    }
  }
  diffs
}

fn kb_row(case: &Value, w: &World) -> Vec<(String, Value, Value)> {
  let r = &case["row"];
  let mut diffs = Vec::new();
  let (claims, _) = claims_of(&Spec2::default());
  let tok = issue(&claims, "did:example:issuer#key-1", None, &w.base.k1, "salt");
  let presented = vec![tok.disclosures[0].clone()];
  const EARLIEST: i64 = 1_700_000_000;
  const LATEST: i64 = 1_700_000_600;
  let iat = match s(&r["iat"]) {
    "long_past" => 1_000_000_000,
    "far_future" => 4_000_000_000, // year 2096: in the future for any run of this check
    "before_earliest" => EARLIEST - 1,
    "at_earliest" => EARLIEST,
    "inside" => EARLIEST + 300,
    "at_latest" => LATEST,
    _ => LATEST + 1,
  };
  let hashed_over: Vec<String> = match s(&r["sd_hash"]) {
    "over_other_disclosures" => tok.disclosures.clone(),
    _ => presented.clone(),
  };
  let mut kb_claims = KeyBindingJwtClaims::new(&Sha256Hasher::new(), tok.jwt.clone(), hashed_over, "nonce-1".to_string(), "did:example:verifier".to_string(), iat);
  match s(&r["sd_hash"]) {
    "wrong" => kb_claims.sd_hash = "AAAAAAAAAAAAAAAAAAAAAAAAAAAAAAAAAAAAAAAAAAA".to_string(),
    "empty" => kb_claims.sd_hash = String::new(),
    "prefix_of_right" => kb_claims.sd_hash.truncate(20),
    "right_plus_suffix" => kb_claims.sd_hash.push_str("AA"),
    _ => {}
  }
  let kb_text = serde_json::to_string(&kb_claims).unwrap();
  let mut h = JwsHeader::new();
  h.set_alg(JwsAlgorithm::EdDSA);
  match s(&r["typ"]) {
    "kb+jwt" => h.set_typ(KeyBindingJwtClaims::KB_JWT_HEADER_TYP),
    "JWT" => h.set_typ("JWT"),
    _ => {}
  }
  match s(&r["kid"]) {
    "full" => h.set_kid("did:example:holder#hkey-1"),
    "fragment" => h.set_kid("#hkey-1"),
    "missing_method" => h.set_kid("did:example:holder#no-such-key"),
    _ => {}
  }
  let sk = match s(&r["signed_by"]) {
    "holder_key" => &w.h1,
    "other_key_of_holder" => &w.h2,
    _ => &w.foreign,
  };
  let enc = CompactJwsEncoder::new(kb_text.as_bytes(), &h).unwrap();
  let sig = sk.sign(enc.signing_input()).to_bytes();
  let kb_jwt = enc.into_jws(&sig);
  let sd = SdJwt::new(tok.jwt.clone(), presented, if s(&r["kb"]) == "present" { Some(kb_jwt) } else { None });
  let mut o = KeyBindingJWTValidationOptions::new();
  match s(&r["nonce"]) {
    "same" => o = o.nonce("nonce-1"),
    "different" => o = o.nonce("nonce-2"),
    _ => {}
  }
  match s(&r["aud"]) {
    "same" => o = o.aud("did:example:verifier"),
    "different" => o = o.aud("did:example:someone-else"),
    _ => {}
  }
  if s(&r["method_id"]) == "holder_key" {
    o = o.jws_verifier_options(JwsVerificationOptions::new().method_id(DIDUrl::parse("did:example:holder#hkey-1").unwrap()));
  }
  if matches!(s(&r["window"]), "both" | "earliest_only") {
    o = o.earliest_issuance_date(Timestamp::from_unix(EARLIEST).unwrap());
  }
  if matches!(s(&r["window"]), "both" | "latest_only") {
    o = o.latest_issuance_date(Timestamp::from_unix(LATEST).unwrap());
  }
  let validator = SdJwtCredentialValidator::with_signature_verifier(EdDSAJwsVerifier::default(), SdObjectDecoder::new_with_sha256());
  let res = validator.validate_key_binding_jwt(&sd, &w.holder, &o);
  let accept = s(&case["out"]["verdict"]) == "accept";
  match (res, accept) {
    (Ok(_), false) => diffs.push(("kb_accepted_unbound".into(), json!("error"), json!("accepted"))),
    (Err(e), true) => diffs.push(("~kb_rejected_although_bound".into(), json!("accepted"), json!(e.to_string()))),
    (Ok(c), true) => {
      if c.nonce != "nonce-1" || c.aud != "did:example:verifier" || c.iat != iat {
        diffs.push(("kb_claims".into(), json!("the signed claims"), json!({"nonce": c.nonce, "aud": c.aud, "iat": c.iat})));
      }
    }
    (Err(_), false) => {}
  }
  diffs
}

fn replay_chunk(cases: &[Value], rep: &mut Report) {
  let w = world();
  for case in cases {
    note_case(&case["row"]);
    rep.eval();
    let part = s(&case["row"]["part"]).to_string();
    let r = guarded(|| if part == "cred" { cred_row(case, &w) } else { kb_row(case, &w) });
    match r {
      // every failure is reported as an error, never as a crash
      Err(p) => rep.mismatch(&format!("sd_jwt/{part}/panic"), case, json!("an error value"), json!(p), "panic"),
      Ok(diffs) => {
        for (k, exp, obs) in diffs {
          rep.mismatch(&format!("sd_jwt/{part}/{k}"), case, exp, obs, "");
        }
      }
    }
    rep.nontrivial(format!("{}", case["row"]));
    if s(&case["out"]["verdict"]) == "accept" {
      rep.sample(case.clone());
    }
  }
}

pub fn replay(cases: &[Value], rep: &mut Report) {
  par_replay(cases, rep, replay_chunk);
}
