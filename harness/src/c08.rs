//! C08: every JWS the library produces decodes and verifies to what was signed — spec/JwsProduce.tla.
use crate::c01::alg_of;
use crate::c01::decode;
use crate::c01::keys;
use crate::c01::Keys;
use crate::c09::world;
use crate::c09::FStorage;
use crate::util::*;
use futures::executor::block_on;
use identity_core::common::Url;
use identity_did::CoreDID;
use identity_did::DID;
use identity_document::document::CoreDocument;
use identity_document::verifiable::JwsVerificationOptions;
use identity_eddsa_verifier::EdDSAJwsVerifier;
use identity_jose::jws::CharSet;
use identity_jose::jws::CompactJwsEncoder;
use identity_jose::jws::CompactJwsEncodingOptions;
use identity_jose::jws::Decoder;
use identity_jose::jws::FlattenedJwsEncoder;
use identity_jose::jws::GeneralJwsEncoder;
use identity_jose::jws::JwsHeader;
use identity_jose::jws::Recipient;
use identity_storage::JwkDocumentExt;
use identity_storage::JwkMemStore;
use identity_storage::JwsSignatureOptions;
use identity_verification::jose::jws::JwsAlgorithm;
use identity_verification::MethodRelationship;
use identity_verification::MethodScope;
use serde_json::json;
use serde_json::Value;

pub fn payload_of(class: &str) -> Vec<u8> {
  match class {
    "urlsafe" => b"AZaz09-_~payload".to_vec(),
    "ascii" => b"hello world! $&() ok".to_vec(),
    "dot" => b"a.b.c payload".to_vec(),
    "quote" => b"say \"hi\" \\ back".to_vec(),
    "control" => b"line1\nline2\ttab".to_vec(),
    "nonutf8" => vec![0xff, 0xfe, 0x00, 0x80, b'a'],
    "long" => vec![b'x'; 10_000],
    o => tool_error(&format!("bad payload class {o}")),
  }
}

fn protected_header(b64: &str, idx: usize) -> JwsHeader {
  let mut h = JwsHeader::new();
  h.set_alg(JwsAlgorithm::EdDSA);
  h.set_kid(format!("did:example:signer#key-{idx}"));
  match b64 {
    "true" => {
      h.set_b64(true);
      h.set_crit(["b64"]);
    }
    "false" => {
      h.set_b64(false);
      h.set_crit(["b64"]);
    }
    _ => {}
  }
  h
}

fn unprotected_header(idx: usize) -> JwsHeader {
  let mut h = JwsHeader::new();
  let mut m = std::collections::BTreeMap::new();
  m.insert("x-extra".to_string(), json!(idx));
  h.set_custom(m);
  h
}

struct Produced {
  token: String,
  signing_inputs: Vec<Vec<u8>>,
  protected: Vec<JwsHeader>,
  unprotected: Vec<Option<JwsHeader>>,
}

/// Runs the encoder steps; Err(step) names the step that refused.
fn encode(cfg: &Value, payload: &[u8], k: &Keys) -> Result<Produced, String> {
  let recips: Vec<&str> = arr(&cfg["recips"]).iter().map(s).collect();
  let detached = b(&cfg["detached"]);
  let with_unprot = b(&cfg["unprot"]);
  let prot: Vec<JwsHeader> = recips.iter().enumerate().map(|(n, b64)| protected_header(b64, n)).collect();
  let unprot: Vec<Option<JwsHeader>> = (0..recips.len()).map(|n| if with_unprot { Some(unprotected_header(n)) } else { None }).collect();
  let recipient = |n: usize| Recipient { protected: Some(&prot[n]), unprotected: unprot[n].as_ref() };
  match s(&cfg["kind"]) {
    "compact" => {
      let opts = if detached {
        CompactJwsEncodingOptions::Detached
      } else {
        CompactJwsEncodingOptions::NonDetached {
          charset_requirements: if s(&cfg["charset"]) == "UrlSafe" { CharSet::UrlSafe } else { CharSet::Default },
        }
      };
      let enc = CompactJwsEncoder::new_with_options(payload, &prot[0], opts).map_err(|_| "refused_new".to_string())?;
      let si = enc.signing_input().to_vec();
      let sig = k.sign("EdDSA", &si);
      Ok(Produced { token: enc.into_jws(&sig), signing_inputs: vec![si], protected: prot.clone(), unprotected: unprot.clone() })
    }
    "flattened" => {
      let enc = FlattenedJwsEncoder::new(payload, recipient(0), detached).map_err(|_| "refused_new".to_string())?;
      let si = enc.signing_input().to_vec();
      let sig = k.sign("EdDSA", &si);
      let token = enc.into_jws(&sig).map_err(|_| "refused_into".to_string())?;
      Ok(Produced { token, signing_inputs: vec![si], protected: prot.clone(), unprotected: unprot.clone() })
    }
    _ => {
      let mut sis = Vec::new();
      let mut processing = GeneralJwsEncoder::new(payload, recipient(0), detached).map_err(|_| "refused_new".to_string())?;
      let mut n = 0;
      let ready = loop {
        let si = processing.signing_input().to_vec();
        let sig = k.sign("EdDSA", &si);
        sis.push(si);
        let ready = processing.set_signature(&sig);
        n += 1;
        if n == recips.len() {
          break ready;
        }
        processing = ready.add_recipient(recipient(n)).map_err(|_| "refused_add".to_string())?;
      };
      let token = ready.into_jws().map_err(|_| "refused_into".to_string())?;
      Ok(Produced { token, signing_inputs: sis, protected: prot.clone(), unprotected: unprot.clone() })
    }
  }
}

fn check_part_a(case: &Value, k: &Keys) -> Vec<(String, Value, Value)> {
  let cfg = &case["cfg"];
  let mut diffs = Vec::new();
  let payload = payload_of(s(&cfg["payload"]));
  let want = s(&case["outcome"]);
  let produced = match encode(cfg, &payload, k) {
    // The property is about what IS produced: a refusal the reference does not predict (or the reverse) is a deviation
    // from the reference, not a violation; whatever is produced goes through the full round trip below.
    Err(step) => {
      if step != want {
        diffs.push(("~encoder_step".into(), json!(want), json!(step)));
      }
      return diffs;
    }
    Ok(p) => {
      if want != "produced" {
        diffs.push(("~encoder_step".into(), json!(want), json!("produced")));
      }
      p
    }
  };
  // ---- the library's own decoder reads it back ----
  let detached = b(&cfg["detached"]);
  let unenc = s(&arr(&cfg["recips"])[0]) == "false";
  // the detached argument is the payload as it was put into the signing input
  let transported: Vec<u8> = if unenc { payload.clone() } else { identity_jose::jwu::encode_b64(&payload).into_bytes() };
  let det = if detached { Some(transported.as_slice()) } else { None };
  let kind = s(&cfg["kind"]);
  let key = k.public_jwk("EdDSA");
  let other_key = {
    let k2 = Keys2::other();
    k2
  };
  let items: Vec<Result<identity_jose::jws::JwsValidationItem<'_>, String>> = match kind {
    "general" => match Decoder::new().decode_general_serialization(produced.token.as_bytes(), det) {
      Err(e) => vec![Err(e.to_string())],
      Ok(it) => it.map(|r| r.map_err(|e| e.to_string())).collect(),
    },
    _ => vec![decode(kind, produced.token.as_bytes(), det)],
  };
  if items.len() != produced.signing_inputs.len() {
    diffs.push(("signature_count".into(), json!(produced.signing_inputs.len()), json!(items.len())));
  }
  for (n, item) in items.into_iter().enumerate() {
    match item {
      Err(e) => diffs.push(("own_token_not_decodable".into(), json!("decodes"), json!({"error": e, "token": produced.token.chars().take(300).collect::<String>()}))),
      Ok(item) => {
        if item.claims() != payload.as_slice() {
          diffs.push(("payload".into(), json!(String::from_utf8_lossy(&payload)), json!(String::from_utf8_lossy(item.claims()))));
        }
        if n < produced.signing_inputs.len() && item.signing_input() != produced.signing_inputs[n].as_slice() {
          diffs.push(("signing_input".into(), json!(String::from_utf8_lossy(&produced.signing_inputs[n])), json!(String::from_utf8_lossy(item.signing_input()))));
        }
        if n < produced.protected.len() {
          // compared as JSON: a decoded header holds an empty custom map where the original holds none
          if item.protected_header().map(|h| serde_json::to_value(h).unwrap()) != Some(serde_json::to_value(&produced.protected[n]).unwrap()) {
            diffs.push(("protected_header".into(), json!(serde_json::to_value(&produced.protected[n]).unwrap()), json!(item.protected_header().map(|h| serde_json::to_value(h).unwrap()))));
          }
          if item.unprotected_header().map(|h| serde_json::to_value(h).unwrap()) != produced.unprotected[n].as_ref().map(|h| serde_json::to_value(h).unwrap()) {
            diffs.push(("unprotected_header".into(), json!("as given"), json!(item.unprotected_header().map(|h| serde_json::to_value(h).unwrap()))));
          }
        }
        // verifies under the key it was produced for ...
        let si = item.signing_input().to_vec();
        let sig = item.decoded_signature().to_vec();
        match item.verify(&EdDSAJwsVerifier::default(), &key) {
          Ok(d) => {
            if d.claims.as_ref() != payload.as_slice() {
              diffs.push(("verified_payload".into(), json!("signed payload"), json!("differs")));
            }
          }
          Err(e) => diffs.push(("own_token_not_verifiable".into(), json!("verifies"), json!(e.to_string()))),
        }
        // ... and under no other key
        let input = identity_jose::jws::VerificationInput { alg: alg_of("EdDSA"), signing_input: si.into_boxed_slice(), decoded_signature: sig.into_boxed_slice() };
        use identity_jose::jws::JwsVerifier;
        if EdDSAJwsVerifier::default().verify(input, &other_key).is_ok() {
          diffs.push(("verifies_under_other_key".into(), json!("fails"), json!("verified")));
        }
      }
    }
  }
  diffs
}

struct Keys2;
impl Keys2 {
  fn other() -> identity_jose::jwk::Jwk {
    let sk = crypto::signatures::ed25519::SecretKey::from_bytes(&[0x99u8; 32]);
    let mut p = identity_jose::jwk::JwkParamsOkp::new();
    p.crv = "Ed25519".into();
    p.x = identity_jose::jwu::encode_b64(sk.public_key().to_bytes());
    identity_jose::jwk::Jwk::from_params(p)
  }
}

// ---------------------------------------------------------------------------------------------
// Part B: create_jws with every option set, verification attempts
// ---------------------------------------------------------------------------------------------

struct DocWorld {
  doc: CoreDocument,
  storage: FStorage,
  /// the real relationships playing the model's "authentication", "assertionMethod" and the unused ones
  ra: MethodRelationship,
  rb: MethodRelationship,
  unused: Vec<MethodRelationship>,
}

const RELS: [MethodRelationship; 5] = [
  MethodRelationship::Authentication,
  MethodRelationship::AssertionMethod,
  MethodRelationship::KeyAgreement,
  MethodRelationship::CapabilityDelegation,
  MethodRelationship::CapabilityInvocation,
];

fn frag_of(m: &str) -> &'static str {
  match m {
    "m_vm_auth" => "vm-auth",
    "m_embedded_assertion" => "emb-assert",
    "m_vm_plain" => "vm-plain",
    o => tool_error(&format!("bad method {o}")),
  }
}

/// `rot` rotates the model relationships over the five real ones, so every relationship-specific code path is driven
fn doc_world(rot: usize) -> DocWorld {
  let w = world();
  let ra = RELS[rot % 5];
  let rb = RELS[(rot + 1) % 5];
  let unused: Vec<MethodRelationship> = (2..5).map(|k| RELS[(rot + k) % 5]).collect();
  let mut doc = CoreDocument::builder(Default::default()).id(CoreDID::parse("did:example:signer").unwrap()).build().unwrap();
  let gen = |doc: &mut CoreDocument, frag: &str, scope: MethodScope| {
    block_on(doc.generate_method(&w.storage, JwkMemStore::ED25519_KEY_TYPE, JwsAlgorithm::EdDSA, Some(frag), scope)).unwrap();
  };
  gen(&mut doc, "vm-auth", MethodScope::VerificationMethod);
  doc.attach_method_relationship("vm-auth", ra).unwrap();
  gen(&mut doc, "emb-assert", MethodScope::VerificationRelationship(rb));
  gen(&mut doc, "vm-plain", MethodScope::VerificationMethod);
  DocWorld { doc, storage: w.storage, ra, rb, unused }
}

fn check_part_b(case: &Value, dw: &DocWorld) -> Vec<(String, Value, Value)> {
  let cfg = &case["cfg"];
  let mut diffs = Vec::new();
  let payload = payload_of(s(&cfg["payload"]));
  let signer = frag_of(s(&cfg["signer"]));
  let mut o = JwsSignatureOptions::new();
  if b(&cfg["kid_override"]) {
    o = o.kid("urn:custom:kid:1");
  }
  if b(&cfg["attach_jwk"]) {
    o = o.attach_jwk_to_header(true);
  }
  match s(&cfg["b64"]) {
    "true" => o = o.b64(true),
    "false" => o = o.b64(false),
    _ => {}
  }
  if b(&cfg["typ"]) {
    o = o.typ("application/custom+jwt");
  }
  if b(&cfg["cty"]) {
    o = o.cty("text/plain");
  }
  if b(&cfg["url"]) {
    o = o.url(Url::parse("https://example.com/endpoint").unwrap());
  }
  if b(&cfg["nonce"]) {
    o = o.nonce("nonce-1");
  }
  match s(&cfg["custom"]) {
    "x-custom" => {
      let mut m = identity_core::common::Object::new();
      m.insert("x-custom".into(), json!({"a": [1, 2, 3]}));
      o = o.custom_header_parameters(m);
    }
    name @ ("kid" | "alg" | "typ" | "nonce" | "url" | "cty" | "jwk" | "b64" | "crit") => {
      // a custom parameter named like a member the call sets itself
      let mut m = identity_core::common::Object::new();
      let v = match name {
        "b64" => json!(false),
        "crit" => json!(["b64"]),
        "jwk" => json!({"kty": "OKP", "crv": "Ed25519", "x": "11qYAYKxCrfVS_7TyWQHOg7hcvPapiMlrwIaaPcHURo"}),
        "url" => json!("https://example.com/other"),
        _ => json!("did:example:someone-else#key"),
      };
      m.insert(name.into(), v);
      o = o.custom_header_parameters(m);
    }
    _ => {}
  }
  if b(&cfg["detached"]) {
    o = o.detached_payload(true);
  }
  let want = s(&case["outcome"]);
  let jws = match block_on(dw.doc.create_jws(&dw.storage, signer, &payload, &o)) {
    Err(e) => {
      if want == "produced" {
        diffs.push(("~create_jws_refused".into(), json!("produced"), json!(e.to_string())));
      }
      return diffs;
    }
    Ok(j) => {
      if want != "produced" {
        if !matches!(s(&cfg["custom"]), "none" | "x-custom") {
          // the property is about what IS produced: a produced token must be readable by the library itself
          if let Err(e) = Decoder::new().decode_compact_serialization(j.as_str().as_bytes(), None) {
            if !b(&cfg["detached"]) {
              diffs.push(("own_token_not_decodable".into(), json!("refused, or a token the library can decode"), json!({"error": e.to_string(), "token": j.as_str()})));
            }
          }
        } else {
          diffs.push(("create_jws_accepted".into(), json!(want), json!("produced")));
        }
        return diffs;
      }
      j
    }
  };
  let unenc = s(&cfg["b64"]) == "false";
  let transported: Vec<u8> = if unenc { payload.clone() } else { identity_jose::jwu::encode_b64(&payload).into_bytes() };
  let det = if b(&cfg["detached"]) { Some(transported.as_slice()) } else { None };
  // decodes to what was signed, with the headers the options asked for
  match Decoder::new().decode_compact_serialization(jws.as_str().as_bytes(), det) {
    Err(e) => diffs.push(("own_token_not_decodable".into(), json!("decodes"), json!(e.to_string()))),
    Ok(item) => {
      if item.claims() != payload.as_slice() {
        diffs.push(("payload".into(), json!("signed payload"), json!(String::from_utf8_lossy(item.claims()))));
      }
      let h = item.protected_header().cloned().unwrap_or_default();
      let method_id = format!("did:example:signer#{signer}");
      let want_kid = if b(&cfg["kid_override"]) { "urn:custom:kid:1".to_string() } else { method_id.clone() };
      let ok = h.kid() == Some(want_kid.as_str())
        && h.alg() == Some(JwsAlgorithm::EdDSA)
        && h.jwk().is_some() == b(&cfg["attach_jwk"])
        && h.b64() == if unenc { Some(false) } else { None }
        && h.typ() == Some(if b(&cfg["typ"]) { "application/custom+jwt" } else { "JWT" })
        && h.cty().is_some() == b(&cfg["cty"])
        && h.url().is_some() == b(&cfg["url"])
        && h.nonce() == if b(&cfg["nonce"]) { Some("nonce-1") } else { None }
        && h.custom().map(|c| c.contains_key("x-custom")).unwrap_or(false) == (s(&cfg["custom"]) == "x-custom");
      if !ok {
        diffs.push(("header_options".into(), json!(cfg), json!(serde_json::to_value(&h).unwrap())));
      }
    }
  }
  // verification attempts
  let other = if s(&cfg["signer"]) == "m_vm_plain" { "vm-auth" } else { "vm-plain" };
  for att in arr(&case["attempts"]) {
    let a = &att["a"];
    let mut vo = JwsVerificationOptions::default();
    match s(&a["method_id"]) {
      "signer" => vo = vo.method_id(dw.doc.id().to_url().join(format!("#{signer}")).unwrap()),
      "other" => vo = vo.method_id(dw.doc.id().to_url().join(format!("#{other}")).unwrap()),
      _ => {}
    }
    match s(&a["nonce"]) {
      "same" => vo = vo.nonce("nonce-1"),
      "different" => vo = vo.nonce("nonce-2"),
      _ => {}
    }
    let scopes: Vec<Option<MethodScope>> = match s(&a["scope"]) {
      "vm" => vec![Some(MethodScope::VerificationMethod)],
      "authentication" => vec![Some(MethodScope::VerificationRelationship(dw.ra))],
      "assertionMethod" => vec![Some(MethodScope::VerificationRelationship(dw.rb))],
      "unused_rel" => dw.unused.iter().map(|r| Some(MethodScope::VerificationRelationship(*r))).collect(),
      _ => vec![None],
    };
    for sc in scopes {
    let mut vo = vo.clone();
    if let Some(sc) = sc {
      vo = vo.method_scope(sc);
    }
    let r = dw.doc.verify_jws(jws.as_str(), det, &EdDSAJwsVerifier::default(), &vo);
    let want_ok = b(&att["ok"]);
    if r.is_ok() != want_ok {
      let key = if r.is_ok() { "verified_unbound" } else { "own_token_not_verifiable" };
      diffs.push((key.into(), json!({"attempt": a, "ok": want_ok, "real_scope": format!("{:?}", vo.method_scope)}), json!({"ok": r.is_ok(), "error": r.err().map(|e| e.to_string())})));
    } else if let Ok(d) = r {
      if d.claims.as_ref() != payload.as_slice() {
        diffs.push(("verified_payload".into(), json!("signed payload"), json!("differs")));
      }
    }
    }
  }
  diffs
}

fn replay_chunk(cases: &[Value], rep: &mut Report) {
  let k = keys();
  let dws: Vec<DocWorld> = (0..5).map(doc_world).collect();
  for (ci, case) in cases.iter().enumerate() {
    let dw = &dws[ci % 5];
    note_case(&case["cfg"]);
    rep.eval();
    let part = s(&case["cfg"]["part"]).to_string();
    let r = guarded(|| if part == "A" { check_part_a(case, &k) } else { check_part_b(case, dw) });
    let ctx = json!({"cfg": case["cfg"], "outcome": case["outcome"]});
    match r {
      Err(p) => rep.mismatch(&format!("jws_produce/{part}/panic"), &ctx, json!("no panic"), json!(p), "panic"),
      Ok(diffs) => {
        let real = diffs.iter().any(|(kk, _, _)| !kk.starts_with('~'));
        for (kk, exp, obs) in diffs {
          if kk.starts_with('~') {
            if !real {
              rep.reference_drift(&format!("jws_produce/{part}/{}", &kk[1..]), &ctx, exp, obs);
            }
            continue;
          }
          rep.mismatch(&format!("jws_produce/{part}/{kk}"), &ctx, exp, obs, "");
        }
      }
    }
    rep.add("verification_attempts", arr(&case["attempts"]).len() as u64);
    rep.nontrivial(format!("{}", case["cfg"]));
    if s(&case["outcome"]) == "produced" {
      rep.sample(ctx);
    }
  }
}

pub fn replay(cases: &[Value], rep: &mut Report) {
  par_replay(cases, rep, replay_chunk);
}
