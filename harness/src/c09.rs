//! C09: JwkDocumentExt::{generate_method, purge_method} against spec/StorageTxn.tla.
//!
//! Fault-injecting JwkStorage / KeyIdStorage wrappers around the shipped in-memory stores fail exactly the storage
//! calls named by the TLC-generated fault set and log every storage call (name, failed) at its return.
use crate::util::*;
use async_trait::async_trait;
use futures::executor::block_on;
use identity_core::convert::FromJson;
use identity_core::convert::ToJson;
use identity_did::CoreDID;
use identity_did::DIDUrl;
use identity_did::DID;
use identity_document::document::CoreDocument;
use identity_eddsa_verifier::EdDSAJwsVerifier;
use identity_iota_core::IotaDID;
use identity_iota_core::IotaDocument;
use identity_storage::JwkDocumentExt;
use identity_storage::JwkGenOutput;
use identity_storage::JwkMemStore;
use identity_storage::JwkStorage;
use identity_storage::JwkStorageDocumentError;
use identity_storage::JwsSignatureOptions;
use identity_storage::KeyId;
use identity_storage::KeyIdMemstore;
use identity_storage::KeyIdStorage;
use identity_storage::KeyIdStorageError;
use identity_storage::KeyIdStorageErrorKind;
use identity_storage::KeyIdStorageResult;
use identity_storage::KeyStorageError;
use identity_storage::KeyStorageErrorKind;
use identity_storage::KeyStorageResult;
use identity_storage::KeyType;
use identity_storage::MethodDigest;
use identity_storage::Storage;
use identity_verification::jose::jwk::Jwk;
use identity_verification::jose::jws::JwsAlgorithm;
use identity_verification::MethodRef;
use identity_verification::MethodRelationship;
use identity_verification::MethodScope;
use identity_document::verifiable::JwsVerificationOptions;
use serde_json::json;
use serde_json::Value;
use std::cell::RefCell;
use std::collections::BTreeSet;
use std::rc::Rc;

#[derive(Default)]
pub struct Ctl {
  pub armed: bool,
  pub faults: BTreeSet<String>,
  pub log: Vec<(String, bool)>,
  pub generated: Vec<KeyId>,
  pub inserted_digests: Vec<MethodDigest>,
}
impl Ctl {
  /// Logs a call; returns true when it must fail.
  fn call(&mut self, name: &str) -> bool {
    if !self.armed {
      return false;
    }
    let fail = self.faults.contains(name);
    self.log.push((name.to_string(), fail));
    fail
  }
}

pub struct FaultyJwk {
  pub inner: Rc<JwkMemStore>,
  pub ctl: Rc<RefCell<Ctl>>,
}
pub struct FaultyKeyId {
  pub inner: Rc<KeyIdMemstore>,
  pub ctl: Rc<RefCell<Ctl>>,
}

fn kerr() -> KeyStorageError {
  KeyStorageError::new(KeyStorageErrorKind::Unavailable).with_custom_message("injected fault")
}
fn ierr() -> KeyIdStorageError {
  KeyIdStorageError::new(KeyIdStorageErrorKind::Unavailable).with_custom_message("injected fault")
}

#[async_trait(?Send)]
impl JwkStorage for FaultyJwk {
  async fn generate(&self, key_type: KeyType, alg: JwsAlgorithm) -> KeyStorageResult<JwkGenOutput> {
    if self.ctl.borrow_mut().call("generate") {
      return Err(kerr());
    }
    let out = self.inner.generate(key_type, alg).await?;
    let mut c = self.ctl.borrow_mut();
    if c.armed {
      c.generated.push(out.key_id.clone());
    }
    Ok(out)
  }
  async fn insert(&self, jwk: Jwk) -> KeyStorageResult<KeyId> {
    if self.ctl.borrow_mut().call("insert") {
      return Err(kerr());
    }
    self.inner.insert(jwk).await
  }
  async fn sign(&self, key_id: &KeyId, data: &[u8], public_key: &Jwk) -> KeyStorageResult<Vec<u8>> {
    if self.ctl.borrow_mut().call("sign") {
      return Err(kerr());
    }
    self.inner.sign(key_id, data, public_key).await
  }
  async fn delete(&self, key_id: &KeyId) -> KeyStorageResult<()> {
    if self.ctl.borrow_mut().call("delete") {
      return Err(kerr());
    }
    self.inner.delete(key_id).await
  }
  async fn exists(&self, key_id: &KeyId) -> KeyStorageResult<bool> {
    if self.ctl.borrow_mut().call("exists") {
      return Err(kerr());
    }
    self.inner.exists(key_id).await
  }
}

#[async_trait(?Send)]
impl KeyIdStorage for FaultyKeyId {
  async fn insert_key_id(&self, method_digest: MethodDigest, key_id: KeyId) -> KeyIdStorageResult<()> {
    {
      let mut c = self.ctl.borrow_mut();
      if c.armed {
        c.inserted_digests.push(method_digest.clone());
      }
      if c.call("insert_key_id") {
        return Err(ierr());
      }
    }
    self.inner.insert_key_id(method_digest, key_id).await
  }
  async fn get_key_id(&self, method_digest: &MethodDigest) -> KeyIdStorageResult<KeyId> {
    if self.ctl.borrow_mut().call("get_key_id") {
      return Err(ierr());
    }
    self.inner.get_key_id(method_digest).await
  }
  async fn delete_key_id(&self, method_digest: &MethodDigest) -> KeyIdStorageResult<()> {
    if self.ctl.borrow_mut().call("delete_key_id") {
      return Err(ierr());
    }
    self.inner.delete_key_id(method_digest).await
  }
}

pub type FStorage = Storage<FaultyJwk, FaultyKeyId>;

pub struct World {
  pub storage: FStorage,
  pub ctl: Rc<RefCell<Ctl>>,
  pub jwk: Rc<JwkMemStore>,
  pub kid: Rc<KeyIdMemstore>,
}

pub fn world() -> World {
  let ctl = Rc::new(RefCell::new(Ctl::default()));
  let jwk = Rc::new(JwkMemStore::new());
  let kid = Rc::new(KeyIdMemstore::new());
  let storage = Storage::new(
    FaultyJwk { inner: jwk.clone(), ctl: ctl.clone() },
    FaultyKeyId { inner: kid.clone(), ctl: ctl.clone() },
  );
  World { storage, ctl, jwk, kid }
}

const TARGET: &str = "target";
const BYSTANDER: &str = "bystander";
const LATE: &str = "late-bystander";

fn rel_of(name: &str, rot: usize) -> MethodRelationship {
  // the model's relationships mapped onto real ones; two different mappings are used
  let table: [[MethodRelationship; 3]; 2] = [
    [MethodRelationship::Authentication, MethodRelationship::KeyAgreement, MethodRelationship::CapabilityInvocation],
    [MethodRelationship::AssertionMethod, MethodRelationship::CapabilityDelegation, MethodRelationship::KeyAgreement],
  ];
  let k = match name {
    "r1" => 0,
    "r2" => 1,
    "r3" => 2,
    o => tool_error(&format!("bad relationship {o}")),
  };
  table[rot % 2][k]
}
fn rel_json_name(r: MethodRelationship) -> &'static str {
  match r {
    MethodRelationship::Authentication => "authentication",
    MethodRelationship::AssertionMethod => "assertionMethod",
    MethodRelationship::KeyAgreement => "keyAgreement",
    MethodRelationship::CapabilityDelegation => "capabilityDelegation",
    MethodRelationship::CapabilityInvocation => "capabilityInvocation",
  }
}
fn scope_of(name: &str, rot: usize) -> MethodScope {
  if name == "vm" {
    MethodScope::VerificationMethod
  } else {
    MethodScope::VerificationRelationship(rel_of(name, rot))
  }
}

pub enum Doc {
  Core(CoreDocument),
  Iota(Box<IotaDocument>),
}
impl Doc {
  pub fn core(&self) -> &CoreDocument {
    match self {
      Doc::Core(d) => d,
      Doc::Iota(d) => d.core_document(),
    }
  }
  fn did(&self) -> CoreDID {
    self.core().id().clone()
  }
  fn target(&self) -> DIDUrl {
    self.did().to_url().join(format!("#{TARGET}")).unwrap()
  }
  async fn generate(&mut self, st: &FStorage, frag: &str, scope: MethodScope) -> Result<String, JwkStorageDocumentError> {
    match self {
      Doc::Core(d) => d.generate_method(st, JwkMemStore::ED25519_KEY_TYPE, JwsAlgorithm::EdDSA, Some(frag), scope).await,
      Doc::Iota(d) => d.generate_method(st, JwkMemStore::ED25519_KEY_TYPE, JwsAlgorithm::EdDSA, Some(frag), scope).await,
    }
  }
  async fn purge(&mut self, st: &FStorage, id: &DIDUrl) -> Result<(), JwkStorageDocumentError> {
    match self {
      Doc::Core(d) => d.purge_method(st, id).await,
      Doc::Iota(d) => d.purge_method(st, id).await,
    }
  }
  fn attach(&mut self, q: &str, r: MethodRelationship) -> Result<bool, String> {
    match self {
      Doc::Core(d) => d.attach_method_relationship(q, r).map_err(|e| e.to_string()),
      Doc::Iota(d) => d.attach_method_relationship(q, r).map_err(|e| e.to_string()),
    }
  }
  fn to_value(&self) -> Value {
    match self {
      Doc::Core(d) => serde_json::from_str(&d.to_json().unwrap()).unwrap(),
      Doc::Iota(d) => serde_json::from_str(&d.to_json().unwrap()).unwrap(),
    }
  }
  fn from_value(&self, v: Value) -> Result<Doc, String> {
    match self {
      Doc::Core(_) => CoreDocument::from_json_value(v).map(Doc::Core).map_err(|e| e.to_string()),
      Doc::Iota(_) => IotaDocument::from_json_value(v).map(|d| Doc::Iota(Box::new(d))).map_err(|e| e.to_string()),
    }
  }
  /// order-insensitive picture of methods, scopes and relationship references
  fn normalised(&self) -> Value {
    let d = self.core();
    let mut vm: Vec<String> = d.verification_method().iter().map(|m| m.to_json().unwrap()).collect();
    vm.sort();
    let mut rels = serde_json::Map::new();
    for (name, set) in [
      ("authentication", d.authentication()),
      ("assertionMethod", d.assertion_method()),
      ("keyAgreement", d.key_agreement()),
      ("capabilityDelegation", d.capability_delegation()),
      ("capabilityInvocation", d.capability_invocation()),
    ] {
      let mut es: Vec<String> = set
        .iter()
        .map(|r| match r {
          MethodRef::Embed(m) => format!("embed:{}", m.to_json().unwrap()),
          MethodRef::Refer(u) => format!("refer:{u}"),
        })
        .collect();
      es.sort();
      rels.insert(name.into(), json!(es));
    }
    let mut svc: Vec<String> = d.service().iter().map(|s| s.to_json().unwrap()).collect();
    svc.sort();
    json!({"vm": vm, "rel": rels, "svc": svc})
  }
}

fn new_doc(iota: bool) -> Doc {
  if iota {
    let did = IotaDID::parse("did:iota:smr:0xf29dd16310c2100fd1bf568b345fb1cc14d71caa3bd9b5ad735d2bd6d455ca3b").unwrap();
    Doc::Iota(Box::new(IotaDocument::new_with_id(did)))
  } else {
    Doc::Core(
      CoreDocument::builder(Default::default())
        .id(CoreDID::parse("did:example:holder").unwrap())
        .build()
        .unwrap(),
    )
  }
}

/// abstract position of the target id in the real document
fn abstract_doc(doc: &Doc, rot: usize, rels: &[&str]) -> Value {
  let d = doc.core();
  let t = doc.target();
  let mut tpos = "absent".to_string();
  let mut emb = "none".to_string();
  if d.verification_method().iter().any(|m| m.id() == &t) {
    tpos = "vm".into();
  }
  let mut refs = Vec::new();
  for r in rels {
    let rel = rel_of(r, rot);
    let set = match rel {
      MethodRelationship::Authentication => d.authentication(),
      MethodRelationship::AssertionMethod => d.assertion_method(),
      MethodRelationship::KeyAgreement => d.key_agreement(),
      MethodRelationship::CapabilityDelegation => d.capability_delegation(),
      MethodRelationship::CapabilityInvocation => d.capability_invocation(),
    };
    for e in set.iter() {
      match e {
        MethodRef::Embed(m) if m.id() == &t => {
          tpos = "emb".into();
          emb = r.to_string();
        }
        MethodRef::Refer(u) if u == &t => refs.push(r.to_string()),
        _ => {}
      }
    }
  }
  refs.sort();
  json!({"t": tpos, "embRel": emb, "refs": refs})
}

fn sorted_strs(v: &Value) -> Vec<String> {
  let mut x: Vec<String> = arr(v).iter().map(|e| s(e).to_string()).collect();
  x.sort();
  x
}
fn norm_abs(v: &Value) -> Value {
  json!({"t": v["t"], "embRel": v["embRel"], "refs": sorted_strs(&v["refs"])})
}

struct Setup {
  doc: Doc,
  w: World,
  kt: Option<KeyId>,
  dt: Option<MethodDigest>,
}

/// Builds the pre-state of a case on real objects.
fn setup(case: &Value, iota: bool, rot: usize) -> Result<Setup, String> {
  let w = world();
  let mut doc = new_doc(iota);
  let pre = &case["pre"]["doc"];
  // a bystander with its own key that no operation may touch
  block_on(doc.generate(&w.storage, BYSTANDER, MethodScope::VerificationMethod)).map_err(|e| format!("setup bystander: {e}"))?;
  let mut kt = None;
  let mut dt = None;
  match s(&pre["t"]) {
    "absent" => {}
    "vm" => {
      block_on(doc.generate(&w.storage, TARGET, MethodScope::VerificationMethod)).map_err(|e| format!("setup target: {e}"))?;
    }
    "emb" => {
      let sc = scope_of(s(&pre["embRel"]), rot);
      block_on(doc.generate(&w.storage, TARGET, sc)).map_err(|e| format!("setup target: {e}"))?;
    }
    o => tool_error(&format!("bad t {o}")),
  }
  // a second bystander that comes AFTER the target wherever the target sits, so that a "restored" document that merely has
  // the same entries in another order differs observably (equality, JSON form, anything signed over it)
  match s(&pre["t"]) {
    "vm" => {
      block_on(doc.generate(&w.storage, LATE, MethodScope::VerificationMethod)).map_err(|e| format!("setup late bystander: {e}"))?;
    }
    "emb" => {
      let sc = scope_of(s(&pre["embRel"]), rot);
      block_on(doc.generate(&w.storage, LATE, sc)).map_err(|e| format!("setup late bystander: {e}"))?;
    }
    _ => {}
  }
  if s(&pre["t"]) != "absent" {
    let m = doc.core().resolve_method(TARGET, None).ok_or("target missing after setup")?;
    let digest = MethodDigest::new(m).map_err(|e| e.to_string())?;
    kt = Some(block_on(w.kid.get_key_id(&digest)).map_err(|e| e.to_string())?);
    dt = Some(digest);
  }
  let refs = sorted_strs(&pre["refs"]);
  if s(&pre["t"]) == "vm" {
    for r in &refs {
      doc.attach(TARGET, rel_of(r, rot))?;
      doc.attach(LATE, rel_of(r, rot))?;
    }
  } else if !refs.is_empty() {
    // dangling references can only come from deserialisation
    let mut v = doc.to_value();
    let root = if iota { v.get_mut("doc").ok_or("no doc member")? } else { &mut v };
    let tid = doc.target().to_string();
    for r in &refs {
      let name = rel_json_name(rel_of(r, rot));
      let e = root.as_object_mut().unwrap().entry(name.to_string()).or_insert_with(|| json!([]));
      e.as_array_mut().unwrap().push(json!(tid));
    }
    doc = doc.from_value(v)?;
  }
  Ok(Setup { doc, w, kt, dt })
}

fn result_class<T>(r: &Result<T, JwkStorageDocumentError>) -> &'static str {
  match r {
    Ok(_) => "ok",
    Err(JwkStorageDocumentError::UndoOperationFailed { .. }) => "undo_failed",
    Err(_) => "err",
  }
}

fn replay_one(case: &Value, iota: bool, rot: usize) -> Result<Vec<(String, Value, Value)>, String> {
  let rels_all = ["r1", "r2", "r3"];
  let mut diffs = Vec::new();
  let Setup { mut doc, w, kt, dt } = setup(case, iota, rot)?;
  let pre_abs = abstract_doc(&doc, rot, &rels_all);
  if pre_abs != norm_abs(&case["pre"]["doc"]) {
    return Err(format!("harness could not build the pre-state: {pre_abs}"));
  }
  let pre_norm = doc.normalised();
  let pre_exact = doc.to_value();
  let by_key_count = block_on(w.jwk.count());
  let by_kid_count = block_on(w.kid.count());
  // arm the faults
  {
    let mut c = w.ctl.borrow_mut();
    c.armed = true;
    c.faults = arr(&case["faults"]).iter().map(|f| s(f).to_string()).collect();
  }
  let opname = s(&case["op"]["name"]);
  let mut target = doc.target();
  if case["op"]["form"] == json!("query") {
    // same DID and fragment, but a URL query: resolves like the target, is a different DID URL
    target.set_query(Some("versionId=1")).map_err(|e| e.to_string())?;
  }
  let class = if opname == "generate" {
    let r = block_on(doc.generate(&w.storage, TARGET, scope_of(s(&case["op"]["scope"]), rot)));
    result_class(&r)
  } else {
    let r = block_on(doc.purge(&w.storage, &target));
    result_class(&r)
  };
  let (log, generated, inserted) = {
    let mut c = w.ctl.borrow_mut();
    c.armed = false;
    (c.log.clone(), c.generated.clone(), c.inserted_digests.clone())
  };
  // ---- observe the post-state through the plain stores ----
  let post_abs = abstract_doc(&doc, rot, &rels_all);
  let mut keys = Vec::new();
  if let Some(k) = &kt {
    if block_on(w.jwk.exists(k)).map_err(|e| e.to_string())? {
      keys.push("kT");
    }
  }
  let kn_alive = generated.iter().any(|k| block_on(w.jwk.exists(k)).unwrap_or(false));
  if kn_alive {
    keys.push("kN");
  }
  let mut kids = Vec::new();
  if let Some(d) = &dt {
    if block_on(w.kid.get_key_id(d)).is_ok() {
      kids.push("dT");
    }
  }
  let dn_alive = inserted.iter().any(|d| Some(d) != dt.as_ref() && block_on(w.kid.get_key_id(d)).is_ok());
  if dn_alive {
    kids.push("dN");
  }
  let calls: Vec<Value> = calls_json(&log);
  let observed = json!({"result": class, "calls": calls,
    "post": {"doc": post_abs, "keys": keys, "kids": kids}});
  let expected = json!({"result": case["result"], "calls": case["calls"],
    "post": {"doc": norm_abs(&case["post"]["doc"]), "keys": sorted_strs(&case["post"]["keys"]).iter().rev().collect::<Vec<_>>(),
             "kids": sorted_strs(&case["post"]["kids"]).iter().rev().collect::<Vec<_>>()}});
  // The reference spec is code-shaped (call order, state left behind by a failed undo); the PROPERTY is weaker. A deviation
  // from the reference alone is reported as drift; the verdict comes from the direct statement of the property below.
  let drift = if observed != expected { Some((expected.clone(), observed.clone())) } else { None };
  // ---- direct statement of the property on the real objects ----
  let total_keys = block_on(w.jwk.count());
  let total_kids = block_on(w.kid.count());
  let fired = log.iter().filter(|(_, f)| *f).count();
  let pre_keys = sorted_strs(&case["pre"]["keys"]);
  let pre_kids = sorted_strs(&case["pre"]["kids"]);
  let has = |v: &Vec<&str>, x: &str| v.iter().any(|y| *y == x);
  let has_s = |v: &Vec<String>, x: &str| v.iter().any(|y| y == x);
  match class {
    "err" => {
      if doc.normalised() != pre_norm {
        diffs.push(("err_changed_document".into(), pre_norm.clone(), doc.normalised()));
      } else if doc.to_value() != pre_exact {
        // the same entries in another order: the document no longer equals the one the caller had
        diffs.push(("err_reordered_document".into(), pre_exact.clone(), doc.to_value()));
      }
      if total_keys != by_key_count || total_kids != by_kid_count
        || has(&keys, "kT") != has_s(&pre_keys, "kT") || has(&kids, "dT") != has_s(&pre_kids, "dT")
        || has(&keys, "kN") || has(&kids, "dN")
      {
        diffs.push(("err_changed_stores".into(), json!({"counts": [by_key_count, by_kid_count], "keys": pre_keys, "kids": pre_kids}),
          json!({"counts": [total_keys, total_kids], "keys": keys, "kids": kids})));
      }
    }
    "ok" if opname == "generate" => {
      // the method resolves, its key id is recorded and signing with it works
      let jws = block_on(doc.core().create_jws(&w.storage, TARGET, b"payload", &JwsSignatureOptions::default()));
      match jws {
        Err(e) => diffs.push(("ok_but_cannot_sign".into(), json!("signing works"), json!(e.to_string()))),
        Ok(j) => {
          if doc.core().verify_jws(j.as_str(), None, &EdDSAJwsVerifier::default(), &JwsVerificationOptions::default()).is_err() {
            diffs.push(("ok_but_cannot_verify".into(), json!("verifies"), json!("verification failed")));
          }
        }
      }
      if total_keys != by_key_count + 1 || total_kids != by_kid_count + 1 {
        diffs.push(("ok_store_counts".into(), json!([by_key_count + 1, by_kid_count + 1]), json!([total_keys, total_kids])));
      }
      // the pre-existing references to the new id are still there (and now resolve to the new method)
      let exp_doc = norm_abs(&case["post"]["doc"]);
      if post_abs != exp_doc {
        diffs.push(("ok_document".into(), exp_doc, post_abs.clone()));
      }
    }
    "ok" => {
      // after a purge all three are gone: the method (and the references to it), its key, its key id
      let absent = post_abs["t"] == json!("absent") && post_abs["refs"].as_array().map(|a| a.is_empty()).unwrap_or(false);
      if !absent || doc.core().resolve_method(TARGET, None).is_some() || total_keys != by_key_count - 1 || total_kids != by_kid_count - 1
        || has(&keys, "kT") || has(&kids, "dT")
      {
        diffs.push(("purge_incomplete".into(), json!("method, its references, key and key id gone"),
          json!({"doc": post_abs, "keys": keys, "kids": kids, "counts": [total_keys, total_kids]})));
      }
    }
    "undo_failed" => {
      // the only exception the property allows -- and only when a storage call really failed
      if fired == 0 {
        diffs.push(("undo_failed_without_fault".into(), json!("a failed storage call"), json!(calls_json(&log))));
      }
    }
    other => diffs.push(("result_class".into(), json!("ok | err | undo_failed"), json!(other))),
  }
  if diffs.is_empty() {
    if let Some((e, o)) = drift {
      diffs.push(("~drift".into(), e, o));
    }
  }
  // the bystander is never affected
  let by = doc.core().resolve_method(BYSTANDER, None).ok_or("bystander method lost")?;
  let bd = MethodDigest::new(by).map_err(|e| e.to_string())?;
  let bk = block_on(w.kid.get_key_id(&bd)).map_err(|_| "bystander key id lost".to_string())?;
  if !block_on(w.jwk.exists(&bk)).unwrap_or(false) {
    return Err("bystander key lost".into());
  }
  Ok(diffs)
}

fn calls_json(log: &[(String, bool)]) -> Vec<Value> {
  log.iter().map(|(n, f)| json!({"name": n, "failed": f})).collect()
}

pub fn replay(cases: &[Value], rep: &mut Report) {
  for (ci, case) in cases.iter().enumerate() {
    note_case(case);
    let opname = s(&case["op"]["name"]).to_string();
    for iota in [false, true] {
      let rot = ci + iota as usize;
      rep.eval();
      let ctx = json!({"case": {"op": case["op"], "faults": case["faults"], "pre": case["pre"]}, "document": if iota { "IotaDocument" } else { "CoreDocument" }, "mapping": rot % 2});
      match guarded(|| replay_one(case, iota, rot)) {
        Err(p) => rep.mismatch(&format!("storage_txn/{opname}/panic"), &ctx, json!("no panic"), json!(p), "panic"),
        Ok(Err(e)) => rep.mismatch(&format!("storage_txn/{opname}/harness"), &ctx, json!("pre-state constructible, bystander intact"), json!(e), ""),
        Ok(Ok(diffs)) => {
          for (k, exp, obs) in diffs {
            if k == "~drift" {
              rep.reference_drift(&format!("storage_txn/{opname}/reference"), &ctx, exp, obs);
              continue;
            }
            rep.mismatch(&format!("storage_txn/{opname}/{k}"), &ctx, exp, obs, "all-or-nothing under storage faults");
          }
        }
      }
    }
    rep.nontrivial(format!("{}|{}|{}", case["op"], case["faults"], case["pre"]));
    if !arr(&case["faults"]).is_empty() {
      rep.sample(json!({"op": case["op"], "faults": case["faults"], "pre": case["pre"]["doc"], "result": case["result"], "calls": case["calls"]}));
    }
  }
}
