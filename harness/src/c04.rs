//! C04: CoreDocument against spec/Document.tla.
//!
//! Abstract ids are triples [did, fragment, query]; the concretisation maps them to real DID URLs, the model's
//! relationships onto order-preserving choices of the five real relationships, and a location [loc, idx] onto the
//! entry at that position of the real document.
use crate::util::*;
use identity_core::common::Url;
use identity_core::convert::FromJson;
use identity_core::convert::ToJson;
use identity_did::CoreDID;
use identity_did::DIDUrl;
use identity_did::DID;
use identity_document::document::CoreDocument;
use identity_document::service::Service;
use identity_verification::MethodData;
use identity_verification::MethodRef;
use identity_verification::MethodRelationship;
use identity_verification::MethodScope;
use identity_verification::MethodType;
use identity_verification::VerificationMethod;
use rand::Rng;
use serde_json::json;
use serde_json::Value;

pub const REAL_RELS: [MethodRelationship; 5] = [
  MethodRelationship::Authentication,
  MethodRelationship::AssertionMethod,
  MethodRelationship::KeyAgreement,
  MethodRelationship::CapabilityDelegation,
  MethodRelationship::CapabilityInvocation,
];
pub const REAL_REL_JSON: [&str; 5] = [
  "authentication",
  "assertionMethod",
  "keyAgreement",
  "capabilityDelegation",
  "capabilityInvocation",
];

/// model relationship name -> index into REAL_RELS
pub type RelMap = Vec<(String, usize)>;

/// All strictly increasing k-subsets of 0..5 (scan order preserved).
fn rel_maps(names: &[String]) -> Vec<RelMap> {
  fn rec(start: usize, k: usize, cur: &mut Vec<usize>, out: &mut Vec<Vec<usize>>) {
    if cur.len() == k {
      out.push(cur.clone());
      return;
    }
    for x in start..5 {
      cur.push(x);
      rec(x + 1, k, cur, out);
      cur.pop();
    }
  }
  let mut combos = Vec::new();
  rec(0, names.len(), &mut Vec::new(), &mut combos);
  combos
    .into_iter()
    .map(|c| names.iter().cloned().zip(c).collect())
    .collect()
}

pub fn did_of(d: &str) -> CoreDID {
  CoreDID::parse(format!("did:example:{d}")).unwrap()
}
pub fn url_of(id: &Value) -> DIDUrl {
  let a = arr(id);
  let mut u = did_of(s(&a[0])).to_url();
  let q = a.get(2).map(s).unwrap_or("");
  if !q.is_empty() {
    u.set_query(Some(&format!("{q}=1"))).unwrap();
  }
  u.set_fragment(Some(s(&a[1]))).unwrap();
  u
}
/// real DID URL -> abstract triple
pub fn abs_id(u: &DIDUrl) -> Value {
  let d = u.did().method_id().to_string();
  let f = u.fragment().unwrap_or("").to_string();
  let q = u.query().map(|q| q.trim_end_matches("=1").to_string()).unwrap_or_default();
  json!([d, f, q])
}

pub fn method(id: &DIDUrl) -> VerificationMethod {
  VerificationMethod::builder(Default::default())
    .id(id.clone())
    .controller(id.did().clone())
    .type_(MethodType::ED25519_VERIFICATION_KEY_2018)
    .data(MethodData::new_multibase(id.to_string().as_bytes()))
    .build()
    .unwrap()
}
pub fn service(id: &DIDUrl) -> Service {
  Service::builder(Default::default())
    .id(id.clone())
    .type_("LinkedDomains")
    .service_endpoint(Url::parse("https://example.com/").unwrap())
    .build()
    .unwrap()
}

fn rel_idx(map: &RelMap, name: &str) -> usize {
  map
    .iter()
    .find(|(n, _)| n == name)
    .map(|(_, i)| *i)
    .unwrap_or_else(|| tool_error(&format!("unknown relationship {name}")))
}
fn scope_of(map: &RelMap, sc: &str) -> Option<MethodScope> {
  match sc {
    "none" => None,
    "vm" => Some(MethodScope::VerificationMethod),
    r => Some(MethodScope::VerificationRelationship(REAL_RELS[rel_idx(map, r)])),
  }
}
fn rel_set<'a>(doc: &'a CoreDocument, i: usize) -> &'a identity_core::common::OrderedSet<MethodRef> {
  match i {
    0 => doc.authentication(),
    1 => doc.assertion_method(),
    2 => doc.key_agreement(),
    3 => doc.capability_delegation(),
    _ => doc.capability_invocation(),
  }
}

/// JSON text of the abstract document under a relationship mapping (the deserialisation path).
pub fn doc_json(d: &Value, map: &RelMap) -> Value {
  let mut o = serde_json::Map::new();
  o.insert("id".into(), json!(did_of("self").to_string()));
  let vm: Vec<Value> = arr(&d["vm"])
    .iter()
    .map(|id| serde_json::to_value(method(&url_of(id))).unwrap())
    .collect();
  if !vm.is_empty() {
    o.insert("verificationMethod".into(), Value::Array(vm));
  }
  for (name, ri) in map {
    let es: Vec<Value> = arr(&d["rel"][name])
      .iter()
      .map(|e| {
        let u = url_of(&e["id"]);
        if b(&e["emb"]) {
          serde_json::to_value(method(&u)).unwrap()
        } else {
          json!(u.to_string())
        }
      })
      .collect();
    if !es.is_empty() {
      o.insert(REAL_REL_JSON[*ri].into(), Value::Array(es));
    }
  }
  let svc: Vec<Value> = arr(&d["svc"])
    .iter()
    .map(|id| serde_json::to_value(service(&url_of(id))).unwrap())
    .collect();
  if !svc.is_empty() {
    o.insert("service".into(), Value::Array(svc));
  }
  Value::Object(o)
}

pub fn build_from_json(d: &Value, map: &RelMap) -> Result<CoreDocument, String> {
  CoreDocument::from_json_value(doc_json(d, map)).map_err(|e| format!("from_json: {e}"))
}

pub fn build_with_builder(d: &Value, map: &RelMap) -> Result<CoreDocument, String> {
  let mut bld = CoreDocument::builder(Default::default()).id(did_of("self"));
  for id in arr(&d["vm"]) {
    bld = bld.verification_method(method(&url_of(id)));
  }
  for (name, ri) in map {
    for e in arr(&d["rel"][name]) {
      let u = url_of(&e["id"]);
      let r: MethodRef = if b(&e["emb"]) { MethodRef::Embed(method(&u)) } else { MethodRef::Refer(u) };
      bld = match ri {
        0 => bld.authentication(r),
        1 => bld.assertion_method(r),
        2 => bld.key_agreement(r),
        3 => bld.capability_delegation(r),
        _ => bld.capability_invocation(r),
      };
    }
  }
  for id in arr(&d["svc"]) {
    bld = bld.service(service(&url_of(id)));
  }
  bld.build().map_err(|e| format!("builder: {e}"))
}

/// real document -> abstract document (only the mapped relationships are expected to be populated)
pub fn project(doc: &CoreDocument, map: &RelMap) -> Value {
  let vm: Vec<Value> = doc.verification_method().iter().map(|m| abs_id(m.id())).collect();
  let mut rel = serde_json::Map::new();
  for (name, ri) in map {
    let es: Vec<Value> = rel_set(doc, *ri)
      .iter()
      .map(|r| json!({"id": abs_id(r.id()), "emb": matches!(r, MethodRef::Embed(_))}))
      .collect();
    rel.insert(name.clone(), Value::Array(es));
  }
  let svc: Vec<Value> = doc.service().iter().map(|m| abs_id(m.id())).collect();
  json!({"vm": vm, "rel": rel, "svc": svc})
}

fn unmapped_nonempty(doc: &CoreDocument, map: &RelMap) -> bool {
  (0..5).any(|i| !map.iter().any(|(_, j)| *j == i) && !rel_set(doc, i).is_empty())
}

/// The three clauses of the property, evaluated directly on the real document.
pub fn id_constraints(doc: &CoreDocument) -> Option<String> {
  let mut embedded: Vec<&DIDUrl> = doc.verification_method().iter().map(|m| m.id()).collect();
  let mut refs: Vec<&DIDUrl> = Vec::new();
  for r in doc.verification_relationships() {
    match r {
      MethodRef::Embed(m) => embedded.push(m.id()),
      MethodRef::Refer(u) => refs.push(u),
    }
  }
  for (i, a) in embedded.iter().enumerate() {
    if embedded.iter().skip(i + 1).any(|b| b == a) {
      return Some(format!("two methods with id {a}"));
    }
  }
  let vm_ids: Vec<&DIDUrl> = doc.verification_method().iter().map(|m| m.id()).collect();
  for r in &refs {
    if embedded.contains(r) && !vm_ids.contains(r) {
      return Some(format!("reference {r} aliases an embedded method"));
    }
  }
  for sv in doc.service().iter() {
    if embedded.contains(&sv.id()) || refs.contains(&sv.id()) {
      return Some(format!("service id {} equals a method id", sv.id()));
    }
  }
  None
}

pub fn roundtrip(doc: &CoreDocument) -> Option<String> {
  match doc.to_json().map_err(|e| e.to_string()).and_then(|j| CoreDocument::from_json(&j).map_err(|e| e.to_string())) {
    Ok(back) if &back == doc => None,
    Ok(_) => Some("to_json -> from_json yields a different document".into()),
    Err(e) => Some(format!("to_json -> from_json fails: {e}")),
  }
}

fn query_strings(q: &Value) -> Vec<String> {
  let a = arr(q);
  let (d, f) = (s(&a[0]), s(&a[1]));
  if d.is_empty() {
    vec![format!("#{f}"), f.to_string()]
  } else {
    vec![format!("did:example:{d}#{f}")]
  }
}

/// Applies a mutation; returns the spec-shaped result.
pub fn apply(doc: &mut CoreDocument, map: &RelMap, op: &Value, qform: usize) -> Value {
  match s(&op["name"]) {
    "insert_method" => {
      let m = method(&url_of(&op["id"]));
      let scope = scope_of(map, s(&op["scope"])).unwrap();
      match doc.insert_method(m, scope) {
        Ok(()) => json!({"ok": true}),
        Err(_) => json!({"ok": false, "err": "exists"}),
      }
    }
    "remove_method" => {
      let u = url_of(&op["id"]);
      match doc.remove_method_and_scope(&u) {
        Some((m, scope)) => {
          if m.id() != &u {
            return json!({"ok": true, "diverged": "removed a method with another id"});
          }
          let sc = match scope {
            MethodScope::VerificationMethod => "vm".to_string(),
            MethodScope::VerificationRelationship(r) => {
              let i = REAL_RELS.iter().position(|x| *x == r).unwrap();
              map.iter().find(|(_, j)| *j == i).map(|(n, _)| n.clone()).unwrap_or_else(|| format!("unmapped:{i}"))
            }
          };
          json!({"ok": true, "scope": sc})
        }
        None => json!({"ok": false, "err": "notfound"}),
      }
    }
    "insert_service" => match doc.insert_service(service(&url_of(&op["id"]))) {
      Ok(()) => json!({"ok": true}),
      Err(_) => json!({"ok": false, "err": "exists"}),
    },
    "remove_service" => match doc.remove_service(&url_of(&op["id"])) {
      Some(_) => json!({"ok": true}),
      None => json!({"ok": false, "err": "notfound"}),
    },
    n @ ("attach" | "detach") => {
      let qs = query_strings(&op["q"]);
      let q = &qs[qform % qs.len()];
      let r = REAL_RELS[rel_idx(map, s(&op["r"]))];
      let out = if n == "attach" {
        doc.attach_method_relationship(q, r)
      } else {
        doc.detach_method_relationship(q, r)
      };
      match out {
        Ok(v) => json!({"ok": true, "v": v}),
        Err(identity_document::Error::InvalidMethodEmbedded) => json!({"ok": false, "err": "embedded"}),
        Err(identity_document::Error::MethodNotFound) => json!({"ok": false, "err": "notfound"}),
        Err(e) => json!({"ok": false, "err": format!("other: {e}")}),
      }
    }
    other => tool_error(&format!("unknown document op {other}")),
  }
}

/// Is the real observation a behaviour the property allows, given the spec's prediction?
/// Exact agreement, or a refusal that leaves the document unchanged (the property never forces acceptance).
fn conforms(case: &Value, res: &Value, post: &Value) -> (bool, bool) {
  if res == &case["res"] && post == &case["post"] {
    return (true, false);
  }
  let refused = res["ok"] == json!(false);
  if refused && post == &case["pre"] {
    return (true, true);
  }
  (false, false)
}

fn expected_entry<'a>(doc: &'a CoreDocument, map: &RelMap, r: &Value) -> Option<&'a VerificationMethod> {
  let idx = i(&r["idx"]) as usize;
  match s(&r["loc"]) {
    "none" => None,
    "vm" => doc.verification_method().get(idx - 1),
    rel => match rel_set(doc, rel_idx(map, rel)).get(idx - 1) {
      Some(MethodRef::Embed(m)) => Some(m),
      // the real document deviates from the model here; under `guarded` this surfaces as a mismatch of the case
      _ => panic!("the model predicts an embedded method at {rel}[{idx}] where the real document has none"),
    },
  }
}

/// All resolution queries of a "state" case against the real document.
fn check_resolution(doc: &CoreDocument, map: &RelMap, case: &Value, rep: &mut Report) {
  for row in arr(&case["methods"]) {
    let scope = scope_of(map, s(&row["scope"]));
    let want = expected_entry(doc, map, &row["r"]);
    for q in query_strings(&row["q"]) {
      rep.count("resolution_queries");
      let got = doc.resolve_method(q.as_str(), scope);
      let same = match (want, got) {
        (None, None) => true,
        (Some(a), Some(b)) => std::ptr::eq(a, b),
        _ => false,
      };
      if !same {
        rep.mismatch(
          "document/resolve_method",
          &json!({"doc": case["doc"], "query": q, "scope": row["scope"], "rel_map": map}),
          row["r"].clone(),
          json!(got.map(|m| m.id().to_string())),
          "resolve_method returned a different entry than the set-of-entries model",
        );
      }
      // the mutable variant must find the same entry
      let mut copy = doc.clone();
      let got_mut = copy.resolve_method_mut(q.as_str(), scope).map(|m| m.id().clone());
      if got_mut.as_ref() != got.map(|m| m.id()) {
        rep.mismatch(
          "document/resolve_method_mut",
          &json!({"doc": case["doc"], "query": q, "scope": row["scope"], "rel_map": map}),
          json!(got.map(|m| m.id().to_string())),
          json!(got_mut.map(|m| m.to_string())),
          "resolve_method_mut disagrees with resolve_method",
        );
      }
    }
  }
  for row in arr(&case["services"]) {
    let idx = i(&row["idx"]) as usize;
    let want = if idx == 0 { None } else { doc.service().get(idx - 1) };
    for q in query_strings(&row["q"]) {
      rep.count("resolution_queries");
      let got = doc.resolve_service(q.as_str());
      let same = match (want, got) {
        (None, None) => true,
        (Some(a), Some(b)) => std::ptr::eq(a, b),
        _ => false,
      };
      if !same {
        rep.mismatch(
          "document/resolve_service",
          &json!({"doc": case["doc"], "query": q, "rel_map": map}),
          row["idx"].clone(),
          json!(got.map(|m| m.id().to_string())),
          "",
        );
      }
    }
  }
  // methods(scope) lists exactly the entries that resolve in that scope, in order
  let all = doc.methods(None).len();
  let emb = doc.verification_relationships().filter(|r| matches!(r, MethodRef::Embed(_))).count();
  if all != doc.verification_method().len() + emb {
    rep.mismatch("document/methods", &case["doc"], json!(doc.verification_method().len() + emb), json!(all), "methods(None) count");
  }
}

fn rel_names(d: &Value) -> Vec<String> {
  let mut names: Vec<String> = d["rel"].as_object().unwrap().keys().cloned().collect();
  names.sort();
  names
}

fn replay_chunk(cases: &[Value], rep: &mut Report) {
  for (ci, case) in cases.iter().enumerate() {
    note_case(case);
    let kind = s(&case["kind"]);
    let d0 = if kind == "state" { &case["doc"] } else { &case["pre"] };
    let maps = rel_maps(&rel_names(d0));
    if kind == "state" {
      // every state under 3 relationship mappings; deserialised and built documents must agree
      for k in 0..3 {
        let map = &maps[(ci * 3 + k) % maps.len()];
        rep.eval();
        let out = guarded(|| {
          let a = build_from_json(d0, map)?;
          let bdoc = build_with_builder(d0, map)?;
          if a != bdoc {
            return Err("document built with the builder differs from the deserialised one".to_string());
          }
          Ok(a)
        });
        match out {
          Err(p) => rep.mismatch("document/state/panic", case, json!("no panic"), json!(p), "panic"),
          Ok(Err(e)) => rep.mismatch("document/state/build", &json!({"doc": d0, "rel_map": map}), json!("valid document is accepted"), json!(e), "a document the spec calls valid was rejected"),
          Ok(Ok(doc)) => {
            if let Some(e) = id_constraints(&doc) {
              rep.mismatch("document/state/ids", &json!({"doc": d0}), json!("id constraints"), json!(e), "");
            }
            if let Some(e) = roundtrip(&doc) {
              rep.mismatch("document/state/roundtrip", &json!({"doc": d0}), json!("round trip"), json!(e), "");
            }
            if project(&doc, map) != *d0 {
              rep.mismatch("document/state/projection", &json!({"doc": d0}), d0.clone(), project(&doc, map), "harness projection");
            }
            let r = guarded(|| {
              let mut local = Report::new();
              check_resolution(&doc, map, case, &mut local);
              local
            });
            match r {
              Ok(local) => rep.merge(local),
              Err(p) => rep.mismatch("document/resolve/panic", case, json!("no panic"), json!(p), "panic"),
            }
          }
        }
      }
      rep.nontrivial(format!("state:{}", d0));
      continue;
    }
    if kind == "load" {
      // the gate: accepted only if valid, by deserialisation and by the builder alike, under three relationship mappings
      let valid = b(&case["valid"]);
      for k in 0..3 {
        let map = &maps[(ci * 3 + k) % maps.len()];
        rep.eval();
        let out = guarded(|| (build_from_json(d0, map), build_with_builder(d0, map)));
        match out {
          Err(p) => rep.mismatch("document/load/panic", case, json!("no panic"), json!(p), "panic"),
          Ok((a, bld)) => {
            for (how, r) in [("from_json", &a), ("builder", &bld)] {
              match (r, valid) {
                (Ok(doc), false) => rep.mismatch(
                  &format!("document/load/invalid_document_accepted/{how}"),
                  &json!({"doc": d0, "rel_map": map}),
                  json!("refused: duplicate method id, reference aliasing an embedded method, or service id equal to a method id"),
                  json!(id_constraints(doc).unwrap_or_else(|| "accepted".into())),
                  "",
                ),
                (Err(e), true) => rep.mismatch(&format!("document/load/valid_document_refused/{how}"), &json!({"doc": d0, "rel_map": map}), json!("accepted"), json!(e), ""),
                (Ok(doc), true) => {
                  if project(doc, map) != *d0 {
                    rep.mismatch("document/load/projection", &json!({"doc": d0}), d0.clone(), project(doc, map), "");
                  }
                }
                (Err(_), false) => {}
              }
            }
          }
        }
      }
      rep.nontrivial(format!("load:{}", d0));
      continue;
    }
    if kind != "step" {
      continue;
    }
    let op = &case["op"];
    let name = s(&op["name"]).to_string();
    for k in 0..2 {
      let map = &maps[(ci * 2 + k) % maps.len()];
      rep.eval();
      let out = guarded(|| {
        let mut doc = build_from_json(d0, map)?;
        let res = apply(&mut doc, map, op, ci + k);
        let post = project(&doc, map);
        let mut notes = Vec::new();
        if unmapped_nonempty(&doc, map) {
          notes.push("an unrelated relationship set was written".to_string());
        }
        if let Some(e) = id_constraints(&doc) {
          notes.push(e);
        }
        if let Some(e) = roundtrip(&doc) {
          notes.push(e);
        }
        Ok::<_, String>((res, post, notes))
      });
      let ctx = json!({"case": case, "rel_map": map});
      match out {
        Err(p) => rep.mismatch(&format!("document/{name}/panic"), &ctx, json!("no panic"), json!(p), "panic"),
        Ok(Err(e)) => rep.mismatch(&format!("document/{name}/build"), &ctx, json!("pre-state accepted"), json!(e), ""),
        Ok(Ok((res, post, notes))) => {
          let (ok, lenient) = conforms(case, &res, &post);
          if lenient {
            rep.count("refusals_where_spec_accepts");
          }
          if !ok {
            rep.mismatch(
              &format!("document/{name}"),
              &ctx,
              json!({"res": case["res"], "post": case["post"]}),
              json!({"res": res, "post": post}),
              "result or resulting document differs from the set-of-entries model",
            );
          }
          for n in notes {
            rep.mismatch(&format!("document/{name}/invariant"), &ctx, json!("id constraints + JSON round trip"), json!(n), "");
          }
        }
      }
    }
    if case["pre"] != case["post"] || case["res"]["ok"] == json!(false) {
      rep.nontrivial(format!("step:{}|{}", case["pre"], op));
    }
    rep.sample(json!({"pre": case["pre"], "op": op, "res": case["res"]}));
  }
}

pub fn replay(cases: &[Value], rep: &mut Report) {
  par_replay(cases, rep, replay_chunk);
}

// ---------------------------------------------------------------------------------------------
// Direction V
// ---------------------------------------------------------------------------------------------

fn full_map() -> RelMap {
  REAL_REL_JSON.iter().enumerate().map(|(i, n)| (n.to_string(), i)).collect()
}

fn rand_id(r: &mut impl Rng) -> Value {
  let d = ["self", "other"][r.gen_range(0..2)];
  let f = ["a", "b", "c"][r.gen_range(0..3)];
  let q = if r.gen_bool(0.2) { "v" } else { "" };
  json!([d, f, q])
}
fn rand_query(r: &mut impl Rng) -> Value {
  let d = ["self", "other", ""][r.gen_range(0..3)];
  let f = ["a", "b", "c"][r.gen_range(0..3)];
  json!([d, f])
}

/// Random starting document: valid by construction of the generator only when the library accepts it.
fn rand_start(r: &mut impl Rng, map: &RelMap) -> (Value, CoreDocument) {
  loop {
    let mut rel = serde_json::Map::new();
    for (n, _) in map {
      let k = if r.gen_bool(0.3) { r.gen_range(0..3) } else { 0 };
      let es: Vec<Value> = (0..k).map(|_| json!({"id": rand_id(r), "emb": r.gen_bool(0.4)})).collect();
      rel.insert(n.clone(), Value::Array(es));
    }
    let vm: Vec<Value> = (0..r.gen_range(0..3)).map(|_| rand_id(r)).collect();
    let svc: Vec<Value> = (0..r.gen_range(0..2)).map(|_| rand_id(r)).collect();
    let d = json!({"vm": vm, "rel": rel, "svc": svc});
    if let Ok(doc) = build_from_json(&d, map) {
      // duplicates inside one set are rejected by from_json, so the projection equals d
      return (project(&doc, map), doc);
    }
  }
}

pub fn record(seed: u64, n: u64, out: &mut TraceOut) {
  let mut r = rng(seed);
  let map = full_map();
  let mut left = n;
  while left > 0 {
    let (d, mut doc) = rand_start(&mut r, &map);
    out.event(json!({"op": {"name": "reset"}, "res": {"ok": true}, "post": d}));
    let seg = left.min(r.gen_range(50..200));
    left -= seg;
    for step in 0..seg {
      let rels = REAL_REL_JSON;
      let op = match r.gen_range(0..100) {
        0..=27 => {
          let sc = if r.gen_bool(0.4) { "vm" } else { rels[r.gen_range(0..5)] };
          json!({"name": "insert_method", "id": rand_id(&mut r), "scope": sc})
        }
        28..=42 => json!({"name": "remove_method", "id": rand_id(&mut r)}),
        43..=52 => json!({"name": "insert_service", "id": rand_id(&mut r)}),
        53..=59 => json!({"name": "remove_service", "id": rand_id(&mut r)}),
        60..=74 => json!({"name": "attach", "q": rand_query(&mut r), "r": rels[r.gen_range(0..5)]}),
        75..=84 => json!({"name": "detach", "q": rand_query(&mut r), "r": rels[r.gen_range(0..5)]}),
        85..=95 => {
          let sc = ["none", "vm", rels[r.gen_range(0..5)]][r.gen_range(0..3)];
          json!({"name": "resolve", "q": rand_query(&mut r), "scope": sc})
        }
        _ => json!({"name": "resolve_service", "q": rand_query(&mut r)}),
      };
      let name = s(&op["name"]).to_string();
      let res = guarded(|| match name.as_str() {
        "resolve" => {
          let qs = query_strings(&op["q"]);
          let q = &qs[step as usize % qs.len()];
          match doc.resolve_method(q.as_str(), scope_of(&map, s(&op["scope"]))) {
            None => json!({"loc": "none", "idx": 0}),
            Some(m) => locate(&doc, &map, m),
          }
        }
        "resolve_service" => {
          let qs = query_strings(&op["q"]);
          let q = &qs[step as usize % qs.len()];
          match doc.resolve_service(q.as_str()) {
            None => json!({"idx": 0}),
            Some(sv) => json!({"idx": doc.service().iter().position(|x| std::ptr::eq(x, sv)).map(|p| p + 1).unwrap_or(99)}),
          }
        }
        _ => apply(&mut doc, &map, &op, step as usize),
      })
      .unwrap_or_else(|p| json!({"panic": p}));
      let rt = roundtrip(&doc).is_none();
      out.event(json!({"op": op, "res": res, "post": project(&doc, &map), "roundtrip": rt}));
    }
  }
}

/// position of a method reference inside the real document, as the spec names it
fn locate(doc: &CoreDocument, map: &RelMap, m: &VerificationMethod) -> Value {
  if let Some(p) = doc.verification_method().iter().position(|x| std::ptr::eq(x, m)) {
    return json!({"loc": "vm", "idx": p + 1});
  }
  for (n, ri) in map {
    for (p, e) in rel_set(doc, *ri).iter().enumerate() {
      if let MethodRef::Embed(x) = e {
        if std::ptr::eq(x, m) {
          return json!({"loc": n, "idx": p + 1});
        }
      }
    }
  }
  json!({"loc": "elsewhere", "idx": 0})
}
