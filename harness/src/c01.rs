//! C01: JWS verification binds the signature to exactly the bytes received — spec/JwsVerify.tla rows realised as real
//! tokens with real Ed25519 / P-256 / secp256k1 signatures, decoded with a RECORDING verifier and with the shipped ones.
use crate::util::*;
use identity_ecdsa_verifier::EcDSAJwsVerifier;
use identity_eddsa_verifier::EdDSAJwsVerifier;
use identity_jose::jwk::Jwk;
use identity_jose::jwk::JwkParamsEc;
use identity_jose::jwk::JwkParamsOkp;
use identity_jose::jws::Decoder;
use identity_jose::jws::JwsAlgorithm;
use identity_jose::jws::JwsValidationItem;
use identity_jose::jws::JwsVerifier;
use identity_jose::jws::SignatureVerificationError;
use identity_jose::jws::SignatureVerificationErrorKind;
use identity_jose::jws::VerificationInput;
use identity_jose::jwu::decode_b64;
use identity_jose::jwu::encode_b64;
use serde_json::json;
use serde_json::Value;
use std::cell::RefCell;

pub struct Keys {
  ed: crypto::signatures::ed25519::SecretKey,
  p256: p256::ecdsa::SigningKey,
  k256: k256::ecdsa::SigningKey,
}

pub fn keys() -> Keys {
  Keys {
    ed: crypto::signatures::ed25519::SecretKey::from_bytes(&[0x42u8; 32]),
    p256: p256::ecdsa::SigningKey::from_slice(&[0x17u8; 32]).unwrap(),
    k256: k256::ecdsa::SigningKey::from_slice(&[0x23u8; 32]).unwrap(),
  }
}

impl Keys {
  pub fn sign(&self, alg: &str, msg: &[u8]) -> Vec<u8> {
    match alg {
      "EdDSA" => self.ed.sign(msg).to_bytes().to_vec(),
      "ES256" => {
        use p256::ecdsa::signature::Signer;
        let s: p256::ecdsa::Signature = self.p256.sign(msg);
        s.to_bytes().to_vec()
      }
      "ES256K" => {
        use k256::ecdsa::signature::Signer;
        let s: k256::ecdsa::Signature = self.k256.sign(msg);
        s.to_bytes().to_vec()
      }
      a => tool_error(&format!("bad alg {a}")),
    }
  }
  pub fn public_jwk(&self, alg: &str) -> Jwk {
    match alg {
      "EdDSA" => {
        let mut p = JwkParamsOkp::new();
        p.crv = "Ed25519".into();
        p.x = encode_b64(self.ed.public_key().to_bytes());
        Jwk::from_params(p)
      }
      "ES256" => {
        let pt = self.p256.verifying_key().to_encoded_point(false);
        let mut p = JwkParamsEc::new();
        p.crv = "P-256".into();
        p.x = encode_b64(pt.x().unwrap());
        p.y = encode_b64(pt.y().unwrap());
        Jwk::from_params(p)
      }
      "ES256K" => {
        let pt = self.k256.verifying_key().to_encoded_point(false);
        let mut p = JwkParamsEc::new();
        p.crv = "secp256k1".into();
        p.x = encode_b64(pt.x().unwrap());
        p.y = encode_b64(pt.y().unwrap());
        Jwk::from_params(p)
      }
      a => tool_error(&format!("bad alg {a}")),
    }
  }
}

pub fn alg_of(a: &str) -> JwsAlgorithm {
  match a {
    "EdDSA" => JwsAlgorithm::EdDSA,
    "ES256" => JwsAlgorithm::ES256,
    "ES256K" => JwsAlgorithm::ES256K,
    o => tool_error(&format!("bad alg {o}")),
  }
}

/// Remembers what it was asked to verify, then delegates to the shipped verifier for the algorithm.
#[derive(Default)]
struct Recording {
  seen: RefCell<Vec<(String, Vec<u8>, Vec<u8>, String)>>,
}
impl JwsVerifier for Recording {
  fn verify(&self, input: VerificationInput, public_key: &Jwk) -> Result<(), SignatureVerificationError> {
    self.seen.borrow_mut().push((
      input.alg.name().to_string(),
      input.signing_input.to_vec(),
      input.decoded_signature.to_vec(),
      serde_json::to_string(public_key).unwrap(),
    ));
    match input.alg {
      JwsAlgorithm::EdDSA => EdDSAJwsVerifier::default().verify(input, public_key),
      JwsAlgorithm::ES256 | JwsAlgorithm::ES256K => EcDSAJwsVerifier::default().verify(input, public_key),
      _ => Err(SignatureVerificationErrorKind::UnsupportedAlg.into()),
    }
  }
}

pub struct Built {
  pub token: Vec<u8>,
  pub detached: Option<Vec<u8>>,
  pub prot_seg: String,
  pub payload: Vec<u8>, // Y: the payload exactly as transported
  pub claims: Vec<u8>,  // what must be handed back
  pub sig_seg: String,
}

const CLAIMS: &[u8] = br#"{"iss":"did:example:issuer","data":"x y/z+1"}"#;
/// unencoded (b64 = false) payloads travel as-is: no '.', nothing that JSON would have to escape
const PLAIN: &[u8] = b"plain text payload $02 ~ (unencoded)";
/// an unencoded payload that happens to be base64url text too (so that a neighbouring entry with b64=true decodes)
const PLAIN_B64ISH: &[u8] = b"eyJpc3MiOiJkaWQ6ZXhhbXBsZTptYWxsb3J5In0";

/// Builds the received bytes of a row.
pub fn build(tok: &Value, k: &Keys) -> Built {
  let alg = s(&tok["alg"]);
  // ---- protected header JSON text, deliberately NOT what serde would print when shape = noncanonical ----
  let mut members: Vec<(String, String)> = Vec::new();
  if s(&tok["algAt"]) == "protected" {
    members.push(("alg".into(), format!("\"{alg}\"")));
  }
  match s(&tok["b64"]) {
    "true" => {
      members.push(("b64".into(), "true".into()));
      members.push(("crit".into(), "[\"b64\"]".into()));
    }
    "false" => {
      members.push(("b64".into(), "false".into()));
      members.push(("crit".into(), "[\"b64\"]".into()));
    }
    _ => {}
  }
  members.push(("kid".into(), "\"did:example:issuer#key-1\"".into()));
  let prot_json = if s(&tok["shape"]) == "canonical" {
    format!("{{{}}}", members.iter().map(|(k, v)| format!("\"{k}\":{v}")).collect::<Vec<_>>().join(","))
  } else {
    members.reverse();
    format!("{{ {} }}", members.iter().map(|(k, v)| format!("\"{k}\" : {v}")).collect::<Vec<_>>().join(" ,\n "))
  };
  let prot_seg = encode_b64(prot_json.as_bytes());
  // ---- payload as transported ----
  let b64 = s(&tok["b64"]) != "false";
  let before = tok.get("before").and_then(|v| v.as_str()).unwrap_or("nothing");
  let plain: &[u8] = if before == "entry_other_b64" { PLAIN_B64ISH } else { PLAIN };
  let payload: Vec<u8> = if b64 { encode_b64(CLAIMS).into_bytes() } else { plain.to_vec() };
  // ---- signature ----
  let si = [prot_seg.as_bytes(), b".", &payload].concat();
  let sig: Vec<u8> = match s(&tok["sig"]) {
    "over_SI" => k.sign(alg, &si),
    "over_reencoded_SI" => {
      // what a decoder would sign-check if it re-serialised the parsed header instead of using the received bytes
      let v: Value = serde_json::from_str(&prot_json).unwrap();
      let re = encode_b64(serde_json::to_vec(&v).unwrap());
      k.sign(alg, &[re.as_bytes(), b".", &payload].concat())
    }
    "over_other_payload" => {
      let other: Vec<u8> = if b64 { encode_b64(b"{\"iss\":\"did:example:mallory\"}").into_bytes() } else { b"{\"iss\":\"did:example:mallory\"}".to_vec() };
      k.sign(alg, &[prot_seg.as_bytes(), b".", &other].concat())
    }
    "garbage" => vec![0xA5u8; 64],
    "wrong_length" => k.sign(alg, &si)[..40].to_vec(),
    o => tool_error(&format!("bad sig {o}")),
  };
  let sig_seg = encode_b64(&sig);
  let payload_text = String::from_utf8(payload.clone()).unwrap();
  let attached = s(&tok["attached"]);
  let token: Vec<u8> = match s(&tok["ser"]) {
    "compact" => {
      let mid = if attached == "present" { payload_text.clone() } else { String::new() };
      format!("{prot_seg}.{mid}.{sig_seg}").into_bytes()
    }
    ser => {
      let mut sigobj = serde_json::Map::new();
      sigobj.insert("protected".into(), json!(prot_seg));
      if s(&tok["algAt"]) == "unprotected" {
        sigobj.insert("header".into(), json!({"alg": alg}));
      }
      sigobj.insert("signature".into(), json!(sig_seg));
      let mut top = serde_json::Map::new();
      match attached {
        "present" => {
          top.insert("payload".into(), json!(payload_text));
        }
        "empty" => {
          top.insert("payload".into(), json!(""));
        }
        _ => {}
      }
      if ser == "flattened" {
        for (k2, v) in sigobj {
          top.insert(k2, v);
        }
      } else {
        let mut entries = Vec::new();
        if before != "nothing" {
          // a valid neighbouring entry, signed over the same payload member under its own protected header
          let nb_b64 = if before == "entry_same_b64" { b64 } else { !b64 };
          let nb_json = if nb_b64 {
            format!("{{\"alg\":\"{alg}\",\"kid\":\"did:example:issuer#key-0\"}}")
          } else {
            format!("{{\"alg\":\"{alg}\",\"b64\":false,\"crit\":[\"b64\"],\"kid\":\"did:example:issuer#key-0\"}}")
          };
          let nb_seg = encode_b64(nb_json.as_bytes());
          let nb_sig = k.sign(alg, &[nb_seg.as_bytes(), b".", &payload].concat());
          entries.push(json!({"protected": nb_seg, "signature": encode_b64(&nb_sig)}));
        }
        entries.push(Value::Object(sigobj));
        top.insert("signatures".into(), json!(entries));
      }
      let mut text = serde_json::to_string(&Value::Object(top)).unwrap();
      if tok.get("escapes").and_then(|v| v.as_str()) == Some("protected_member") {
        // the same member value, spelled with a JSON escape sequence for its first character
        let plain = format!("\"protected\":\"{prot_seg}\"");
        let first = prot_seg.chars().next().unwrap();
        let escaped = format!("\"protected\":\"\\u{:04x}{}\"", first as u32, &prot_seg[1..]);
        text = text.replacen(&plain, &escaped, 1);
      }
      text.into_bytes()
    }
  };
  Built {
    token,
    detached: if b(&tok["detached"]) { Some(payload.clone()) } else { None },
    prot_seg,
    payload,
    claims: if b64 { CLAIMS.to_vec() } else { plain.to_vec() },
    sig_seg,
  }
}

pub fn decode<'a>(ser: &str, token: &'a [u8], detached: Option<&'a [u8]>) -> Result<JwsValidationItem<'a>, String> {
  decode_nth(ser, token, detached, 0)
}

/// `skip` = number of signature entries before the one under test (general serialization)
pub fn decode_nth<'a>(ser: &str, token: &'a [u8], detached: Option<&'a [u8]>, skip: usize) -> Result<JwsValidationItem<'a>, String> {
  let d = Decoder::new();
  if ser == "general" && skip > 0 {
    let mut it = d.decode_general_serialization(token, detached).map_err(|e| e.to_string())?;
    for _ in 0..skip {
      let _ = it.next().ok_or("no signature entry")?;
    }
    return it.next().ok_or("no signature entry")?.map_err(|e| e.to_string());
  }
  match ser {
    "compact" => d.decode_compact_serialization(token, detached).map_err(|e| e.to_string()),
    "flattened" => d.decode_flattened_serialization(token, detached).map_err(|e| e.to_string()),
    _ => {
      let mut it = d.decode_general_serialization(token, detached).map_err(|e| e.to_string())?;
      let first = it.next().ok_or("no signature entry")?;
      first.map_err(|e| e.to_string())
    }
  }
}

fn caller_key(tok: &Value, k: &Keys) -> Jwk {
  let mut key = k.public_jwk(s(&tok["alg"]));
  match s(&tok["keyAlg"]) {
    "same" => key.set_alg(s(&tok["alg"])),
    "other" => key.set_alg(if s(&tok["alg"]) == "EdDSA" { "ES256" } else { "EdDSA" }),
    _ => {}
  }
  key
}

/// Executes a row; returns the list of deviations from what the spec concluded.
fn run_row(case: &Value, k: &Keys) -> Vec<(String, Value, Value)> {
  let tok = &case["tok"];
  let mut diffs = Vec::new();
  let bt = build(tok, k);
  let ser = s(&tok["ser"]);
  let want_decoded = b(&case["decoded"]);
  let skip = if tok.get("before").and_then(|v| v.as_str()).unwrap_or("nothing") == "nothing" { 0 } else { 1 };
  let item = decode_nth(ser, &bt.token, bt.detached.as_deref(), skip);
  match item {
    Err(e) => {
      if want_decoded {
        diffs.push(("~decode_refused".into(), json!("token decodes"), json!(e)));
      }
      return diffs;
    }
    Ok(item) => {
      if !want_decoded && case.get("refusal").and_then(|v| v.as_str()) == Some("escaped_member") {
        // the reference refuses escaped members; a decoder that takes them must bind the signature all the same
        diffs.push(("~escaped_member_accepted".into(), json!("rejected"), json!("decoded")));
        let si = [bt.prot_seg.as_bytes(), b".", &bt.payload].concat();
        if item.signing_input() != si.as_slice() {
          diffs.push(("signing_input".into(), json!(String::from_utf8_lossy(&si)), json!(String::from_utf8_lossy(item.signing_input()))));
        }
        if item.claims() != bt.claims.as_slice() {
          diffs.push(("claims".into(), json!(String::from_utf8_lossy(&bt.claims)), json!(String::from_utf8_lossy(item.claims()))));
        }
        let key = caller_key(tok, k);
        let r = match alg_of(s(&tok["alg"])) {
          JwsAlgorithm::EdDSA => item.verify(&EdDSAJwsVerifier::default(), &key),
          _ => item.verify(&EcDSAJwsVerifier::default(), &key),
        };
        let bound = s(&tok["sig"]) == "over_SI" && s(&tok["algAt"]) == "protected" && s(&tok["keyAlg"]) != "other";
        if r.is_ok() && !bound {
          diffs.push(("verified_unbound".into(), json!("refused"), json!("verified")));
        }
        return diffs;
      }
      if !want_decoded {
        diffs.push(("decode_accepted".into(), json!("rejected: not exactly one payload source"), json!("decoded")));
        return diffs;
      }
      // the signing input is exactly ASCII(protected segment as received) . '.' . payload as received
      let si = [bt.prot_seg.as_bytes(), b".", &bt.payload].concat();
      if item.signing_input() != si.as_slice() {
        diffs.push(("signing_input".into(), json!(String::from_utf8_lossy(&si)), json!(String::from_utf8_lossy(item.signing_input()))));
      }
      if item.claims() != bt.claims.as_slice() {
        diffs.push(("claims".into(), json!(String::from_utf8_lossy(&bt.claims)), json!(String::from_utf8_lossy(item.claims()))));
      }
      let want_alg = if s(&tok["algAt"]) == "protected" { Some(alg_of(s(&tok["alg"]))) } else { None };
      if item.alg() != want_alg {
        diffs.push(("alg_source".into(), json!(want_alg.map(|a| a.name())), json!(item.alg().map(|a| a.name()))));
      }
      if Some(item.decoded_signature()) != decode_b64(&bt.sig_seg).ok().as_deref() {
        diffs.push(("decoded_signature".into(), json!("signature segment decoded"), json!("differs")));
      }
      let key = caller_key(tok, k);
      let rec = Recording::default();
      let verified = item.verify(&rec, &key);
      let seen = rec.seen.borrow();
      let want_call = b(&case["verifier_called"]);
      if verified.is_ok() && seen.is_empty() {
        // reported verified although no signature check was made at all
        diffs.push(("verified_without_check".into(), json!("the verifier is consulted"), json!("not consulted")));
      } else if want_call != !seen.is_empty() {
        // refusing before (or after) consulting the verifier is the implementation's choice
        diffs.push(("~verifier_consulted".into(), json!(want_call), json!(!seen.is_empty())));
      }
      for (alg, si_seen, sig_seen, key_seen) in seen.iter() {
        if alg != s(&tok["alg"]) || si_seen != &si || Some(sig_seen.as_slice()) != decode_b64(&bt.sig_seg).ok().as_deref() || key_seen != &serde_json::to_string(&key).unwrap() {
          diffs.push(("verifier_input".into(), json!({"alg": tok["alg"], "si": String::from_utf8_lossy(&si)}), json!({"alg": alg, "si": String::from_utf8_lossy(si_seen)})));
        }
      }
      // an algorithm pinned on the key that is not the header's must refuse, however the pin is spelled (a name of another
      // JWS algorithm, of a non-JWS algorithm, a different case, the curve name, the empty string)
      if s(&tok["keyAlg"]) == "other" {
        for pin in ["ECDH-ES", "ECDH-ES+A256KW", &s(&tok["alg"]).to_lowercase(), "Ed25519", "", "none"] {
          let mut pinned = k.public_jwk(s(&tok["alg"]));
          pinned.set_alg(pin.to_string());
          if let Ok(it) = decode_nth(ser, &bt.token, bt.detached.as_deref(), skip) {
            let r = match alg_of(s(&tok["alg"])) {
              JwsAlgorithm::EdDSA => it.verify(&EdDSAJwsVerifier::default(), &pinned),
              _ => it.verify(&EcDSAJwsVerifier::default(), &pinned),
            };
            if r.is_ok() {
              diffs.push(("verified_unbound/key_pin".into(), json!({"pin": pin, "header_alg": tok["alg"]}), json!("verified")));
            }
          }
        }
      }
      // a signature of the wrong length is refused whatever the extra / missing bytes are: the correct signature cut
      // short, or followed by one more byte (a recovery id, zero, 0xff) or by itself
      if s(&tok["sig"]) == "wrong_length" && s(&tok["algAt"]) == "protected" && s(&tok["keyAlg"]) != "other" && skip == 0 {
        let mut good = tok.clone();
        good["sig"] = json!("over_SI");
        let gb = build(&good, k);
        if let Ok(sig) = decode_b64(&gb.sig_seg) {
          let mut variants: Vec<Vec<u8>> = vec![sig[..sig.len() - 1].to_vec(), [sig.clone(), sig.clone()].concat()];
          for extra in [0x00u8, 0x01, 0x02, 0x03, 0x1b, 0x1c, 0xff] {
            variants.push([sig.clone(), vec![extra]].concat());
          }
          let text = String::from_utf8(gb.token.clone()).unwrap_or_default();
          for v in variants {
            let forged = text.replacen(&gb.sig_seg, &encode_b64(&v), 1);
            let det = gb.detached.as_deref();
            if let Ok(it) = decode_nth(ser, forged.as_bytes(), det, 0) {
              let r = match alg_of(s(&tok["alg"])) {
                JwsAlgorithm::EdDSA => it.verify(&EdDSAJwsVerifier::default(), &k.public_jwk(s(&tok["alg"]))),
                _ => it.verify(&EcDSAJwsVerifier::default(), &k.public_jwk(s(&tok["alg"]))),
              };
              if r.is_ok() {
                diffs.push(("verified_unbound/signature_length".into(), json!({"signature_bytes": v.len()}), json!("verified")));
              }
            }
          }
        }
      }
      let want_verified = s(&case["outcome"]) == "verified";
      match (&verified, want_verified) {
        (Ok(d), true) => {
          if d.claims.as_ref() != bt.claims.as_slice() {
            diffs.push(("verified_claims".into(), json!("signed payload"), json!(String::from_utf8_lossy(&d.claims))));
          }
        }
        (Err(_), false) => {}
        (Ok(_), false) => diffs.push(("verified_unbound".into(), json!(case["outcome"]), json!("verified"))),
        (Err(e), true) => diffs.push(("~valid_token_refused".into(), json!("verified"), json!(e.to_string()))),
      }
    }
  }
  diffs
}

/// every single-bit flip of the three segments of a verifying token must make verification fail
fn bit_flips(case: &Value, k: &Keys, stride: usize, rep: &mut Report) {
  let tok = &case["tok"];
  let bt = build(tok, k);
  let ser = s(&tok["ser"]);
  let key = caller_key(tok, k);
  let token_text = String::from_utf8(bt.token.clone()).unwrap();
  let payload_text = String::from_utf8(bt.payload.clone()).unwrap();
  let in_token = s(&tok["attached"]) == "present";
  let skip = if tok.get("before").and_then(|v| v.as_str()).unwrap_or("nothing") == "nothing" { 0 } else { 1 };
  let mut regions: Vec<(&str, String)> = vec![("protected", bt.prot_seg.clone()), ("signature", bt.sig_seg.clone())];
  if in_token {
    regions.push(("payload", payload_text.clone()));
  }
  let verifies = |token: &[u8], detached: Option<&[u8]>| -> bool {
    match decode_nth(ser, token, detached, skip) {
      Err(_) => false,
      Ok(item) => {
        let r = match alg_of(s(&tok["alg"])) {
          JwsAlgorithm::EdDSA => item.verify(&EdDSAJwsVerifier::default(), &key),
          _ => item.verify(&EcDSAJwsVerifier::default(), &key),
        };
        r.is_ok()
      }
    }
  };
  for (name, seg) in regions {
    let Some(at) = token_text.find(&seg) else { continue };
    let mut n = 0usize;
    for byte in 0..seg.len() {
      for bit in 0..8 {
        n += 1;
        if n % stride != 0 {
          continue;
        }
        let mut t = bt.token.clone();
        t[at + byte] ^= 1 << bit;
        rep.count("bit_flips");
        if guarded(|| verifies(&t, bt.detached.as_deref())).unwrap_or(true) {
          rep.mismatch(
            "jws_verify/bit_flip_still_verifies",
            &json!({"tok": tok, "region": name, "byte": byte, "bit": bit, "mutated_token": String::from_utf8_lossy(&t)}),
            json!("verification fails"),
            json!("verified"),
            "flipping a single bit of a verified token must make verification fail",
          );
        }
      }
    }
  }
  // a detached payload is part of what was received, too
  if let Some(dp) = &bt.detached {
    for byte in 0..dp.len() {
      for bit in 0..8 {
        if (byte * 8 + bit) % stride != 0 {
          continue;
        }
        let mut d2 = dp.clone();
        d2[byte] ^= 1 << bit;
        rep.count("bit_flips");
        if guarded(|| verifies(&bt.token, Some(&d2))).unwrap_or(true) {
          rep.mismatch("jws_verify/bit_flip_still_verifies", &json!({"tok": tok, "region": "detached payload", "byte": byte, "bit": bit}), json!("verification fails"), json!("verified"), "");
        }
      }
    }
  }
}

fn replay_chunk(cases: &[Value], rep: &mut Report) {
  let k = keys();
  let thorough = std::env::var("VERIF_TIER").map(|t| t == "thorough").unwrap_or(false);
  for (ci, case) in cases.iter().enumerate() {
    note_case(&case["tok"]);
    rep.eval();
    match guarded(|| run_row(case, &k)) {
      Err(p) => rep.mismatch("jws_verify/panic", case, json!("no panic"), json!(p), "panic"),
      Ok(diffs) => {
        for (kk, exp, obs) in diffs {
          rep.mismatch(&format!("jws_verify/{kk}"), case, exp, obs, "");
        }
      }
    }
    if s(&case["outcome"]) == "verified" {
      // quick: every bit for Ed25519 rows, every 5th for the (slower) ECDSA rows; thorough: every bit everywhere
      let stride = if thorough || s(&case["tok"]["alg"]) == "EdDSA" { 1 } else { 5 + (ci % 3) };
      bit_flips(case, &k, stride, rep);
      rep.sample(case.clone());
    }
    rep.nontrivial(format!("{}", case["tok"]));
  }
}

pub fn replay(cases: &[Value], rep: &mut Report) {
  par_replay(cases, rep, replay_chunk);
}
