//! Shared plumbing: case files, reports, panic capture, seeded RNG.
#![allow(dead_code)]
use serde_json::json;
use serde_json::Value;
use std::cell::RefCell;
use std::collections::BTreeSet;
use std::io::BufRead;
use std::io::Write;
use std::panic::AssertUnwindSafe;

thread_local! {
  static LAST_PANIC: RefCell<Option<String>> = const { RefCell::new(None) };
}

/// Installs a quiet panic hook that remembers the message/location of the last panic of this thread.
pub fn install_panic_hook() {
  std::panic::set_hook(Box::new(|info| {
    let msg = if let Some(s) = info.payload().downcast_ref::<&str>() {
      s.to_string()
    } else if let Some(s) = info.payload().downcast_ref::<String>() {
      s.clone()
    } else {
      "<non-string panic>".to_string()
    };
    let loc = info
      .location()
      .map(|l| format!("{}:{}", l.file(), l.line()))
      .unwrap_or_default();
    LAST_PANIC.with(|p| *p.borrow_mut() = Some(format!("{msg} @ {loc}")));
  }));
}

/// Runs `f`; a panic becomes `Err(message)`. A panic in code under test is data, not a tool failure.
pub fn guarded<T>(f: impl FnOnce() -> T) -> Result<T, String> {
  match std::panic::catch_unwind(AssertUnwindSafe(f)) {
    Ok(v) => Ok(v),
    Err(_) => Err(LAST_PANIC.with(|p| p.borrow_mut().take()).unwrap_or_else(|| "panic".into())),
  }
}

pub fn read_cases(path: &str) -> Vec<Value> {
  let f = std::fs::File::open(path).unwrap_or_else(|e| tool_error(&format!("cannot open {path}: {e}")));
  let mut out = Vec::new();
  for line in std::io::BufReader::new(f).lines() {
    let line = line.unwrap();
    let line = line.trim();
    if line.is_empty() {
      continue;
    }
    match serde_json::from_str::<Value>(line) {
      Ok(v) => out.push(v),
      Err(e) => tool_error(&format!("bad case line in {path}: {e}: {line}")),
    }
  }
  out
}

pub fn tool_error(msg: &str) -> ! {
  eprintln!("TOOL-ERROR: {msg}");
  std::process::exit(2);
}

/// What a replay run found. Written as one JSON document for bin/check.
#[derive(Default)]
pub struct Report {
  pub evaluations: u64,
  pub mismatches: Vec<Value>,
  pub samples: Vec<Value>,
  pub distinct: BTreeSet<String>,
  pub counters: std::collections::BTreeMap<String, u64>,
  pub max_mismatches: usize,
  /// Deviations from the deterministic reference specification that do NOT contradict the property (judging relation
  /// is weaker than the reference): reported, never a violation.
  pub drift: Vec<Value>,
}

impl Report {
  pub fn new() -> Self {
    Report {
      max_mismatches: 200,
      ..Default::default()
    }
  }
  pub fn count(&mut self, name: &str) {
    *self.counters.entry(name.to_string()).or_insert(0) += 1;
  }
  pub fn add(&mut self, name: &str, n: u64) {
    *self.counters.entry(name.to_string()).or_insert(0) += n;
  }
  pub fn eval(&mut self) {
    self.evaluations += 1;
  }
  /// Records a distinct non-trivial case class.
  pub fn nontrivial(&mut self, class: impl Into<String>) {
    self.distinct.insert(class.into());
  }
  pub fn sample(&mut self, v: Value) {
    if self.samples.len() < 6 {
      self.samples.push(v);
    }
  }
  /// `key` identifies the failing case class (matched against known_findings.json).
  /// A key with a path component starting with '~' marks a deviation from the reference specification that the property
  /// allows (e.g. a one-sided property: refusing something the reference accepts): it is reported as drift, not counted.
  pub fn mismatch(&mut self, key: &str, case: &Value, expected: Value, observed: Value, note: &str) {
    if key.starts_with('~') || key.contains("/~") {
      self.reference_drift(&key.replace('~', ""), case, expected, observed);
      return;
    }
    self.count("mismatches_total");
    if self.mismatches.len() < self.max_mismatches {
      self.mismatches.push(json!({
        "key": key, "case": case, "expected": expected, "observed": observed, "note": note
      }));
    }
  }
  /// The real code deviates from the code-shaped reference spec in a way the property allows.
  pub fn reference_drift(&mut self, key: &str, case: &Value, expected: Value, observed: Value) {
    self.count("reference_drift");
    if self.drift.len() < 5 {
      self.drift.push(json!({"key": key, "case": case, "reference": expected, "observed": observed}));
    }
  }
  pub fn merge(&mut self, other: Report) {
    self.evaluations += other.evaluations;
    for d in other.drift {
      if self.drift.len() < 5 {
        self.drift.push(d);
      }
    }
    for m in other.mismatches {
      if self.mismatches.len() < self.max_mismatches {
        self.mismatches.push(m);
      }
    }
    for s in other.samples {
      self.sample(s);
    }
    self.distinct.extend(other.distinct);
    for (k, v) in other.counters {
      *self.counters.entry(k).or_insert(0) += v;
    }
  }
  pub fn write(&self, path: &str) {
    let v = json!({
      "evaluations": self.evaluations,
      "distinct_nontrivial": self.distinct.len(),
      "mismatches": self.mismatches,
      "mismatches_total": self.counters.get("mismatches_total").copied().unwrap_or(0),
      "samples": self.samples,
      "counters": self.counters,
      "reference_drift": self.drift,
    });
    let mut f = std::fs::File::create(path).unwrap_or_else(|e| tool_error(&format!("cannot write {path}: {e}")));
    f.write_all(serde_json::to_string_pretty(&v).unwrap().as_bytes()).unwrap();
  }
}

/// ndjson trace writer (direction V).
pub struct TraceOut {
  w: std::io::BufWriter<std::fs::File>,
  pub n: u64,
}
impl TraceOut {
  pub fn create(path: &str) -> Self {
    let f = std::fs::File::create(path).unwrap_or_else(|e| tool_error(&format!("cannot write {path}: {e}")));
    TraceOut {
      w: std::io::BufWriter::new(f),
      n: 0,
    }
  }
  pub fn event(&mut self, v: Value) {
    writeln!(self.w, "{}", serde_json::to_string(&v).unwrap()).unwrap();
    self.n += 1;
  }
  pub fn finish(mut self) -> u64 {
    self.w.flush().unwrap();
    self.n
  }
}

pub fn rng(seed: u64) -> rand::rngs::StdRng {
  use rand::SeedableRng;
  rand::rngs::StdRng::seed_from_u64(seed)
}

pub fn s(v: &Value) -> &str {
  v.as_str().unwrap_or_else(|| tool_error(&format!("expected string, got {v}")))
}
pub fn i(v: &Value) -> i64 {
  v.as_i64().unwrap_or_else(|| tool_error(&format!("expected int, got {v}")))
}
pub fn b(v: &Value) -> bool {
  v.as_bool().unwrap_or_else(|| tool_error(&format!("expected bool, got {v}")))
}
pub fn arr(v: &Value) -> &Vec<Value> {
  v.as_array().unwrap_or_else(|| tool_error(&format!("expected array, got {v}")))
}

/// Runs `f` over chunks of `cases` on all cores and merges the per-chunk reports.
pub fn par_replay(cases: &[Value], rep: &mut Report, f: impl Fn(&[Value], &mut Report) + Sync) {
  let threads = std::thread::available_parallelism().map(|n| n.get()).unwrap_or(4).min(16);
  if cases.len() < 64 || threads == 1 {
    let mut r = Report::new();
    if let Err(p) = guarded(|| f(cases, &mut r)) {
      r.mismatch("no_panic/escaped_the_case_guard", &Value::Null, json!("no panic"), json!(p), "panic in the code under test");
    }
    rep.merge(r);
    return;
  }
  let chunk = cases.len().div_ceil(threads);
  let reports: Vec<Report> = std::thread::scope(|sc| {
    let hs: Vec<_> = cases
      .chunks(chunk)
      .map(|c| {
        let f = &f;
        sc.spawn(move || {
          let mut r = Report::new();
          // a panic that escapes a harness's per-case guard is still data about the code under test
          if let Err(p) = guarded(|| f(c, &mut r)) {
            let id = std::thread::current().id();
            let at = CURRENT
              .lock()
              .ok()
              .and_then(|c| c.iter().find(|(t, _)| *t == id).map(|(_, s)| serde_json::from_str(s).unwrap_or(Value::String(s.clone()))))
              .unwrap_or(Value::Null);
            r.mismatch("no_panic/escaped_the_case_guard", &at, json!("no panic"), json!(p), "panic in the code under test");
          }
          r
        })
      })
      .collect();
    hs.into_iter()
      .map(|h| h.join().unwrap_or_else(|_| tool_error("replay worker died")))
      .collect()
  });
  for r in reports {
    rep.merge(r);
  }
}

// ---------------------------------------------------------------------------------------------
// Hang watchdog: a call into the code under test that does not return is data (a violation), not a stuck check.
// ---------------------------------------------------------------------------------------------
use std::sync::atomic::AtomicU64;
use std::sync::atomic::Ordering as AtomicOrdering;
use std::sync::Mutex;

static PROGRESS: AtomicU64 = AtomicU64::new(0);
static CURRENT: Mutex<Vec<(std::thread::ThreadId, String)>> = Mutex::new(Vec::new());

/// Declares the case this thread is about to execute (for the watchdog's report) and counts progress.
pub fn note_case(ctx: &Value) {
  PROGRESS.fetch_add(1, AtomicOrdering::Relaxed);
  let id = std::thread::current().id();
  let text = ctx.to_string();
  if let Ok(mut cur) = CURRENT.lock() {
    if let Some(slot) = cur.iter_mut().find(|(t, _)| *t == id) {
      slot.1 = text;
    } else {
      cur.push((id, text));
    }
  }
}

/// Starts the watchdog: if no case completes for `stall_secs`, writes a report containing a single mismatch
/// `<prop>/hang` that lists the cases in flight, and terminates the process successfully (the report carries the verdict).
pub fn start_watchdog(prop: String, report_path: String, stall_secs: u64) {
  std::thread::spawn(move || {
    let mut last = PROGRESS.load(AtomicOrdering::Relaxed);
    let mut idle = 0u64;
    loop {
      std::thread::sleep(std::time::Duration::from_secs(1));
      let now = PROGRESS.load(AtomicOrdering::Relaxed);
      if now != last {
        last = now;
        idle = 0;
        continue;
      }
      idle += 1;
      if idle >= stall_secs && now > 0 {
        let in_flight: Vec<Value> = CURRENT
          .lock()
          .map(|c| c.iter().map(|(_, s)| serde_json::from_str(s).unwrap_or(Value::String(s.clone()))).collect())
          .unwrap_or_default();
        let mut rep = Report::new();
        rep.evaluations = now;
        rep.nontrivial("hang-a");
        rep.nontrivial("hang-b");
        rep.mismatch(
          &format!("{prop}/hang"),
          &json!({"in_flight": in_flight}),
          json!("every call returns"),
          json!(format!("no call returned for {stall_secs}s")),
          "a call into the code under test did not return (infinite loop / unbounded recursion)",
        );
        rep.write(&report_path);
        eprintln!("WATCHDOG: no progress for {stall_secs}s; reported as a hang");
        std::process::exit(0);
      }
    }
  });
}
