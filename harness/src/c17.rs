//! C17: IotaDID / NetworkName against spec/IotaDid.tla.
use crate::util::*;
use identity_did::CoreDID;
use identity_did::DID;
use identity_iota_core::IotaDID;
use identity_iota_core::NetworkName;
use serde_json::json;
use serde_json::Value;
use std::collections::hash_map::DefaultHasher;
use std::hash::Hash;
use std::hash::Hasher;

fn net_text(seq: &Value, variant: usize) -> Option<String> {
  let a = arr(seq);
  if a.len() == 1 && s(&a[0]) == "absent" {
    return None;
  }
  let mut out = String::new();
  for (k, sym) in a.iter().enumerate() {
    let pick = |opts: &[&str]| opts[(variant + k) % opts.len()].to_string();
    out.push_str(&match s(sym) {
      "i" => "iota".to_string(),
      "I" => pick(&["IOTA", "Iota", "iOtA"]),
      "a" => pick(&["m", "s", "r", "z"]),
      "A" => pick(&["M", "A", "S", "F", "R", "D"]), // incl. letters that are also hex digits
      "1" => pick(&["0", "7", "9"]),
      "-" => pick(&["-", "_", ".", "%"]),
      o => tool_error(&format!("bad network symbol {o}")),
    });
  }
  Some(out)
}

const HEX: &str = "f29dd16310c2100fd1bf568b345fb1cc14d71caa3bd9b5ad735d2bd6d455ca3bab";

fn tag_text(tag: &Value, variant: usize) -> String {
  let len = i(&tag["len"]) as usize;
  let body: String = match s(&tag["hex"]) {
    "lower" => HEX[..len].to_string(),
    "upper" => HEX[..len].to_uppercase(),
    "mixed" => HEX[..len]
      .chars()
      .enumerate()
      .map(|(k, c)| if (k + variant) % 2 == 0 { c.to_ascii_uppercase() } else { c })
      .collect(),
    "nonhex" => {
      let mut t = HEX[..len].to_string();
      if len > 0 {
        let pos = (variant * 13) % len;
        t.replace_range(pos..pos + 1, ["g", "x", "-"][variant % 3]);
      }
      t
    }
    "zeros" => "0".repeat(len),
    o => tool_error(&format!("bad hex class {o}")),
  };
  let pfx = match s(&tag["pfx"]) {
    "none" => "",
    p => p,
  };
  format!("{pfx}{body}")
}

fn hash_of<T: Hash>(t: &T) -> u64 {
  let mut h = DefaultHasher::new();
  t.hash(&mut h);
  h.finish()
}

fn decode_hex(sx: &str) -> Option<Vec<u8>> {
  let sx = sx.strip_prefix("0x")?;
  if sx.len() % 2 != 0 {
    return None;
  }
  (0..sx.len() / 2).map(|k| u8::from_str_radix(&sx[2 * k..2 * k + 2], 16).ok()).collect()
}

struct Acc {
  v: IotaDID,
  net: String,
  bytes: Vec<u8>,
}

fn check_accepted(v: &IotaDID, expect_net: Option<&str>, expect_tag_lc: &str, errs: &mut Vec<(String, String)>) -> Option<Acc> {
  let net = expect_net.unwrap_or("iota");
  let canon = if net == "iota" {
    format!("did:iota:{expect_tag_lc}")
  } else {
    format!("did:iota:{net}:{expect_tag_lc}")
  };
  if v.as_str() != canon || v.to_string() != canon || String::from(v.clone()) != canon || CoreDID::from(v.clone()).as_str() != canon {
    errs.push(("normal_form".into(), format!("held as {:?}, lowercase normal form is {:?}", v.as_str(), canon)));
  }
  if v.method() != "iota" || v.network_str() != net || v.tag_str() != expect_tag_lc {
    errs.push(("accessors".into(), format!("method {:?} network {:?} tag {:?}", v.method(), v.network_str(), v.tag_str())));
  }
  let recomposed = if v.network_str() == "iota" {
    format!("did:{}:{}", v.method(), v.tag_str())
  } else {
    format!("did:{}:{}:{}", v.method(), v.network_str(), v.tag_str())
  };
  if recomposed != v.as_str() {
    errs.push(("recompose".into(), format!("{recomposed:?} != {:?}", v.as_str())));
  }
  let bytes = decode_hex(v.tag_str());
  match &bytes {
    Some(bv) if bv.len() == 32 => {}
    _ => errs.push(("tag_bytes".into(), format!("tag {:?} is not 32 hex-encoded bytes", v.tag_str()))),
  }
  match IotaDID::parse(v.as_str()) {
    Ok(back) if &back == v => {}
    _ => errs.push(("reparse".into(), "parse(as_str) != self".into())),
  }
  match serde_json::to_value(v).and_then(serde_json::from_value::<IotaDID>) {
    Ok(back) if &back == v => {}
    _ => errs.push(("serde".into(), "serde round trip".into())),
  }
  let u = v.to_url();
  if u.path().is_some() || u.query().is_some() || u.fragment().is_some() {
    errs.push(("url_parts".into(), format!("{u}")));
  }
  let zeros = bytes.as_ref().map(|bv| bv.iter().all(|x| *x == 0)).unwrap_or(false);
  if v.is_placeholder() != zeros {
    errs.push(("placeholder".into(), format!("is_placeholder = {}", v.is_placeholder())));
  }
  Some(Acc {
    v: v.clone(),
    net: v.network_str().to_string(),
    bytes: bytes.unwrap_or_default(),
  })
}

fn replay_chunk(cases: &[Value], rep: &mut Report) {
  let mut accepted: Vec<Acc> = Vec::new();
  for (ci, case) in cases.iter().enumerate() {
    note_case(&case["row"]);
    let row = &case["row"];
    let out = &case["out"];
    let variant = ci % 5;
    rep.eval();
    let kind = s(&row["kind"]).to_string();
    let res = guarded(|| {
      let mut errs: Vec<(String, String)> = Vec::new();
      let mut acc = None;
      let mut input_dbg = String::new();
      if kind == "parse" {
        let net = net_text(&row["net"], variant);
        let tag = tag_text(&row["tag"], variant);
        let mut st = format!("did:{}:", s(&row["method"]));
        if b(&row["extra"]) {
          st.push_str("x:");
        }
        if let Some(n) = &net {
          st.push_str(n);
          st.push(':');
        }
        st.push_str(&tag);
        if s(&row["suffix"]) != "none" {
          st.push_str(s(&row["suffix"]));
        }
        input_dbg = st.clone();
        let got: Option<IotaDID> = match s(&row["entry"]) {
          "parse" => {
            let a = IotaDID::parse(&st).ok();
            let b2 = st.parse::<IotaDID>().ok();
            let c = IotaDID::try_from(st.as_str()).ok();
            let d = IotaDID::try_from(st.clone()).ok();
            if a != b2 || a != c || a != d {
              errs.push(("entry_points".into(), "parse / FromStr / TryFrom disagree".into()));
            }
            a
          }
          "core" => CoreDID::parse(&st).ok().and_then(|c| {
            let valid = IotaDID::is_valid(&c);
            let r = IotaDID::try_from_core(c.clone()).ok();
            if valid != r.is_some() || IotaDID::try_from(c).ok() != r {
              errs.push(("entry_points".into(), "is_valid / try_from_core / TryFrom<CoreDID> disagree".into()));
            }
            r
          }),
          "serde" => serde_json::from_value::<IotaDID>(json!(st)).ok(),
          e => tool_error(&format!("bad entry {e}")),
        };
        if let Some(v) = got {
          if !b(&out["valid"]) {
            errs.push(("accepted_invalid".into(), format!("accepted as {:?}", v.as_str())));
          } else {
            let exp_net: Option<String> = {
              let a = arr(&out["net"]);
              if a.len() == 1 && s(&a[0]) == "default" {
                None
              } else {
                net.as_ref().map(|n| n.to_lowercase())
              }
            };
            acc = check_accepted(&v, exp_net.as_deref(), &tag.to_lowercase(), &mut errs);
          }
        } else if b(&out["valid"]) {
          errs.push(("__rejected_valid".into(), String::new()));
        }
      } else {
        // kind == "new"
        let name = net_text(&row["net"], variant).unwrap_or_default();
        input_dbg = format!("new(.., {name:?}) via {}", s(&row["via"]));
        let nn: Option<NetworkName> = match s(&row["via"]) {
          "try_from" => NetworkName::try_from(name.clone()).ok(),
          _ => serde_json::from_value::<NetworkName>(json!(name)).ok(),
        };
        let bytes: [u8; 32] = match s(&row["bytes"]) {
          "zeros" => [0u8; 32],
          "ones" => [0xffu8; 32],
          _ => {
            let mut bb = [0u8; 32];
            for (k, x) in bb.iter_mut().enumerate() {
              *x = (k as u8).wrapping_mul(37).wrapping_add(11);
            }
            bb
          }
        };
        match nn {
          None => {
            if b(&out["valid"]) {
              errs.push(("__rejected_valid".into(), String::new()));
            }
          }
          Some(nn) => {
            if !b(&out["valid"]) {
              errs.push(("network_name_accepted_invalid".into(), format!("NetworkName {:?} was accepted", nn.as_ref())));
            }
            if nn.as_ref() != name {
              errs.push(("network_name_changed".into(), format!("{:?}", nn.as_ref())));
            }
            // building a DID from any NetworkName value the library handed out must not panic and must expose the inputs
            let v = IotaDID::new(&bytes, &nn);
            let tag_lc: String = format!("0x{}", bytes.iter().map(|x| format!("{x:02x}")).collect::<String>());
            if v.network_str() != name || decode_hex(v.tag_str()).as_deref() != Some(&bytes[..]) {
              errs.push(("new_exposes".into(), format!("network {:?} tag {:?}", v.network_str(), v.tag_str())));
            }
            if b(&out["valid"]) {
              let exp_net = if name == "iota" { None } else { Some(name.as_str()) };
              acc = check_accepted(&v, exp_net, &tag_lc, &mut errs);
            }
            // the other constructor takes the tag as caller-supplied hex: lower case, upper case and mixed spellings of the
            // same bytes give the SAME DID as `new`
            if b(&out["valid"]) {
              let exp_net = if name == "iota" { None } else { Some(name.as_str()) };
              let upper = format!("0x{}", bytes.iter().map(|x| format!("{x:02X}")).collect::<String>());
              let mixed: String = tag_lc.chars().enumerate().map(|(k, c)| if k >= 2 && k % 3 == 0 { c.to_ascii_uppercase() } else { c }).collect();
              for spelling in [tag_lc.clone(), upper, mixed] {
                let a = IotaDID::from_alias_id(&spelling, &nn);
                if a != v || a.to_string() != v.to_string() {
                  errs.push(("from_alias_id_differs_from_new".into(), format!("from_alias_id({spelling:?}) = {a}, new = {v}")));
                }
                let _ = check_accepted(&a, exp_net, &tag_lc, &mut errs);
              }
            }
            let ph = IotaDID::placeholder(&nn);
            if !ph.is_placeholder() || ph.network_str() != name {
              errs.push(("placeholder_ctor".into(), format!("{ph}")));
            }
          }
        }
      }
      (errs, acc, input_dbg)
    });
    match res {
      Err(p) => rep.mismatch(&format!("iota_did/{kind}/panic"), case, json!("no panic"), json!(p), "panic"),
      Ok((errs, acc, input)) => {
        for (k, e) in errs {
          if k == "__rejected_valid" {
            rep.count("valid_rows_rejected");
            continue;
          }
          rep.mismatch(&format!("iota_did/{kind}/{k}"), &json!({"input": input, "row": row}), out.clone(), json!(e), "");
        }
        if let Some(a) = acc {
          rep.count("accepted");
          if accepted.len() < 120 {
            accepted.push(a);
          }
        }
      }
    }
    rep.nontrivial(format!("{row}"));
    if b(&out["valid"]) {
      rep.sample(case.clone());
    }
  }
  // equality coincides with equality of (network, tag bytes); Ord and Hash agree
  let _ = guarded(|| {
    for a in &accepted {
      for bb in &accepted {
        rep.count("pairs_compared");
        let same = a.net == bb.net && a.bytes == bb.bytes;
        let eq = a.v == bb.v;
        let ord = a.v.cmp(&bb.v);
        if eq != same || eq != (ord == std::cmp::Ordering::Equal) || (eq && hash_of(&a.v) != hash_of(&bb.v)) {
          rep.mismatch(
            "iota_did/equality",
            &json!({"a": a.v.as_str(), "b": bb.v.as_str()}),
            json!({"same_network_and_tag_bytes": same}),
            json!({"eq": eq, "ord": format!("{ord:?}")}),
            "two IOTA DIDs are equal exactly when their networks and tag bytes are equal",
          );
        }
      }
    }
  });
}

pub fn replay(cases: &[Value], rep: &mut Report) {
  par_replay(cases, rep, replay_chunk);
}
