//! Beyond the list: SD-JWT VC type metadata (schemas, extension chains, claim disclosability) against spec/SdJwtVcType.tla.
use crate::util::*;
use async_trait::async_trait;
use futures::executor::block_on;
use identity_core::common::Url;
use identity_credential::sd_jwt_vc::metadata::ClaimMetadata;
use identity_credential::sd_jwt_vc::metadata::TypeMetadata;
use identity_credential::sd_jwt_vc::resolver::Error as ResolverError;
use identity_credential::sd_jwt_vc::Resolver;
use serde_json::json;
use serde_json::Value;
use std::collections::BTreeMap;

struct MapResolver(BTreeMap<String, Value>);

#[async_trait]
impl Resolver<Url, Value> for MapResolver {
  async fn resolve(&self, input: &Url) -> Result<Value, ResolverError> {
    self.0.get(input.as_str()).cloned().ok_or_else(|| ResolverError::NotFound(input.to_string()))
  }
}

fn type_url(k: usize) -> String {
  format!("https://types.example/t{k}")
}
fn schema_url(k: usize) -> String {
  format!("https://schemas.example/s{k}")
}
fn schema(k: usize) -> Value {
  let p = format!("p{k}");
  json!({
    "$schema": "https://json-schema.org/draft/2020-12/schema",
    "type": "object",
    "properties": { p.clone(): {"type": "string"} },
    "required": [p]
  })
}

fn run_type(case: &Value) -> Vec<(String, Value, Value)> {
  let row = &case["row"];
  let mut diffs = Vec::new();
  let accept = b(&case["out"]["accept"]);
  let shape = s(&row["shape"]);
  let len = match shape {
    "t1" | "t1_dangling" | "t1_self" => 1,
    "t1_t2" | "t1_t2_dangling" | "t1_t2_t1" => 2,
    _ => 3,
  };
  // what the last type of the chain extends
  let tail: Option<String> = match shape {
    "t1" | "t1_t2" | "t1_t2_t3" => None,
    "t1_dangling" | "t1_t2_dangling" => Some("https://types.example/missing".into()),
    "t1_self" | "t1_t2_t1" => Some(type_url(1)),
    _ => Some(type_url(2)),
  };
  let mut map = BTreeMap::new();
  let mut types: Vec<Value> = Vec::new();
  for k in 1..=len {
    let mut t = json!({"name": format!("T{k}")});
    let ext = if k < len { Some(type_url(k + 1)) } else { tail.clone() };
    if let Some(e) = ext {
      t["extends"] = json!(e);
    }
    match s(&row[format!("k{k}").as_str()]) {
      "embedded" => t["schema"] = schema(k),
      "referenced" => {
        t["schema_uri"] = json!(schema_url(k));
        map.insert(schema_url(k), schema(k));
      }
      "referenced_missing" => t["schema_uri"] = json!(schema_url(k)),
      _ => {}
    }
    map.insert(type_url(k), t.clone());
    types.push(t);
  }
  let t1: TypeMetadata = match serde_json::from_value(types[0].clone()) {
    Ok(t) => t,
    Err(e) => {
      diffs.push(("type_metadata_refused".into(), json!("parsed"), json!(e.to_string())));
      return diffs;
    }
  };
  let mut cred = json!({"vct": type_url(1), "iss": "https://issuer.example"});
  for k in arr(&row["has"]) {
    cred[format!("p{}", i(k))] = json!("a string");
  }
  let r = if s(&row["via"]) == "alone" { t1.validate_credential(&cred) } else { block_on(t1.validate_credential_with_resolver(&cred, &MapResolver(map))) };
  match (&r, accept) {
    (Ok(()), false) => diffs.push(("accepted_against_its_type".into(), json!("rejected"), json!("accepted"))),
    (Err(e), true) => diffs.push(("~conforming_credential_rejected".into(), json!("accepted"), json!(e.to_string()))),
    _ => {}
  }
  diffs
}

fn run_sd(case: &Value) -> Vec<(String, Value, Value)> {
  let row = &case["row"];
  let mut diffs = Vec::new();
  let accept = b(&case["out"]["accept"]);
  let path = match s(&row["path"]) {
    "name" => json!(["name"]),
    "nested" => json!(["address", "city"]),
    "array_entry" => json!(["nationalities", 1]),
    _ => json!(["nationalities", null]),
  };
  let mut meta = json!({"path": path});
  if s(&row["policy"]) != "unset" {
    meta["sd"] = json!(s(&row["policy"]));
  }
  let meta: ClaimMetadata = match serde_json::from_value(meta) {
    Ok(m) => m,
    Err(e) => {
      diffs.push(("claim_metadata_refused".into(), json!("parsed"), json!(e.to_string())));
      return diffs;
    }
  };
  // the JWT payload as issued
  let mut payload = json!({
    "vct": "https://types.example/t1",
    "name": "Arthur Dent",
    "address": {"street_address": "42 Market Street", "city": "Milliways"},
    "nationalities": ["British", "Betelgeusian"],
    "_sd_alg": "sha-256"
  });
  let digest = "JzYjH4svliH0R3PyEMfeZu6Jt69u5qehZo7F7EPYlSE";
  let placement = s(&row["placement"]);
  match (s(&row["path"]), placement) {
    (_, "plain") => {}
    ("name", p) => {
      payload.as_object_mut().unwrap().remove("name");
      if p == "concealed" {
        payload["_sd"] = json!([digest]);
      }
    }
    ("nested", p) => {
      payload["address"].as_object_mut().unwrap().remove("city");
      if p == "concealed" {
        payload["address"]["_sd"] = json!([digest]);
      }
    }
    ("array_entry", p) => {
      if p == "concealed" {
        payload["nationalities"][1] = json!({"...": digest});
      } else {
        payload["nationalities"].as_array_mut().unwrap().remove(1);
      }
    }
    (_, p) => {
      if p == "concealed" {
        payload["nationalities"] = json!([{"...": digest}, {"...": "9gZhHAhV7LZnOFZq_q7Fh8rzdqrrNM-hRWsVOlW3nuw"}]);
      } else {
        payload.as_object_mut().unwrap().remove("nationalities");
      }
    }
  }
  let r = meta.check_value_disclosability(&payload);
  match (&r, accept) {
    (Ok(()), false) => diffs.push(("policy_breach_accepted".into(), json!("rejected"), json!("accepted"))),
    (Err(e), true) => diffs.push(("compliant_token_rejected".into(), json!("accepted"), json!(e.to_string()))),
    _ => {}
  }
  diffs
}

fn replay_chunk(cases: &[Value], rep: &mut Report) {
  for case in cases {
    note_case(&case["row"]);
    rep.eval();
    let out = guarded(|| if s(&case["row"]["part"]) == "type" { run_type(case) } else { run_sd(case) });
    match out {
      Err(p) => rep.mismatch("sd_jwt_vc_type/panic", case, json!("no panic"), json!(p), "panic"),
      Ok(diffs) => {
        for (k, exp, obs) in diffs {
          rep.mismatch(&format!("sd_jwt_vc_type/{k}"), case, exp, obs, "");
        }
      }
    }
    rep.nontrivial(format!("{}", case["row"]));
    if b(&case["out"]["accept"]) {
      rep.sample(case.clone());
    }
  }
}

pub fn replay(cases: &[Value], rep: &mut Report) {
  par_replay(cases, rep, replay_chunk);
}
