//! Beyond the list: SD-JWT VC type metadata (schemas, extension chains, claim disclosability) against spec/SdJwtVcType.tla.
use crate::util::*;
use async_trait::async_trait;
use futures::executor::block_on;
use identity_core::common::Url;
use identity_credential::sd_jwt_vc::metadata::ClaimMetadata;
use identity_credential::sd_jwt_vc::metadata::TypeMetadata;
use identity_credential::sd_jwt_vc::resolver::Error as ResolverError;
use identity_credential::sd_jwt_vc::Resolver;
use serde_json::json;
use serde_json::Value;
use std::collections::BTreeMap;

struct MapResolver(BTreeMap<String, Value>);

#[async_trait]
impl Resolver<Url, Value> for MapResolver {
  async fn resolve(&self, input: &Url) -> Result<Value, ResolverError> {
    self.0.get(input.as_str()).cloned().ok_or_else(|| ResolverError::NotFound(input.to_string()))
  }
}

fn type_url(k: usize) -> String {
  format!("https://types.example/t{k}")
}
fn schema_url(k: usize) -> String {
  format!("https://schemas.example/s{k}")
}
fn schema(k: usize) -> Value {
  let p = format!("p{k}");
  json!({
    "$schema": "https://json-schema.org/draft/2020-12/schema",
    "type": "object",
    "properties": { p.clone(): {"type": "string"} },
    "required": [p]
  })
}

fn run_type(case: &Value) -> Vec<(String, Value, Value)> {
  let row = &case["row"];
  let mut diffs = Vec::new();
  let accept = b(&case["out"]["accept"]);
  let shape = s(&row["shape"]);
  let len = match shape {
    "t1" | "t1_dangling" | "t1_self" => 1,
    "t1_t2" | "t1_t2_dangling" | "t1_t2_t1" => 2,
    _ => 3,
  };
  // what the last type of the chain extends
  let tail: Option<String> = match shape {
    "t1" | "t1_t2" | "t1_t2_t3" => None,
    "t1_dangling" | "t1_t2_dangling" => Some("https://types.example/missing".into()),
    "t1_self" | "t1_t2_t1" => Some(type_url(1)),
    _ => Some(type_url(2)),
  };
  let mut map = BTreeMap::new();
  let mut types: Vec<Value> = Vec::new();
  for k in 1..=len {
    let mut t = json!({"name": format!("T{k}")});
    let ext = if k < len { Some(type_url(k + 1)) } else { tail.clone() };
    if let Some(e) = ext {
      t["extends"] = json!(e);
    }
    match s(&row[format!("k{k}").as_str()]) {
      "embedded" => t["schema"] = schema(k),
      "referenced" => {
        t["schema_uri"] = json!(schema_url(k));
        map.insert(schema_url(k), schema(k));
      }
      "referenced_missing" => t["schema_uri"] = json!(schema_url(k)),
      _ => {}
    }
    map.insert(type_url(k), t.clone());
    types.push(t);
  }
  let t1: TypeMetadata = match serde_json::from_value(types[0].clone()) {
    Ok(t) => t,
    Err(e) => {
      diffs.push(("type_metadata_refused".into(), json!("parsed"), json!(e.to_string())));
      return diffs;
    }
  };
  let mut cred = json!({"vct": type_url(1), "iss": "https://issuer.example"});
  for k in arr(&row["has"]) {
    cred[format!("p{}", i(k))] = json!("a string");
  }
  let r = if s(&row["via"]) == "alone" { t1.validate_credential(&cred) } else { block_on(t1.validate_credential_with_resolver(&cred, &MapResolver(map))) };
  match (&r, accept) {
    (Ok(()), false) => diffs.push(("accepted_against_its_type".into(), json!("rejected"), json!("accepted"))),
    (Err(e), true) => diffs.push(("~conforming_credential_rejected".into(), json!("accepted"), json!(e.to_string()))),
    _ => {}
  }
  diffs
}

fn run_sd(case: &Value) -> Vec<(String, Value, Value)> {
  let row = &case["row"];
  let mut diffs = Vec::new();
  let accept = b(&case["out"]["accept"]);
  let path = match s(&row["path"]) {
    "name" => json!(["name"]),
    "nested" => json!(["address", "city"]),
    "array_entry" => json!(["nationalities", 1]),
    _ => json!(["nationalities", null]),
  };
  let mut meta = json!({"path": path});
  if s(&row["policy"]) != "unset" {
    meta["sd"] = json!(s(&row["policy"]));
  }
  let meta: ClaimMetadata = match serde_json::from_value(meta) {
    Ok(m) => m,
    Err(e) => {
      diffs.push(("claim_metadata_refused".into(), json!("parsed"), json!(e.to_string())));
      return diffs;
    }
  };
  // the JWT payload as issued
  let mut payload = json!({
    "vct": "https://types.example/t1",
    "name": "Arthur Dent",
    "address": {"street_address": "42 Market Street", "city": "Milliways"},
    "nationalities": ["British", "Betelgeusian"],
    "_sd_alg": "sha-256"
  });
  let digest = "JzYjH4svliH0R3PyEMfeZu6Jt69u5qehZo7F7EPYlSE";
  let placement = s(&row["placement"]);
  match (s(&row["path"]), placement) {
    (_, "plain") => {}
    ("name", p) => {
      payload.as_object_mut().unwrap().remove("name");
      if p == "concealed" {
        payload["_sd"] = json!([digest]);
      }
    }
    ("nested", p) => {
      payload["address"].as_object_mut().unwrap().remove("city");
      if p == "concealed" {
        payload["address"]["_sd"] = json!([digest]);
      }
    }
    ("array_entry", p) => {
      if p == "concealed" {
        payload["nationalities"][1] = json!({"...": digest});
      } else {
        payload["nationalities"].as_array_mut().unwrap().remove(1);
      }
    }
    (_, p) => {
      if p == "concealed" {
        payload["nationalities"] = json!([{"...": digest}, {"...": "9gZhHAhV7LZnOFZq_q7Fh8rzdqrrNM-hRWsVOlW3nuw"}]);
      } else {
        payload.as_object_mut().unwrap().remove("nationalities");
      }
    }
  }
  let r = meta.check_value_disclosability(&payload);
  match (&r, accept) {
    (Ok(()), false) => diffs.push(("policy_breach_accepted".into(), json!("rejected"), json!("accepted"))),
    (Err(e), true) => diffs.push(("compliant_token_rejected".into(), json!("accepted"), json!(e.to_string()))),
    _ => {}
  }
  diffs
}

fn replay_chunk(cases: &[Value], rep: &mut Report) {
  for case in cases {
    note_case(&case["row"]);
    rep.eval();
    let out = guarded(|| if s(&case["row"]["part"]) == "type" { run_type(case) } else { run_sd(case) });
    match out {
      Err(p) => rep.mismatch("sd_jwt_vc_type/panic", case, json!("no panic"), json!(p), "panic"),
      Ok(diffs) => {
        for (k, exp, obs) in diffs {
          rep.mismatch(&format!("sd_jwt_vc_type/{k}"), case, exp, obs, "");
        }
      }
    }
    rep.nontrivial(format!("{}", case["row"]));
    if b(&case["out"]["accept"]) {
      rep.sample(case.clone());
    }
  }
}

pub fn replay(cases: &[Value], rep: &mut Report) {
  par_replay(cases, rep, replay_chunk);
}

// ------------------------------------------------------------------------------------------------------------------
// SdJwtVc::validate and SdJwtVc::validate_key_binding against spec/SdJwtVcFlow.tla
// ------------------------------------------------------------------------------------------------------------------
use identity_core::common::StringOrUrl;
use identity_core::common::Timestamp;
use identity_credential::sd_jwt_vc::SdJwtVc;
use identity_credential::sd_jwt_vc::SdJwtVcBuilder;
use identity_credential::validator::KeyBindingJWTValidationOptions;
use identity_eddsa_verifier::EdDSAJwsVerifier;
use identity_jose::jwk::Jwk;
use identity_jose::jwk::JwkParamsOkp;
use identity_jose::jwu::encode_b64;
use sd_jwt_payload_rework::JsonObject;
use sd_jwt_payload_rework::JwsSigner;
use sd_jwt_payload_rework::KeyBindingJwt;
use sd_jwt_payload_rework::RequiredKeyBinding;
use sd_jwt_payload_rework::SdJwt;
use sd_jwt_payload_rework::Sha256Hasher;

struct EdKey {
  secret: crypto::signatures::ed25519::SecretKey,
  public: Jwk,
}

fn ed_key(kid: &str) -> EdKey {
  let secret = crypto::signatures::ed25519::SecretKey::generate().unwrap();
  let mut p = JwkParamsOkp::new();
  p.crv = "Ed25519".into();
  p.x = encode_b64(secret.public_key().as_ref());
  let mut public = Jwk::from_params(p);
  public.set_alg("EdDSA");
  public.set_kid(kid);
  EdKey { secret, public }
}

struct EdSigner<'a>(&'a EdKey);

#[async_trait]
impl JwsSigner for EdSigner<'_> {
  type Error = String;
  async fn sign(&self, header: &JsonObject, payload: &JsonObject) -> Result<Vec<u8>, String> {
    let h = encode_b64(serde_json::to_vec(header).map_err(|e| e.to_string())?);
    let p = encode_b64(serde_json::to_vec(payload).map_err(|e| e.to_string())?);
    let input = format!("{h}.{p}");
    let sig = self.0.secret.sign(input.as_bytes()).to_bytes();
    Ok(format!("{input}.{}", encode_b64(sig)).into_bytes())
  }
}

#[derive(Default)]
struct WebResolver(BTreeMap<String, Vec<u8>>);
impl WebResolver {
  fn put<V: serde::Serialize>(&mut self, url: &str, v: &V) {
    self.0.insert(url.to_string(), serde_json::to_vec(v).unwrap());
  }
  fn get(&self, key: &str) -> Result<Vec<u8>, ResolverError> {
    self.0.get(key).cloned().ok_or_else(|| ResolverError::NotFound(key.to_string()))
  }
}
#[async_trait]
impl Resolver<Url, Vec<u8>> for WebResolver {
  async fn resolve(&self, input: &Url) -> Result<Vec<u8>, ResolverError> {
    self.get(input.as_str())
  }
}
#[async_trait]
impl Resolver<StringOrUrl, Vec<u8>> for WebResolver {
  async fn resolve(&self, input: &StringOrUrl) -> Result<Vec<u8>, ResolverError> {
    self.get(&input.to_string())
  }
}
#[async_trait]
impl Resolver<Url, Value> for WebResolver {
  async fn resolve(&self, input: &Url) -> Result<Value, ResolverError> {
    serde_json::from_slice(&self.get(input.as_str())?).map_err(|e| ResolverError::ParsingFailure(e.into()))
  }
}

struct FlowWorld {
  k1: EdKey,
  k2: EdKey,
  k3: EdKey,
  holder: EdKey,
  other: EdKey,
}

const ISS: &str = "https://issuer.example";
const VCT: &str = "https://issuer.example/education_credential";

fn type_metadata() -> Value {
  json!({
    "vct": VCT,
    "name": "Education credential",
    "schema": {
      "$schema": "https://json-schema.org/draft/2020-12/schema",
      "type": "object",
      "properties": {"name": {"type": "string"}},
      "required": ["name"]
    },
    "claims": [
      {"path": ["name"], "sd": "allowed"},
      {"path": ["address"], "sd": "always"}
    ]
  })
}

fn run_vc(case: &Value, w: &FlowWorld) -> Vec<(String, Value, Value)> {
  let row = &case["row"];
  let mut diffs = Vec::new();
  let accept = b(&case["out"]["accept"]);
  let mut web = WebResolver::default();
  let jwks = json!({"keys": [w.k1.public, w.k2.public]});
  let meta_url = format!("{ISS}/.well-known/jwt-vc-issuer/");
  match s(&row["meta"]) {
    "inline" => web.put(&meta_url, &json!({"issuer": ISS, "jwks": jwks})),
    "jwks_uri" => {
      web.put(&meta_url, &json!({"issuer": ISS, "jwks_uri": format!("{ISS}/jwks")}));
      web.put(&format!("{ISS}/jwks"), &jwks);
    }
    "jwks_uri_missing" => web.put(&meta_url, &json!({"issuer": ISS, "jwks_uri": format!("{ISS}/jwks")})),
    "other_issuer" => web.put(&meta_url, &json!({"issuer": "https://other.example", "jwks": jwks})),
    _ => {}
  }
  web.put(&format!("{ISS}/keys/k1"), &w.k1.public);
  web.put("https://elsewhere.example/keys/k3", &w.k3.public);
  if s(&row["type"]) != "unresolvable" {
    web.put(&format!("{ISS}/.well-known/vct/education_credential"), &type_metadata());
  }
  let kid: Option<String> = match s(&row["kid"]) {
    "key1" => Some("key1".into()),
    "key2" => Some("key2".into()),
    "unknown" => Some("key9".into()),
    "url_k1" => Some(format!("{ISS}/keys/k1")),
    "url_elsewhere" => Some("https://elsewhere.example/keys/k3".into()),
    _ => None,
  };
  let signer = match s(&row["signed_with"]) {
    "K1" => &w.k1,
    "K2" => &w.k2,
    _ => &w.k3,
  };
  let mut object = json!({"name": "John Doe", "address": {"street_address": "A random street", "number": "3a"}});
  if s(&row["type"]) == "schema_fails" {
    object.as_object_mut().unwrap().remove("name");
    object["given_name"] = json!("John");
  }
  let built = (|| -> Result<SdJwtVc, String> {
    let mut bld = SdJwtVcBuilder::new(object).map_err(|e| e.to_string())?;
    if let Some(k) = &kid {
      bld = bld.header(std::iter::once(("kid".to_string(), Value::String(k.clone()))).collect());
    }
    bld = bld.vct(VCT.parse::<Url>().unwrap()).iat(Timestamp::now_utc()).iss(ISS.parse().unwrap());
    if s(&row["policy"]) == "kept" {
      bld = bld.make_concealable("/address").map_err(|e| e.to_string())?;
    }
    block_on(bld.finish(&EdSigner(signer), "EdDSA")).map_err(|e| e.to_string())
  })();
  let token = match built {
    Ok(t) => t,
    Err(e) => {
      diffs.push(("~issuance_refused".into(), json!("issued"), json!(e)));
      return diffs;
    }
  };
  // what a verifier receives: the serialised token
  let token = match SdJwtVc::parse(&token.to_string()) {
    Ok(t) => t,
    Err(e) => {
      diffs.push(("own_token_does_not_parse".into(), json!("parsed"), json!(e.to_string())));
      return diffs;
    }
  };
  let r = block_on(token.validate(&web, &EdDSAJwsVerifier::default(), &Sha256Hasher::new()));
  match (&r, accept) {
    (Ok(()), false) => diffs.push(("accepted_with_false_condition".into(), json!("rejected"), json!("accepted"))),
    (Err(e), true) => diffs.push(("~rejected_although_all_hold".into(), json!("accepted"), json!(e.to_string()))),
    _ => {}
  }
  diffs
}

fn run_kb(case: &Value, w: &FlowWorld) -> Vec<(String, Value, Value)> {
  let row = &case["row"];
  let mut diffs = Vec::new();
  let accept = b(&case["out"]["accept"]);
  let hasher = Sha256Hasher::new();
  let built = (|| -> Result<SdJwtVc, String> {
    let mut bld = SdJwtVcBuilder::new(json!({"name": "John Doe", "address": {"street_address": "A random street", "number": "3a"}})).map_err(|e| e.to_string())?;
    bld = bld
      .header(std::iter::once(("kid".to_string(), Value::String("key1".into()))).collect())
      .vct(VCT.parse::<Url>().unwrap())
      .iat(Timestamp::now_utc())
      .iss(ISS.parse().unwrap())
      .make_concealable("/address")
      .map_err(|e| e.to_string())?;
    match s(&row["required"]) {
      "jwk" => bld = bld.require_key_binding(RequiredKeyBinding::Jwk(serde_json::to_value(&w.holder.public).unwrap().as_object().unwrap().clone())),
      "kid" => bld = bld.require_key_binding(RequiredKeyBinding::Kid("holder-key".into())),
      _ => {}
    }
    block_on(bld.finish(&EdSigner(&w.k1), "EdDSA")).map_err(|e| e.to_string())
  })();
  let token = match built {
    Ok(t) => t,
    Err(e) => {
      diffs.push(("~issuance_refused".into(), json!("issued"), json!(e)));
      return diffs;
    }
  };
  let now = Timestamp::now_utc().to_unix();
  let (w0, w1) = (now - 5000, now - 1000);
  let mut opts = KeyBindingJWTValidationOptions::new();
  let iat = match s(&row["iat"]) {
    "before_window" => w0 - 10,
    "in_window" => w0 + 10,
    "after_window" => w1 + 10,
    "past_no_window" => now - 100,
    _ => now + 100_000,
  };
  if matches!(s(&row["iat"]), "before_window" | "in_window" | "after_window") {
    opts = opts.earliest_issuance_date(Timestamp::from_unix(w0).unwrap()).latest_issuance_date(Timestamp::from_unix(w1).unwrap());
  }
  match s(&row["nonce"]) {
    "same" => opts = opts.nonce("nonce-1"),
    "different" => opts = opts.nonce("nonce-2"),
    _ => {}
  }
  match s(&row["aud"]) {
    "same" => opts = opts.aud("https://verifier.example"),
    "different" => opts = opts.aud("https://another-verifier.example"),
    _ => {}
  }
  let presented = (|| -> Result<SdJwtVc, String> {
    // this presentation: everything disclosed. Without a KB-JWT it is the token as issued (a presentation of a token that
    // requires a key binding cannot be finished without one)
    if s(&row["kb"]) == "absent" {
      return Ok(token.clone());
    }
    // the presentation the KB-JWT is computed over
    let over: SdJwt = if s(&row["sd_hash"]) == "this_presentation" {
      SdJwt::from(token.clone())
    } else {
      // the same credential with the address concealed: cut the disclosure off the serialised form
      let full = token.to_string();
      let mut parts: Vec<&str> = full.split('~').collect();
      if parts.len() < 3 {
        return Err("the issued token has no disclosure to drop".into());
      }
      parts.remove(1);
      parts.join("~").parse::<SdJwt>().map_err(|e| e.to_string())?
    };
    let signer = if s(&row["kb"]) == "by_holder" { &w.holder } else { &w.other };
    let kb = block_on(
      KeyBindingJwt::builder().nonce("nonce-1").aud("https://verifier.example").iat(iat).finish(&over, &hasher, "EdDSA", &EdSigner(signer)),
    )
    .map_err(|e| e.to_string())?;
    let (with_kb, _) = token.clone().into_presentation(&hasher).map_err(|e| e.to_string())?.attach_key_binding_jwt(kb).finish().map_err(|e| e.to_string())?;
    Ok(with_kb)
  })();
  let presented = match presented {
    Ok(p) => p,
    Err(e) => {
      diffs.push(("~presentation_refused".into(), json!("presented"), json!(e)));
      return diffs;
    }
  };
  let presented = match SdJwtVc::parse(&presented.to_string()) {
    Ok(t) => t,
    Err(e) => {
      diffs.push(("own_presentation_does_not_parse".into(), json!("parsed"), json!(e.to_string())));
      return diffs;
    }
  };
  let given = if s(&row["given"]) == "holder_key" { &w.holder.public } else { &w.other.public };
  if std::env::var("VH_JPT_DEBUG").is_ok() {
    eprintln!("SDVCDBG required={:?} kb={} token={}", presented.required_key_bind(), presented.key_binding_jwt().is_some(), presented);
  }
  let r = presented.validate_key_binding(&EdDSAJwsVerifier::default(), given, &hasher, &opts);
  match (&r, accept) {
    (Ok(()), false) => diffs.push(("key_binding_accepted_with_false_condition".into(), json!("rejected"), json!("accepted"))),
    (Err(e), true) => diffs.push(("~key_binding_rejected_although_all_hold".into(), json!("accepted"), json!(e.to_string()))),
    _ => {}
  }
  diffs
}

fn run_pres(case: &Value, w: &FlowWorld) -> Vec<(String, Value, Value)> {
  let row = &case["row"];
  let mut diffs = Vec::new();
  let accept = b(&case["out"]["accept"]);
  let hasher = Sha256Hasher::new();
  let built = (|| -> Result<SdJwtVc, String> {
    let mut bld = SdJwtVcBuilder::new(json!({"name": "John Doe", "address": {"street_address": "A random street", "number": "3a"}})).map_err(|e| e.to_string())?;
    bld = bld
      .header(std::iter::once(("kid".to_string(), Value::String("key1".into()))).collect())
      .vct(VCT.parse::<Url>().unwrap())
      .iat(Timestamp::now_utc())
      .iss(ISS.parse().unwrap())
      .make_concealable("/address")
      .map_err(|e| e.to_string())?;
    if s(&row["required"]) == "kid" {
      bld = bld.require_key_binding(RequiredKeyBinding::Kid("holder-key".into()));
    }
    block_on(bld.finish(&EdSigner(&w.k1), "EdDSA")).map_err(|e| e.to_string())
  })();
  let token = match built {
    Ok(t) => t,
    Err(e) => {
      diffs.push(("~issuance_refused".into(), json!("issued"), json!(e)));
      return diffs;
    }
  };
  // holders receive the serialised token
  let token = match SdJwtVc::parse(&token.to_string()) {
    Ok(t) => t,
    Err(e) => {
      diffs.push(("own_token_does_not_parse".into(), json!("parsed"), json!(e.to_string())));
      return diffs;
    }
  };
  let r = (|| -> Result<(SdJwtVc, usize), String> {
    let mut pb = token.clone().into_presentation(&hasher).map_err(|e| e.to_string())?;
    match s(&row["conceal"]) {
      "nothing" => {}
      c => pb = pb.conceal(&format!("/{c}")).map_err(|e| e.to_string())?,
    }
    if b(&row["kb"]) {
      let kb = block_on(KeyBindingJwt::builder().nonce("n").aud("a").iat(Timestamp::now_utc().to_unix()).finish(
        &SdJwt::from(token.clone()),
        &hasher,
        "EdDSA",
        &EdSigner(&w.holder),
      ))
      .map_err(|e| e.to_string())?;
      pb = pb.attach_key_binding_jwt(kb);
    }
    let (p, removed) = pb.finish().map_err(|e| e.to_string())?;
    Ok((p, removed.len()))
  })();
  match (r, accept) {
    (Ok(_), false) => diffs.push(("presentation_built_although_impossible".into(), json!("refused"), json!("built"))),
    (Err(e), true) => diffs.push(("presentation_refused".into(), json!("built"), json!(e))),
    (Err(_), false) => {}
    (Ok((p, removed)), true) => {
      let concealed = s(&row["conceal"]) == "address";
      if removed != usize::from(concealed) {
        diffs.push(("removed_disclosures".into(), json!(usize::from(concealed)), json!(removed)));
      }
      // what the verifier gets: serialised, parsed again, disclosed
      match SdJwtVc::parse(&p.to_string()).map_err(|e| e.to_string()).and_then(|v| {
        let claims_ok = v.claims().iss.as_str().starts_with(ISS) && p == v;
        v.into_disclosed_object(&hasher).map(|o| (o, claims_ok)).map_err(|e| e.to_string())
      }) {
        Err(e) => diffs.push(("presentation_does_not_parse".into(), json!("parsed"), json!(e))),
        Ok((obj, same)) => {
          if !same {
            diffs.push(("presentation_differs_from_its_serialisation".into(), json!("equal"), json!("different")));
          }
          if obj.contains_key("address") != b(&case["out"]["address_shows"]) {
            diffs.push(("address_shows".into(), case["out"]["address_shows"].clone(), json!(obj.contains_key("address"))));
          }
          if obj.get("name") != Some(&json!("John Doe")) {
            diffs.push(("name_lost".into(), json!("John Doe"), json!(obj.get("name"))));
          }
        }
      }
    }
  }
  diffs
}

fn replay_chunk_flow(cases: &[Value], rep: &mut Report) {
  let w = FlowWorld { k1: ed_key("key1"), k2: ed_key("key2"), k3: ed_key("key3"), holder: ed_key("holder-key"), other: ed_key("other-key") };
  for case in cases {
    note_case(&case["row"]);
    rep.eval();
    let out = guarded(|| match s(&case["row"]["part"]) {
      "vc" => run_vc(case, &w),
      "kb" => run_kb(case, &w),
      _ => run_pres(case, &w),
    });
    match out {
      Err(p) => rep.mismatch("sd_jwt_vc_flow/panic", case, json!("no panic"), json!(p), "panic"),
      Ok(diffs) => {
        for (k, exp, obs) in diffs {
          rep.mismatch(&format!("sd_jwt_vc_flow/{k}"), case, exp, obs, "");
        }
      }
    }
    rep.nontrivial(format!("{}", case["row"]));
    if b(&case["out"]["accept"]) {
      rep.sample(case.clone());
    }
  }
}

pub fn replay_flow(cases: &[Value], rep: &mut Report) {
  par_replay(cases, rep, replay_chunk_flow);
}
