//! Beyond the list: LinkedDomainService / LinkedVerifiablePresentationService against spec/LinkedServices.tla.
use crate::util::*;
use identity_core::common::Object;
use identity_core::common::OrderedSet;
use identity_core::common::Url;
use identity_core::convert::FromJson;
use identity_credential::credential::LinkedDomainService;
use identity_credential::credential::LinkedVerifiablePresentationService;
use identity_did::DIDUrl;
use identity_document::service::Service;
use serde_json::json;
use serde_json::Value;

fn url_text(class: &str, host: &str) -> String {
  match class {
    "https_origin" => format!("https://{host}"),
    "https_origin_slash" => format!("https://{host}/"),
    "http_origin" => format!("http://{host}"),
    "with_path" => format!("https://{host}/about"),
    "with_query" => format!("https://{host}/?q=1"),
    "with_fragment" => format!("https://{host}/#top"),
    "with_port" => format!("https://{host}:8443"),
    o => tool_error(&format!("bad url class {o}")),
  }
}

fn urls_of(list: &Value) -> Vec<String> {
  arr(list).iter().enumerate().map(|(k, c)| url_text(s(c), if k == 0 { "foo.example.com" } else { "bar.example.com" })).collect()
}

fn type_name(kind: &str) -> &'static str {
  if kind == "linked_domains" {
    "LinkedDomains"
  } else {
    "LinkedVerifiablePresentation"
  }
}

fn service_json(row: &Value) -> Value {
  let exact = type_name(s(&row["kind"]));
  let types = match s(&row["types"]) {
    "exact" => json!(exact),
    "other" => json!("SomethingElse"),
    "exact_then_other" => json!([exact, "SomethingElse"]),
    _ => json!(["SomethingElse", exact]),
  };
  let urls = urls_of(&row["ep"]["urls"]);
  let ep = match s(&row["ep"]["shape"]) {
    "one" => json!(urls[0]),
    "set" => json!(urls),
    "map_origins" => json!({"origins": urls}),
    "map_origins_and_more" => json!({"origins": urls, "somethingElse": ["https://elsewhere.example.org/x"]}),
    "map_other_key" => json!({"somethingElse": ["https://foo.example.com"]}),
    _ => json!({}),
  };
  json!({"id": "did:example:123#linked", "type": types, "serviceEndpoint": ep})
}

/// Url::to_string of what the library parsed (it normalises "https://host" to "https://host/")
fn norm(u: &str) -> String {
  Url::parse(u).map(|x| x.to_string()).unwrap_or_else(|_| u.to_string())
}

fn run(case: &Value) -> Vec<(String, Value, Value)> {
  let row = &case["row"];
  let mut diffs = Vec::new();
  let accept = b(&case["out"]["accept"]);
  let domains = s(&row["kind"]) == "linked_domains";
  let (ok, got_urls, back): (bool, Vec<String>, Option<Value>) = if s(&row["via"]) == "new" {
    let urls = urls_of(&row["urls"]);
    let set: OrderedSet<Url> = urls.iter().map(|u| Url::parse(u).unwrap()).collect();
    let id = DIDUrl::parse("did:example:123#linked").unwrap();
    if domains {
      match LinkedDomainService::new(id, set, Object::new()) {
        Ok(x) => {
          let svc: Service = x.clone().into();
          if LinkedDomainService::check_structure(&svc).is_err() {
            diffs.push(("constructed_service_fails_its_own_check".into(), json!("passes"), json!(serde_json::to_value(&svc).unwrap())));
          }
          (true, x.domains().iter().map(|u| u.to_string()).collect(), None)
        }
        Err(_) => (false, vec![], None),
      }
    } else {
      match LinkedVerifiablePresentationService::new(id, set, Object::new()) {
        Ok(x) => {
          let svc: Service = x.clone().into();
          if LinkedVerifiablePresentationService::check_structure(&svc).is_err() {
            diffs.push(("constructed_service_fails_its_own_check".into(), json!("passes"), json!(serde_json::to_value(&svc).unwrap())));
          }
          (true, x.verifiable_presentation_urls().iter().map(|u| u.to_string()).collect(), None)
        }
        Err(_) => (false, vec![], None),
      }
    }
  } else {
    let j = service_json(row);
    let text = j.to_string();
    let from_json = s(&row["via"]) == "from_json";
    if domains {
      // LinkedDomainService has no Deserialize of its own: both routes go through the generic service
      let _ = from_json;
      let r = Service::from_json(&text).map_err(|e| e.to_string()).and_then(|sv| LinkedDomainService::try_from(sv).map_err(|e| e.to_string()));
      match r {
        Ok(x) => (true, x.domains().iter().map(|u| u.to_string()).collect(), Some(serde_json::to_value(Service::from(x)).unwrap())),
        Err(_) => (false, vec![], None),
      }
    } else {
      let r = if from_json {
        LinkedVerifiablePresentationService::from_json(&text).map_err(|e| e.to_string())
      } else {
        Service::from_json(&text)
          .map_err(|e| e.to_string())
          .and_then(|sv| LinkedVerifiablePresentationService::try_from(sv).map_err(|e| e.to_string()))
      };
      match r {
        Ok(x) => (
          true,
          x.verifiable_presentation_urls().iter().map(|u| u.to_string()).collect(),
          Some(serde_json::to_value(Service::from(x)).unwrap()),
        ),
        Err(_) => (false, vec![], None),
      }
    }
  };
  match (ok, accept) {
    (true, false) => diffs.push(("accepted_ill_formed_service".into(), json!("refused"), json!(got_urls))),
    (false, true) => diffs.push(("~well_formed_service_refused".into(), json!("accepted"), json!("refused"))),
    (true, true) => {
      let want: Vec<String> = if s(&row["via"]) == "new" { urls_of(&row["urls"]) } else { urls_of(&row["ep"]["urls"]) }.iter().map(|u| norm(u)).collect();
      if got_urls != want {
        diffs.push(("urls_handed_back".into(), json!(want), json!(got_urls)));
      }
      if let Some(bk) = back {
        // back to a generic service: the same service
        let orig: Value = serde_json::to_value(Service::from_json(&service_json(row).to_string()).unwrap()).unwrap();
        if bk != orig {
          diffs.push(("service_round_trip".into(), orig, bk));
        }
      }
    }
    (false, false) => {}
  }
  diffs
}

fn replay_chunk(cases: &[Value], rep: &mut Report) {
  for case in cases {
    note_case(&case["row"]);
    rep.eval();
    match guarded(|| run(case)) {
      Err(p) => rep.mismatch("linked_services/panic", case, json!("no panic"), json!(p), "panic"),
      Ok(diffs) => {
        for (k, exp, obs) in diffs {
          rep.mismatch(&format!("linked_services/{k}"), case, exp, obs, "");
        }
      }
    }
    rep.nontrivial(format!("{}", case["row"]));
    if b(&case["out"]["accept"]) {
      rep.sample(case.clone());
    }
  }
}

pub fn replay(cases: &[Value], rep: &mut Report) {
  par_replay(cases, rep, replay_chunk);
}
