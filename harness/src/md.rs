//! MethodDigest (spec/MethodDigest.tla): the key of the key-id store depends on (fragment, public key material) only.
use crate::util::*;
use identity_core::convert::FromJson;
use identity_did::CoreDID;
use identity_did::DID;
use identity_storage::key_id_storage::MethodDigest;
use identity_verification::jose::jwk::Jwk;
use identity_verification::MethodData;
use identity_verification::MethodType;
use identity_verification::VerificationMethod;
use serde_json::json;
use serde_json::Value;

fn did_of(tag: &str) -> CoreDID {
  match tag {
    "A" => CoreDID::parse("did:example:aaa").unwrap(),
    // the IOTA placeholder DID: what a document is created under before it is published
    "B" => CoreDID::parse("did:iota:0x0000000000000000000000000000000000000000000000000000000000000000").unwrap(),
    o => tool_error(&format!("bad did tag {o}")),
  }
}

fn key_bytes(k: &str) -> Vec<u8> {
  let seed = if k == "k1" { [0x31u8; 32] } else { [0x32u8; 32] };
  crypto::signatures::ed25519::SecretKey::from_bytes(&seed).public_key().to_bytes().to_vec()
}

fn frag_of(f: &str) -> &'static str {
  match f {
    "f1" => "key-one",
    "f2" => "key-two",
    "F1" => "Key-One",
    o => tool_error(&format!("bad fragment {o}")),
  }
}

fn build(m: &Value) -> VerificationMethod {
  let pk = key_bytes(s(&m["key"]));
  let x = identity_verification::jose::jwu::encode_b64(&pk);
  let (data, ty) = match s(&m["form"]) {
    "jwk" => (MethodData::PublicKeyJwk(Jwk::from_json_value(json!({"kty": "OKP", "crv": "Ed25519", "x": x})).unwrap()), MethodType::JSON_WEB_KEY_2020),
    "jwk_with_optional_members" => (
      MethodData::PublicKeyJwk(
        Jwk::from_json_value(json!({"kty": "OKP", "crv": "Ed25519", "x": x, "kid": "some-kid", "alg": "EdDSA", "use": "sig", "key_ops": ["verify"]})).unwrap(),
      ),
      MethodType::JSON_WEB_KEY_2020,
    ),
    "jwk_reordered" => (
      MethodData::PublicKeyJwk(Jwk::from_json(&format!("{{ \"x\" : \"{x}\" ,\n \"crv\":\"Ed25519\", \"kty\":\"OKP\" }}")).unwrap()),
      MethodType::JSON_WEB_KEY,
    ),
    "multibase" => (MethodData::new_multibase(&pk), MethodType::ED25519_VERIFICATION_KEY_2018),
    "base58" => (MethodData::new_base58(&pk), MethodType::X25519_KEY_AGREEMENT_KEY_2019),
    o => tool_error(&format!("bad form {o}")),
  };
  VerificationMethod::builder(Default::default())
    .id(did_of(s(&m["did"])).to_url().join(format!("#{}", frag_of(s(&m["frag"])))).unwrap())
    .controller(did_of(s(&m["controller"])))
    .type_(ty)
    .data(data)
    .build()
    .unwrap()
}

fn run(case: &Value) -> Vec<(String, Value, Value)> {
  let row = &case["row"];
  let mut diffs = Vec::new();
  match s(&row["kind"]) {
    "pair" => {
      let (a, b2) = (build(&row["a"]), build(&row["b"]));
      let (da, db) = match (MethodDigest::new(&a), MethodDigest::new(&b2)) {
        (Ok(x), Ok(y)) => (x, y),
        (x, y) => {
          diffs.push(("digest_refused".into(), json!("a digest for every method with a fragment and decodable key"), json!([x.is_ok(), y.is_ok()])));
          return diffs;
        }
      };
      let want = b(&case["out"]["equal"]);
      if (da == db) != want || (da.pack() == db.pack()) != want {
        let key = if want { "digest_depends_on_more_than_fragment_and_key" } else { "digest_collision" };
        diffs.push((key.into(), json!({"equal": want}), json!({"equal": da == db, "a": da.pack(), "b": db.pack()})));
      }
      // the digest survives what the document goes through: JSON round trip of the method
      let a2 = VerificationMethod::from_json(&serde_json::to_string(&a).unwrap()).unwrap();
      if MethodDigest::new(&a2).ok().as_ref() != Some(&da) {
        diffs.push(("digest_changes_over_json_round_trip".into(), json!(da.pack()), json!(MethodDigest::new(&a2).map(|d| d.pack()).ok())));
      }
    }
    _ => {
      let m = build(&row["m"]);
      let d = MethodDigest::new(&m).unwrap();
      let packed = d.pack();
      let mut frame = packed.clone();
      match s(&row["frame"]) {
        "packed" => {}
        "empty" => frame.clear(),
        "short_8" => frame.truncate(8),
        "long_10" => frame.push(0),
        "version_1" => frame[0] = 1,
        "version_255" => frame[0] = 255,
        o => tool_error(&format!("bad frame {o}")),
      }
      let r = MethodDigest::unpack(frame.clone());
      let want = b(&case["out"]["ok"]);
      match (r, want) {
        (Ok(u), true) => {
          if u != d || u.pack() != packed {
            diffs.push(("unpack_differs".into(), json!(packed), json!(u.pack())));
          }
        }
        (Err(_), false) => {}
        (Ok(_), false) => diffs.push(("damaged_frame_accepted".into(), json!("rejected"), json!(frame))),
        (Err(e), true) => diffs.push(("own_frame_rejected".into(), json!("unpacks"), json!(e.to_string()))),
      }
      if packed.len() != 9 || packed[0] != 0 {
        diffs.push(("frame_layout".into(), json!("1 version byte (0) + 8 bytes"), json!(packed)));
      }
    }
  }
  diffs
}

fn replay_chunk(cases: &[Value], rep: &mut Report) {
  for case in cases {
    note_case(&case["row"]);
    rep.eval();
    match guarded(|| run(case)) {
      Err(p) => rep.mismatch("method_digest/panic", case, json!("no panic"), json!(p), "panic"),
      Ok(diffs) => {
        for (k, exp, obs) in diffs {
          rep.mismatch(&format!("method_digest/{k}"), case, exp, obs, "");
        }
      }
    }
    rep.nontrivial(format!("{}", case["row"]));
    if case["out"].get("equal") == Some(&json!(true)) && case["row"]["a"] != case["row"]["b"] {
      rep.sample(case.clone());
    }
  }
}

pub fn replay(cases: &[Value], rep: &mut Report) {
  par_replay(cases, rep, replay_chunk);
}
