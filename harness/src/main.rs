//! vh — conformance harness binding the TLA+ specifications in /verif/spec to the real identity.rs code.
//!
//!   vh replay <prop> <cases.ndjson> <report.json>      direction R (spec -> implementation)
//!   vh record <prop> <seed> <n> <trace.ndjson>         direction V (implementation -> spec)
mod c01;
mod c02;
mod c03;
mod c04;
mod c05;
mod c06;
mod c07;
mod c08;
mod c09;
mod c10;
mod c11;
mod c12;
mod c13;
mod c14;
mod c15;
mod c16;
mod c17;
mod c18;
mod c19;
mod c20;
mod cs;
mod dl;
mod jpt;
mod ledger;
mod life;
mod ls;
mod md;
mod sdvc;
mod util;

use util::*;

fn main() {
  install_panic_hook();
  let args: Vec<String> = std::env::args().collect();
  if args.len() < 2 {
    tool_error("usage: vh replay|record ...");
  }
  match args[1].as_str() {
    "replay" => {
      if args.len() != 5 {
        tool_error("usage: vh replay <prop> <cases.ndjson> <report.json>");
      }
      let mut cases = read_cases(&args[3]);
      // several harnesses pick the concrete realisation of a case (relationship mapping, list placement, network, ...) from
      // its position; VERIF_SEED shifts the positions so that another seed pairs every case with other realisations
      let seed: usize = std::env::var("VERIF_SEED").ok().and_then(|v| v.parse().ok()).unwrap_or(1);
      if cases.len() > 1 && seed != 1 {
        let k = seed.wrapping_mul(7919) % cases.len();
        cases.rotate_left(k);
      }
      let mut rep = Report::new();
      start_watchdog(args[2].to_lowercase(), args[4].clone(), 120);
      note_case(&serde_json::json!("start"));
      match args[2].as_str() {
        "C01" => c01::replay(&cases, &mut rep),
        "C02" => c02::replay(&cases, &mut rep),
        "C03" => c03::replay(&cases, &mut rep),
        "C04" => c04::replay(&cases, &mut rep),
        "C05" => c05::replay(&cases, &mut rep),
        "C06" => c06::replay(&cases, &mut rep),
        "C07" => c07::replay(&cases, &mut rep),
        "C08" => c08::replay(&cases, &mut rep),
        "C09" => c09::replay(&cases, &mut rep),
        "C10" => c10::replay(&cases, &mut rep),
        "C11" => c11::replay(&cases, &mut rep),
        "C12" => c12::replay(&cases, &mut rep),
        "C13" => c13::replay(&cases, &mut rep),
        "C14" => c14::replay(&cases, &mut rep),
        "C15" => c15::replay(&cases, &mut rep),
        "C16" => c16::replay(&cases, &mut rep),
        "C17" => c17::replay(&cases, &mut rep),
        "C18" => c18::replay(&cases, &mut rep),
        "C19" => c19::replay(&cases, &mut rep),
        "C20" => c20::replay(&cases, &mut rep),
        "LIFE" => life::replay(&cases, &mut rep),
        "MD" => md::replay(&cases, &mut rep),
        "DL" => dl::replay(&cases, &mut rep),
        "LS" => ls::replay(&cases, &mut rep),
        "CS" => cs::replay(&cases, &mut rep),
        "JPT" => jpt::replay(&cases, &mut rep),
        "LEDGER" => ledger::replay(&cases, &mut rep),
        "TFR" => jpt::replay_tfr(&cases, &mut rep),
        "SDVC" => sdvc::replay(&cases, &mut rep),
        "SDVCFLOW" => sdvc::replay_flow(&cases, &mut rep),
        p => tool_error(&format!("no replay driver for {p}")),
      }
      rep.write(&args[4]);
    }
    "record" => {
      if args.len() != 6 {
        tool_error("usage: vh record <prop> <seed> <n> <trace.ndjson>");
      }
      let seed: u64 = args[3].parse().unwrap_or_else(|_| tool_error("bad seed"));
      let n: u64 = args[4].parse().unwrap_or_else(|_| tool_error("bad n"));
      let mut out = TraceOut::create(&args[5]);
      match args[2].as_str() {
        "C04" => c04::record(seed, n, &mut out),
        "C06" => c06::record(seed, n, &mut out),
        "C10" => c10::record(seed, n, &mut out),
        "C12.list" => c12::record("list", seed, n, &mut out),
        "C12.cred" => c12::record("cred", seed, n, &mut out),
        "C13" => c13::record(seed, n, &mut out),
        "LIFE" => life::record(seed, n, &mut out),
        "C15.seq" => c15::record_seq(seed, n, &mut out),
        "C15.race" => c15::record_race(seed, n, &mut out),
        "C19.OrderedSet" => c19::record_ordered_set(seed, n, &mut out),
        "C19.OneOrSet" => c19::record_one_or_set(seed, n, &mut out),
        "C19.OneOrMany" => c19::record_one_or_many(seed, n, &mut out),
        p => tool_error(&format!("no record driver for {p}")),
      }
      out.finish();
    }
    other => tool_error(&format!("unknown command {other}")),
  }
}
