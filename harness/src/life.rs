//! Composition (spec/Lifecycle.tla): one issuer over time -- generate / purge / attach / detach methods through the
//! storage-backed API, issue credentials, revoke / unrevoke them, and validate EARLIER tokens against the document as it
//! is now. Every behaviour TLC emits is executed step by step on the real objects of five crates (identity_document,
//! identity_storage, identity_credential, identity_jose, identity_verification) and every step's outcome is compared.
use crate::util::*;
use futures::executor::block_on;
use identity_core::common::Object;
use identity_core::convert::FromJson;
use identity_core::convert::ToJson;
use identity_core::common::Timestamp;
use identity_core::common::Url;
use identity_credential::credential::Credential;
use identity_credential::credential::CredentialBuilder;
use identity_credential::credential::Jwt;
use identity_credential::credential::RevocationBitmapStatus;
use identity_credential::credential::Subject;
use identity_credential::revocation::RevocationBitmap;
use identity_credential::revocation::RevocationDocumentExt;
use identity_credential::validator::FailFast;
use identity_credential::validator::JwtCredentialValidationOptions;
use identity_credential::validator::JwtCredentialValidator;
use identity_credential::validator::JwtValidationError;
use identity_did::CoreDID;
use identity_did::DIDUrl;
use identity_did::DID;
use identity_document::document::CoreDocument;
use identity_document::verifiable::JwsVerificationOptions;
use identity_eddsa_verifier::EdDSAJwsVerifier;
use identity_iota_core::IotaDID;
use identity_iota_core::IotaDocument;
use identity_storage::JwkDocumentExt;
use identity_storage::JwkMemStore;
use identity_storage::JwsSignatureOptions;
use identity_storage::KeyIdMemstore;
use identity_storage::Storage;
use identity_verification::jose::jws::JwsAlgorithm;
use identity_verification::MethodRelationship;
use identity_verification::MethodScope;
use serde_json::json;
use serde_json::Value;

type MemStorage = Storage<JwkMemStore, KeyIdMemstore>;

enum Doc {
  Core(CoreDocument),
  Iota(Box<IotaDocument>),
}

impl Doc {
  fn core(&self) -> &CoreDocument {
    match self {
      Doc::Core(d) => d,
      Doc::Iota(d) => d.core_document(),
    }
  }
  fn did(&self) -> CoreDID {
    self.core().id().clone()
  }
}

struct Issuer {
  doc: Doc,
  storage: MemStorage,
  tokens: Vec<Jwt>,
}

const SERVICE: &str = "revocation";
/// model index classes -> concrete indices in different roaring containers
fn index_of(i: i64) -> u32 {
  match i {
    1 => 5,
    2 => 70_001,
    3 => 131_072,
    _ => 9,
  }
}

/// the two DIDs an IOTA document moves between: the placeholder it is created under, and its DID once published
fn iota_did(epoch: i64) -> IotaDID {
  if epoch == 0 {
    IotaDID::placeholder(&identity_iota_core::NetworkName::try_from("tst").unwrap())
  } else {
    IotaDID::parse("did:iota:tst:0x5555555555555555555555555555555555555555555555555555555555555555").unwrap()
  }
}

fn new_issuer(iota: bool) -> Issuer {
  let mut doc = if iota {
    let did = iota_did(0);
    Doc::Iota(Box::new(IotaDocument::new_with_id(did)))
  } else {
    Doc::Core(CoreDocument::builder(Object::new()).id(CoreDID::parse("did:example:issuer-over-time").unwrap()).build().unwrap())
  };
  let svc_id = doc.did().to_url().join(format!("#{SERVICE}")).unwrap();
  let svc = RevocationBitmap::new().to_service(svc_id).unwrap();
  match &mut doc {
    Doc::Core(d) => d.insert_service(svc).unwrap(),
    Doc::Iota(d) => d.insert_service(svc).unwrap(),
  };
  Issuer { doc, storage: Storage::new(JwkMemStore::new(), KeyIdMemstore::new()), tokens: Vec::new() }
}

fn credential(issuer: &CoreDID, i: i64) -> Credential {
  let svc: DIDUrl = issuer.to_url().join(format!("#{SERVICE}")).unwrap();
  CredentialBuilder::default()
    .id(Url::parse(format!("https://example.edu/credentials/{i}")).unwrap())
    .issuer(Url::parse(issuer.as_str()).unwrap())
    .type_("UniversityDegreeCredential")
    .issuance_date(Timestamp::from_unix(1_700_000_000).unwrap())
    .subject(Subject::with_id(Url::parse("did:example:subject").unwrap()))
    .status(RevocationBitmapStatus::new(svc, index_of(i)))
    .build()
    .unwrap()
}

fn err_kind(e: &JwtValidationError) -> String {
  match <&'static str>::from(e) {
    "MethodDataLookupError" => "method_lookup".into(),
    "DocumentMismatch" => "document_mismatch".into(),
    "Signature" => "signature".into(),
    "Revoked" => "revoked".into(),
    other => other.to_string(),
  }
}

impl Issuer {
  fn step(&mut self, op: &Value) -> Value {
    let frag = |op: &Value| format!("key-{}", s(&op["f"]));
    match s(&op["name"]) {
      "generate" => {
        let scope = if s(&op["scope"]) == "vm" { MethodScope::VerificationMethod } else { MethodScope::assertion_method() };
        let f = frag(op);
        let r = match &mut self.doc {
          Doc::Core(d) => block_on(d.generate_method(&self.storage, JwkMemStore::ED25519_KEY_TYPE, JwsAlgorithm::EdDSA, Some(&f), scope)),
          Doc::Iota(d) => block_on(d.generate_method(&self.storage, JwkMemStore::ED25519_KEY_TYPE, JwsAlgorithm::EdDSA, Some(&f), scope)),
        };
        match r {
          Ok(_) => json!({"ok": true}),
          Err(_) => json!({"ok": false, "err": "exists"}),
        }
      }
      "purge" => {
        let id = self.doc.did().to_url().join(format!("#{}", frag(op))).unwrap();
        let r = match &mut self.doc {
          Doc::Core(d) => block_on(d.purge_method(&self.storage, &id)),
          Doc::Iota(d) => block_on(d.purge_method(&self.storage, &id)),
        };
        match r {
          Ok(()) => json!({"ok": true}),
          Err(_) => json!({"ok": false, "err": "not_found"}),
        }
      }
      n @ ("attach" | "detach") => {
        let f = frag(op);
        let present = self.doc.core().resolve_method(f.as_str(), None).is_some();
        let r = match (&mut self.doc, n) {
          (Doc::Core(d), "attach") => d.attach_method_relationship(f.as_str(), MethodRelationship::AssertionMethod).map_err(|e| e.to_string()),
          (Doc::Core(d), _) => d.detach_method_relationship(f.as_str(), MethodRelationship::AssertionMethod).map_err(|e| e.to_string()),
          (Doc::Iota(d), "attach") => d.attach_method_relationship(f.as_str(), MethodRelationship::AssertionMethod).map_err(|e| e.to_string()),
          (Doc::Iota(d), _) => d.detach_method_relationship(f.as_str(), MethodRelationship::AssertionMethod).map_err(|e| e.to_string()),
        };
        match r {
          Ok(changed) => json!({"ok": true, "changed": changed}),
          Err(_) => json!({"ok": false, "err": if present { "embedded" } else { "not_found" }}),
        }
      }
      "issue" => {
        let cred = credential(&self.doc.did(), i(&op["i"]));
        let f = frag(op);
        let r = block_on(self.doc.core().create_credential_jwt(&cred, &self.storage, &f, &JwsSignatureOptions::default(), None));
        match r {
          Ok(jwt) => {
            self.tokens.push(jwt);
            json!({"ok": true, "token": self.tokens.len()})
          }
          Err(_) => json!({"ok": false, "err": "method_not_found"}),
        }
      }
      n @ ("revoke" | "unrevoke") => {
        let idx = [index_of(i(&op["i"]))];
        let q = format!("#{SERVICE}");
        let r = match (&mut self.doc, n) {
          (Doc::Core(d), "revoke") => d.revoke_credentials(q.as_str(), &idx).map_err(|e| e.to_string()),
          (Doc::Core(d), _) => d.unrevoke_credentials(q.as_str(), &idx).map_err(|e| e.to_string()),
          (Doc::Iota(d), "revoke") => d.revoke_credentials(q.as_str(), &idx).map_err(|e| e.to_string()),
          (Doc::Iota(d), _) => d.unrevoke_credentials(q.as_str(), &idx).map_err(|e| e.to_string()),
        };
        match r {
          Ok(()) => json!({"ok": true}),
          Err(e) => json!({"ok": false, "err": e}),
        }
      }
      "rebase" => {
        // pack into state metadata, unpack under the other DID: every self-reference moves, the stores are untouched
        let Doc::Iota(d) = &self.doc else {
          return json!({"ok": false, "err": "harness: rebase needs an IotaDocument"});
        };
        let r = (**d)
          .clone()
          .pack()
          .and_then(|bytes| identity_iota_core::StateMetadataDocument::unpack(&bytes))
          .and_then(|smd| smd.into_iota_document(&iota_did(i(&op["to"]))));
        match r {
          Ok(nd) => {
            self.doc = Doc::Iota(Box::new(nd));
            json!({"ok": true})
          }
          Err(e) => json!({"ok": false, "err": e.to_string()}),
        }
      }
      "validate" => {
        let k = i(&op["token"]) as usize;
        let Some(jwt) = self.tokens.get(k - 1) else {
          return json!({"ok": false, "err": "harness: no such token"});
        };
        let mut v = JwsVerificationOptions::new();
        match s(&op["scope"]) {
          "assertionMethod" => v = v.method_scope(MethodScope::assertion_method()),
          "vm" => v = v.method_scope(MethodScope::VerificationMethod),
          _ => {}
        }
        let opts = JwtCredentialValidationOptions::new()
          .latest_issuance_date(Timestamp::from_unix(1_800_000_000).unwrap())
          .earliest_expiry_date(Timestamp::from_unix(1_600_000_000).unwrap())
          .verification_options(v);
        let validator = JwtCredentialValidator::with_signature_verifier(EdDSAJwsVerifier::default());
        match validator.validate::<_, Object>(jwt, self.doc.core(), &opts, FailFast::FirstError) {
          Ok(d) => {
            // what comes back is what was issued
            if d.credential.issuer.url().as_str() != self.doc.did().as_str() {
              return json!({"ok": false, "err": "harness: returned credential has another issuer"});
            }
            json!({"ok": true})
          }
          Err(e) => json!({"ok": false, "err": e.validation_errors.first().map(err_kind).unwrap_or_default()}),
        }
      }
      o => tool_error(&format!("bad lifecycle op {o}")),
    }
  }

  /// cross-crate consistency of the real state after every step: the document survives a JSON round trip and every
  /// method of the document has its key in the key store (nothing orphaned in either direction)
  fn consistent(&self) -> Result<(), String> {
    let core = self.doc.core();
    let json = core.to_json().map_err(|e| e.to_string())?;
    let back = CoreDocument::from_json(&json).map_err(|e| format!("document does not deserialise: {e}"))?;
    if &back != core {
      return Err("document changed by a JSON round trip".into());
    }
    let n_methods = core.methods(None).len();
    let keys = block_on(self.storage.key_storage().count());
    let kids = block_on(self.storage.key_id_storage().count());
    if keys != n_methods || kids != n_methods {
      return Err(format!("{n_methods} methods in the document but {keys} keys / {kids} key ids in the stores"));
    }
    Ok(())
  }
}

fn run_path(case: &Value, iota: bool) -> Option<(String, Value, Value, Value)> {
  let mut iss = new_issuer(iota);
  for (n, e) in arr(&case["ops"]).iter().enumerate() {
    let got = iss.step(&e["op"]);
    if got != e["res"] {
      return Some((format!("{}", s(&e["op"]["name"])), json!({"step": n + 1, "op": e["op"]}), e["res"].clone(), got));
    }
    if let Err(x) = iss.consistent() {
      return Some((format!("{}/inconsistent_state", s(&e["op"]["name"])), json!({"step": n + 1, "op": e["op"]}), json!("document, key store and key-id store agree"), json!(x)));
    }
  }
  None
}

fn replay_chunk(cases: &[Value], rep: &mut Report) {
  for (ci, case) in cases.iter().enumerate() {
    note_case(case);
    rep.eval();
    let has_rebase = arr(&case["ops"]).iter().any(|e| e["op"]["name"] == json!("rebase"));
    let iota = has_rebase || ci % 2 == 1;
    match guarded(|| run_path(case, iota)) {
      Err(p) => rep.mismatch("lifecycle/panic", case, json!("no panic"), json!(p), "panic"),
      Ok(Some((k, at, exp, got))) => {
        rep.mismatch(&format!("lifecycle/{k}"), &json!({"behaviour": case["ops"], "at": at, "document": if iota { "IotaDocument" } else { "CoreDocument" }}), exp, got, "composition law")
      }
      Ok(None) => {}
    }
    let ops = arr(&case["ops"]);
    rep.add("lifecycle_steps", ops.len() as u64);
    let accepts = ops.iter().filter(|e| e["op"]["name"] == json!("validate") && e["res"]["ok"] == json!(true)).count();
    let rejects = ops.iter().filter(|e| e["op"]["name"] == json!("validate") && e["res"]["ok"] == json!(false)).count();
    rep.add("lifecycle_validations_accepting", accepts as u64);
    rep.add("lifecycle_validations_rejecting", rejects as u64);
    if accepts > 0 && rejects > 0 {
      rep.nontrivial(format!("{}", case["ops"]));
      rep.sample(case.clone());
    }
  }
}

pub fn replay(cases: &[Value], rep: &mut Report) {
  par_replay(cases, rep, replay_chunk);
}

/// Direction V: long random histories on live issuers (CoreDocument and IotaDocument alternately), one event per call at
/// its return; validated against spec/LifecycleTrace.tla.
pub fn record(seed: u64, n: u64, out: &mut TraceOut) {
  use rand::Rng;
  let mut r = rng(seed);
  let frags = ["a", "b", "c", "d"];
  let mut left = n;
  let mut round = 0usize;
  while left > 0 {
    let iota = round % 2 == 0;
    round += 1;
    let mut iss = match guarded(|| new_issuer(iota)) {
      Ok(i) => i,
      Err(e) => {
        out.event(json!({"op": {"name": "reset"}, "res": {"ok": false, "failure": e}}));
        left = left.saturating_sub(50);
        continue;
      }
    };
    out.event(json!({"op": {"name": "reset"}, "res": {"ok": true}, "document": if iota { "IotaDocument" } else { "CoreDocument" }}));
    let seg = left.min(r.gen_range(60..240));
    left -= seg;
    let mut epoch = 0i64;
    for _ in 0..seg {
      let f = frags[r.gen_range(0..frags.len())];
      let i = r.gen_range(1..=3);
      let ntok = iss.tokens.len() as i64;
      let op = match r.gen_range(0..100) {
        0..=14 => json!({"name": "generate", "f": f, "scope": if r.gen_bool(0.6) { "vm" } else { "emb" }}),
        15..=24 => json!({"name": "purge", "f": f}),
        25..=31 => json!({"name": "attach", "f": f}),
        32..=36 => json!({"name": "detach", "f": f}),
        37..=51 => json!({"name": "issue", "f": f, "i": i}),
        52..=59 => json!({"name": "revoke", "i": i}),
        60..=65 => json!({"name": "unrevoke", "i": i}),
        66..=70 if iota => {
          epoch = 1 - epoch;
          json!({"name": "rebase", "to": epoch})
        }
        _ if ntok > 0 => {
          let sc = ["none", "assertionMethod", "vm"][r.gen_range(0..3)];
          let tk = r.gen_range(1..=ntok);
          json!({"name": "validate", "token": tk, "scope": sc})
        }
        _ => json!({"name": "issue", "f": f, "i": i}),
      };
      let res = match guarded(|| iss.step(&op)) {
        Ok(v) => v,
        Err(p) => json!({"ok": false, "panic": p}),
      };
      let res = match iss.consistent() {
        Ok(()) => res,
        Err(x) => json!({"ok": res["ok"], "inconsistent_state": x}),
      };
      out.event(json!({"op": op, "res": res}));
    }
  }
}
