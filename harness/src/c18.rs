//! C18: Jwk public projection, thumbprint and key-type coherence against spec/Jwk.tla.
use crate::util::*;
use futures::executor::block_on;
use identity_core::convert::FromJson;
use identity_did::CoreDID;
use identity_document::document::CoreDocument;
use identity_jose::jwk::Jwk;
use identity_jose::jwk::JwkOperation;
use identity_jose::jwk::JwkParams;
use identity_jose::jwk::JwkParamsEc;
use identity_jose::jwk::JwkParamsOct;
use identity_jose::jwk::JwkParamsOkp;
use identity_jose::jwk::JwkParamsRsa;
use identity_jose::jwk::JwkType;
use identity_jose::jwk::JwkUse;
use identity_storage::JwkDocumentExt;
use identity_storage::JwkMemStore;
use identity_storage::JwkStorage;
use identity_verification::jose::jws::JwsAlgorithm;
use identity_verification::MethodBuilder;
use identity_verification::MethodData;
use identity_verification::MethodScope;
use identity_verification::MethodType;
use identity_verification::VerificationMethod;
use serde_json::json;
use serde_json::Value;

const PRIVATE_NAMES: [&str; 8] = ["d", "p", "q", "dp", "dq", "qi", "oth", "k"];

fn kty_name(f: &str) -> &'static str {
  match f {
    "EC" => "EC",
    "RSA" => "RSA",
    "OKP" => "OKP",
    _ => "oct",
  }
}
fn kty_of(f: &str) -> JwkType {
  match f {
    "EC" => JwkType::Ec,
    "RSA" => JwkType::Rsa,
    "OKP" => JwkType::Okp,
    _ => JwkType::Oct,
  }
}

/// JSON members of a key of `family` carrying the private members `privs` (without kty / optional members)
fn family_members(family: &str, privs: &[&str]) -> Vec<(String, Value)> {
  let mut m: Vec<(String, Value)> = match family {
    "EC" => vec![("crv".into(), json!("P-256")), ("x".into(), json!("f83OJ3D2xF1Bg8vub9tLe1gHMzV76e8Tus9uPHvRVEU")), ("y".into(), json!("x_FEzRu9m36HLN_tue659LNpXW6pCyStikYjKIWI5a0"))],
    "RSA" => vec![("n".into(), json!("0vx7agoebGcQSuuPiLJXZptN9nndrQmbXEps2aiAFbWhM78LhWx4cbbfAAtVT86zwu1RK7aPFFxuhDR1L6tSoc_BJECPebWKRXjBZCiFV4n3oknjhMstn64tZ_2W-5JsGY4Hc5n9yBXArwl93lqt7_RN5w6Cf0h4QyQ5v-65YGjQR0_FDW2QvzqY368QQMicAtaSqzs8KJZgnYb9c7d0zgdAZHzu6qMQvRL5hajrn1n91CbOpbISD08qNLyrdkt-bFTWhAI4vMQFh6WeZu0fM4lFd2NcRwr3XPksINHaQ-G_xBniIqbw0Ls1jF44-csFCur-kEgU8awapJzKnqDKgw")), ("e".into(), json!("AQAB"))],
    "OKP" => vec![("crv".into(), json!("Ed25519")), ("x".into(), json!("11qYAYKxCrfVS_7TyWQHOg7hcvPapiMlrwIaaPcHURo"))],
    _ => vec![("k".into(), json!("AyM1SysPpbyDfgZld3umj1qzKObwVMkoqQ-EstJQLr_T-1qS0gZH75aKtMN3Yj0iPS4hcgUuTwjAzZr1Z9CAow"))],
  };
  for p in privs {
    let v = if *p == "oth" { json!([{"r": "AQ", "d": "Ag", "t": "Aw"}]) } else { json!(format!("cHJpdmF0ZS17{}fQ", p.len())) };
    m.push((p.to_string(), v));
  }
  m
}

fn optional_members(opt: &[&str]) -> Vec<(String, Value)> {
  let mut m = Vec::new();
  for o in opt {
    m.push((
      o.to_string(),
      match *o {
        "use" => json!("sig"),
        "key_ops" => json!(["sign"]),
        "alg" => json!("EdDSA"),
        "kid" => json!("key-identifier-1"),
        _ => json!("https://example.com/cert.pem"),
      },
    ));
  }
  m
}

fn json_key(declared: &str, family: &str, privs: &[&str], opt: &[&str], reversed: bool) -> Value {
  let mut members: Vec<(String, Value)> = vec![("kty".into(), json!(kty_name(declared)))];
  members.extend(optional_members(opt));
  members.extend(family_members(family, privs));
  if reversed {
    members.reverse();
  }
  let mut o = serde_json::Map::new();
  for (k, v) in members {
    o.insert(k, v);
  }
  Value::Object(o)
}

fn params_of(family: &str, privs: &[&str]) -> JwkParams {
  let mut o = serde_json::Map::new();
  for (k, v) in family_members(family, privs) {
    o.insert(k, v);
  }
  let v = Value::Object(o);
  match family {
    "EC" => JwkParams::Ec(serde_json::from_value::<JwkParamsEc>(v).unwrap()),
    "RSA" => JwkParams::Rsa(serde_json::from_value::<JwkParamsRsa>(v).unwrap()),
    "OKP" => JwkParams::Okp(serde_json::from_value::<JwkParamsOkp>(v).unwrap()),
    _ => JwkParams::Oct(serde_json::from_value::<JwkParamsOct>(v).unwrap()),
  }
}

fn apply_optional(j: &mut Jwk, opt: &[&str]) {
  for o in opt {
    match *o {
      "use" => j.set_use(JwkUse::Signature),
      "key_ops" => j.set_key_ops([JwkOperation::Sign]),
      "alg" => j.set_alg("EdDSA"),
      "kid" => j.set_kid("key-identifier-1"),
      _ => j.set_x5u(identity_core::common::Url::parse("https://example.com/cert.pem").unwrap()),
    }
  }
}

fn strs(v: &Value) -> Vec<&str> {
  arr(v).iter().map(s).collect()
}

/// the family of parameters a Jwk value really carries
fn carried_family(j: &Jwk) -> &'static str {
  match j.params() {
    JwkParams::Ec(_) => "EC",
    JwkParams::Rsa(_) => "RSA",
    JwkParams::Okp(_) => "OKP",
    JwkParams::Oct(_) => "oct",
  }
}

fn run_row(case: &Value) -> Vec<(String, Value, Value)> {
  let row = &case["row"];
  let out = &case["out"];
  let mut diffs = Vec::new();
  let family = s(&row["family"]);
  let declared = s(&row["declared"]);
  let privs = strs(&row["priv"]);
  let opt = strs(&row["opt"]);
  // ---- obtain the value the way the row says ----
  let got: Option<Jwk> = match s(&row["origin"]) {
    "from_json" => serde_json::from_value::<Jwk>(json_key(declared, family, &privs, &opt, s(&row["order"]) == "reversed")).ok(),
    "from_params" => {
      let mut j = Jwk::from_params(params_of(family, &privs));
      apply_optional(&mut j, &opt);
      Some(j)
    }
    "new_set_params" => {
      let mut j = Jwk::new(kty_of(declared));
      match j.set_params(params_of(family, &privs)) {
        Ok(()) => {
          apply_optional(&mut j, &opt);
          Some(j)
        }
        Err(_) => {
          // a refused setter leaves the key as it was: the key the caller still holds is a JWK like any other
          let untouched = Jwk::new(kty_of(declared));
          if j != untouched || j.kty().name() != kty_name(carried_family(&j)) {
            diffs.push((
              "refused_setter_changed_the_key".into(),
              serde_json::to_value(&untouched).unwrap(),
              json!({"kty": j.kty().name(), "params": carried_family(&j), "key": serde_json::to_value(&j).unwrap()}),
            ));
          }
          None
        }
      }
    }
    _ => {
      // start from a key of `family`, then change the type
      let mut j = Jwk::from_params(params_of(family, &privs));
      apply_optional(&mut j, &opt);
      j.set_kty(kty_of(declared));
      Some(j)
    }
  };
  let obtainable = b(&out["obtainable"]);
  let Some(j) = got else {
    if obtainable {
      diffs.push(("~coherent_key_refused".into(), json!("obtainable"), json!("refused")));
    }
    return diffs;
  };
  // ---- the declared key type always matches the family of parameters carried ----
  if j.kty().name() != kty_name(carried_family(&j)) {
    diffs.push(("kty_family_mismatch".into(), json!("declared key type = parameter family"), json!({"kty": j.kty().name(), "params": carried_family(&j), "key": serde_json::to_value(&j).unwrap()})));
    return diffs;
  }
  if !obtainable {
    diffs.push(("incoherent_key_accepted".into(), json!("refused"), json!(serde_json::to_value(&j).unwrap())));
    return diffs;
  }
  if j.kty().name() != kty_name(s(&out["kty"])) {
    diffs.push(("kty".into(), out["kty"].clone(), json!(j.kty().name())));
  }
  // ---- public / private reporting ----
  if j.is_public() != b(&out["is_public"]) {
    diffs.push(("is_public".into(), out["is_public"].clone(), json!(j.is_public())));
  }
  // ---- public projection ----
  let text_has_private = |k: &Jwk| -> Vec<String> {
    let v = serde_json::to_value(k).unwrap();
    PRIVATE_NAMES.iter().filter(|n| v.get(**n).is_some()).map(|n| n.to_string()).collect()
  };
  match j.to_public() {
    None => {
      if b(&out["has_public_projection"]) {
        diffs.push(("to_public_none".into(), json!("a public projection"), json!(null)));
      }
    }
    Some(p) => {
      if !b(&out["has_public_projection"]) {
        diffs.push(("to_public_of_symmetric".into(), json!(null), serde_json::to_value(&p).unwrap()));
      }
      let leaked = text_has_private(&p);
      if !leaked.is_empty() || !p.is_public() || p.is_private() {
        diffs.push(("projection_leaks".into(), json!("no private member"), json!(leaked)));
      }
      // keeps the public key parameters and the key type
      let (pv, jv) = (serde_json::to_value(&p).unwrap(), serde_json::to_value(&j).unwrap());
      for name in ["kty", "crv", "x", "y", "n", "e"] {
        if pv.get(name) != jv.get(name) {
          diffs.push(("projection_changes_public_part".into(), json!({name: jv.get(name)}), json!({name: pv.get(name)})));
        }
      }
      // idempotent
      match p.to_public() {
        Some(pp) if pp == p => {}
        other => diffs.push(("projection_not_idempotent".into(), pv.clone(), json!(other.map(|k| serde_json::to_value(&k).unwrap())))),
      }
      // thumbprint: unchanged by the private part, optional members and member order
      if p.thumbprint_sha256_b64() != j.thumbprint_sha256_b64() {
        diffs.push(("thumbprint_depends_on_private_part".into(), json!(p.thumbprint_sha256_b64()), json!(j.thumbprint_sha256_b64())));
      }
    }
  }
  let bare = Jwk::from_params(params_of(carried_family(&j), &[]));
  let same_public_part = s(&row["origin"]) != "set_kty"; // set_kty empties the parameters
  if same_public_part && carried_family(&j) != "oct" && bare.thumbprint_sha256_b64() != j.thumbprint_sha256_b64() {
    diffs.push(("thumbprint_depends_on_optional_members".into(), json!(bare.thumbprint_sha256_b64()), json!(j.thumbprint_sha256_b64())));
  }
  // ---- the thumbprint is a function of the CURRENT required public members: after the public part was changed through
  // the mutable accessors (on a key whose thumbprint had been asked for, and on a clone of it) it equals the thumbprint of
  // a key freshly built from the same members; a serde round trip does not change it
  if same_public_part {
    let before = j.thumbprint_sha256_b64();
    let mut changed = j.clone();
    let mut touched = true;
    match changed.params_mut() {
      JwkParams::Ec(p) => p.x = identity_jose::jwu::encode_b64([0x5au8; 32]),
      JwkParams::Okp(p) => p.x = identity_jose::jwu::encode_b64([0x5au8; 32]),
      JwkParams::Rsa(p) => p.n = identity_jose::jwu::encode_b64([0x5au8; 64]),
      JwkParams::Oct(p) => p.k = identity_jose::jwu::encode_b64([0x5au8; 16]),
      #[allow(unreachable_patterns)]
      _ => touched = false,
    }
    if touched {
      let fresh = Jwk::from_json_value(serde_json::to_value(&changed).unwrap());
      match fresh {
        Ok(f) => {
          if f.thumbprint_sha256_b64() != changed.thumbprint_sha256_b64() {
            diffs.push(("thumbprint_stale_after_change".into(), json!(f.thumbprint_sha256_b64()), json!(changed.thumbprint_sha256_b64())));
          }
          if carried_family(&j) != "oct" && changed.thumbprint_sha256_b64() == before {
            diffs.push(("thumbprint_ignores_public_member".into(), json!("differs after the public member changed"), json!(before)));
          }
        }
        // a deserialiser may refuse keys it used to take (the property speaks about keys that ARE obtained): compare with a
        // key freshly built from the same parameters instead, and note the refusal as drift
        Err(e) => {
          let f = Jwk::from_params(changed.params().clone());
          if f.thumbprint_sha256_b64() != changed.thumbprint_sha256_b64() {
            diffs.push(("thumbprint_stale_after_change".into(), json!(f.thumbprint_sha256_b64()), json!(changed.thumbprint_sha256_b64())));
          }
          if carried_family(&j) != "oct" && changed.thumbprint_sha256_b64() == before {
            diffs.push(("thumbprint_ignores_public_member".into(), json!("differs after the public member changed"), json!(before)));
          }
          diffs.push(("~changed_key_refused_by_the_deserialiser".into(), json!("round trips"), json!(e.to_string())));
        }
      }
    }
    if let Ok(back) = Jwk::from_json_value(serde_json::to_value(&j).unwrap()) {
      if back.thumbprint_sha256_b64() != before {
        diffs.push(("thumbprint_changes_over_serde".into(), json!(before), json!(back.thumbprint_sha256_b64())));
      }
    }
  }
  // ---- constructors of verification methods never take private members ----
  let did = CoreDID::parse("did:example:owner").unwrap();
  let r1 = VerificationMethod::new_from_jwk(did.clone(), j.clone(), Some("key"));
  let r2 = MethodBuilder::default()
    .id(identity_did::DIDUrl::parse("did:example:owner#key").unwrap())
    .controller(did)
    .type_(MethodType::JSON_WEB_KEY_2020)
    .data(MethodData::PublicKeyJwk(j.clone()))
    .build();
  // ... nor does the did:jwk route: the method of a did:jwk DID and the document it expands to
  let did_jwk = identity_did::DIDJwk::parse(&format!("did:jwk:{}", identity_jose::jwu::encode_b64(serde_json::to_vec(&j).unwrap())));
  let r3 = match &did_jwk {
    Ok(d) => VerificationMethod::try_from(d.clone()).map_err(|e| e.to_string()),
    Err(e) => Err(e.to_string()),
  };
  if let Ok(d) = &did_jwk {
    if let Ok(doc) = CoreDocument::expand_did_jwk(d.clone()) {
      let text = serde_json::to_string(&doc).unwrap();
      let v: Value = serde_json::from_str(&text).unwrap();
      let leaked: Vec<&str> = PRIVATE_NAMES
        .iter()
        .copied()
        .filter(|n| v["verificationMethod"].as_array().map(|a| a.iter().any(|m| m["publicKeyJwk"].get(*n).is_some())).unwrap_or(false))
        .collect();
      if !b(&out["method_ok"]) || !leaked.is_empty() {
        diffs.push(("method_with_private_key/expand_did_jwk".into(), json!("refused"), json!(leaked)));
      }
    }
  }
  let r1 = r1.map_err(|e| e.to_string());
  let r2 = r2.map_err(|e| e.to_string());
  for (name, r) in [("new_from_jwk", r1), ("MethodBuilder::build", r2), ("TryFrom<DIDJwk>", r3)] {
    match r {
      Ok(m) => {
        let text = serde_json::to_string(&m).unwrap();
        let v: Value = serde_json::from_str(&text).unwrap();
        let leaked: Vec<&str> = PRIVATE_NAMES.iter().copied().filter(|n| v["publicKeyJwk"].get(*n).is_some()).collect();
        if !b(&out["method_ok"]) || !leaked.is_empty() {
          diffs.push((format!("method_with_private_key/{name}"), json!("refused"), json!(leaked)));
        }
      }
      Err(_) => {
        if b(&out["method_ok"]) {
          diffs.push((format!("~method_refused/{name}"), json!("built"), json!("refused")));
        }
      }
    }
  }
  diffs
}

/// key generation: the output handed back and the document never contain private members
fn check_generation(rep: &mut Report) {
  rep.eval();
  rep.nontrivial("generation");
  let r = guarded(|| -> Option<String> {
    let store = JwkMemStore::new();
    let out = block_on(store.generate(JwkMemStore::ED25519_KEY_TYPE, JwsAlgorithm::EdDSA)).ok()?;
    let v = serde_json::to_value(&out.jwk).unwrap();
    if PRIVATE_NAMES.iter().any(|n| v.get(*n).is_some()) || !out.jwk.is_public() {
      return Some("JwkGenOutput.jwk carries private members".into());
    }
    let w = crate::c09::world();
    let mut doc = CoreDocument::builder(Default::default()).id(CoreDID::parse("did:example:gen").unwrap()).build().unwrap();
    for (k, scope) in [MethodScope::VerificationMethod, MethodScope::authentication(), MethodScope::key_agreement()].into_iter().enumerate() {
      block_on(doc.generate_method(&w.storage, JwkMemStore::ED25519_KEY_TYPE, JwsAlgorithm::EdDSA, Some(&format!("g{k}")), scope)).ok()?;
    }
    let text = serde_json::to_string(&doc).unwrap();
    if text.contains("\"d\":") {
      return Some("generated document JSON contains a private member".into());
    }
    None
  });
  match r {
    Err(p) => rep.mismatch("jwk/generation/panic", &json!({}), json!("no panic"), json!(p), "panic"),
    Ok(Some(e)) => rep.mismatch("jwk/generation/leak", &json!({}), json!("public only"), json!(e), ""),
    Ok(None) => {}
  }
}

fn replay_chunk(cases: &[Value], rep: &mut Report) {
  for case in cases {
    note_case(&case["row"]);
    rep.eval();
    match guarded(|| run_row(case)) {
      Err(p) => rep.mismatch("jwk/panic", case, json!("no panic"), json!(p), "panic"),
      Ok(diffs) => {
        for (k, exp, obs) in diffs {
          rep.mismatch(&format!("jwk/{k}"), &case["row"], exp, obs, "");
        }
      }
    }
    rep.nontrivial(format!("{}", case["row"]));
    rep.sample(case.clone());
  }
}

pub fn replay(cases: &[Value], rep: &mut Report) {
  par_replay(cases, rep, replay_chunk);
  check_generation(rep);
}
