//! C03: JwtPresentationValidator against spec/PresentationValidation.tla.
use crate::c02::did;
use crate::c02::pub_jwk;
use crate::c02::sign_jwt;
use crate::util::*;
use identity_core::common::Object;
use identity_core::common::Timestamp;
use identity_credential::credential::Jwt;
use identity_credential::validator::JwtPresentationValidationOptions;
use identity_credential::validator::JwtPresentationValidator;
use identity_did::DIDUrl;
use identity_document::document::CoreDocument;
use identity_document::verifiable::JwsVerificationOptions;
use identity_eddsa_verifier::EdDSAJwsVerifier;
use identity_verification::MethodRelationship;
use identity_verification::MethodScope;
use identity_verification::VerificationMethod;
use serde_json::json;
use serde_json::Value;

const LATEST_ISSUANCE: i64 = 1_609_459_200;
const EARLIEST_EXPIRY: i64 = 1_640_995_200;
const OUT_OF_RANGE: i64 = 400_000_000_000; // beyond year 9999

struct World {
  k: [crypto::signatures::ed25519::SecretKey; 4],
  holder: CoreDocument,
}

fn world() -> World {
  let k = [
    crypto::signatures::ed25519::SecretKey::from_bytes(&[0x31u8; 32]),
    crypto::signatures::ed25519::SecretKey::from_bytes(&[0x32u8; 32]),
    crypto::signatures::ed25519::SecretKey::from_bytes(&[0x33u8; 32]),
    crypto::signatures::ed25519::SecretKey::from_bytes(&[0x34u8; 32]),
  ];
  let mut holder = CoreDocument::builder(Object::new()).id(did("holder")).build().unwrap();
  // decoy: a foreign-DID method with the holder's fragment, listed first
  holder
    .insert_method(VerificationMethod::new_from_jwk(did("other"), pub_jwk(&k[3]), Some("key-1")).unwrap(), MethodScope::VerificationMethod)
    .unwrap();
  holder
    .insert_method(VerificationMethod::new_from_jwk(did("holder"), pub_jwk(&k[0]), Some("key-1")).unwrap(), MethodScope::VerificationMethod)
    .unwrap();
  holder
    .attach_method_relationship(&DIDUrl::parse("did:example:holder#key-1").unwrap(), MethodRelationship::Authentication)
    .unwrap();
  holder
    .insert_method(VerificationMethod::new_from_jwk(did("holder"), pub_jwk(&k[1]), Some("key-2")).unwrap(), MethodScope::VerificationMethod)
    .unwrap();
  holder
    .attach_method_relationship(&DIDUrl::parse("did:example:holder#key-2").unwrap(), MethodRelationship::AssertionMethod)
    .unwrap();
  // a key of a foreign DID listed in the holder document
  holder
    .insert_method(
      VerificationMethod::new_from_jwk(did("other"), pub_jwk(&k[2]), Some("key-f")).unwrap(),
      MethodScope::VerificationRelationship(MethodRelationship::CapabilityInvocation),
    )
    .unwrap();
  World { k, holder }
}

fn query_text(q: &str) -> String {
  if q.starts_with("holder#") || q.starts_with("other#") {
    format!("did:example:{q}")
  } else {
    q.to_string()
  }
}

fn key_idx(k: &str) -> usize {
  match k {
    "K1" => 0,
    "K2" => 1,
    "K4" => 3,
    _ => 2,
  }
}

fn nonce_of(n: &str) -> Option<&'static str> {
  match n {
    "a" => Some("nonce-a"),
    "b" => Some("nonce-b"),
    _ => None,
  }
}

struct Expect {
  holder: String,
  id: Option<String>,
  exp: Option<i64>,
  issuance: Option<i64>,
}

fn build(row: &Value, w: &World) -> (Jwt, JwtPresentationValidationOptions, Expect) {
  let mut claims = json!({
    "iss": "did:example:holder",
    "jti": "https://example.org/presentations/1",
    "aud": "https://verifier.example.org/",
    "exp": EARLIEST_EXPIRY + 10,
    "nbf": LATEST_ISSUANCE - 10,
    "custom_claim": "kept",
    "vp": {"@context": "https://www.w3.org/2018/credentials/v1", "type": "VerifiablePresentation", "verifiableCredential": []}
  });
  let mut v = JwsVerificationOptions::new();
  let mut kid: Option<String> = Some("did:example:holder#key-1".into());
  let mut nonce = None;
  let mut sk = &w.k[0];
  let mut expect = Expect { holder: "did:example:holder".into(), id: Some("https://example.org/presentations/1".into()), exp: Some(EARLIEST_EXPIRY + 10), issuance: Some(LATEST_ISSUANCE - 10) };
  if s(&row["part"]) == "S" {
    kid = match s(&row["kid"]) {
      "absent" => None,
      q => Some(query_text(q)),
    };
    if s(&row["method_id"]) != "none" {
      v = v.method_id(DIDUrl::parse(query_text(s(&row["method_id"]))).unwrap());
    }
    sk = &w.k[key_idx(s(&row["signed_with"]))];
    match s(&row["scope"]) {
      "authentication" => v = v.method_scope(MethodScope::authentication()),
      "assertionMethod" => v = v.method_scope(MethodScope::assertion_method()),
      "capabilityInvocation" => v = v.method_scope(MethodScope::capability_invocation()),
      _ => {}
    }
    nonce = nonce_of(s(&row["nonce_hdr"]));
    if let Some(n) = nonce_of(s(&row["nonce_opt"])) {
      v = v.nonce(n);
    }
    claims["iss"] = match s(&row["iss"]) {
      "holder" => json!("did:example:holder"),
      "other" => json!("did:example:other"),
      _ => json!("https://example.org/holder"),
    };
  } else if s(&row["part"]) == "T" {
    let year = |t: &str| -> i64 {
      let y: i64 = t[1..].parse().unwrap();
      Timestamp::parse(&format!("{y:04}-06-15T12:00:00Z")).unwrap().to_unix()
    };
    let o = claims.as_object_mut().unwrap();
    o.remove("nbf");
    o.remove("exp");
    expect.exp = None;
    if s(&row["exp"]) != "absent" {
      o.insert("exp".into(), json!(year(s(&row["exp"]))));
      expect.exp = Some(year(s(&row["exp"])));
    }
    o.remove("iat");
    o.insert(s(&row["carrier"]).into(), json!(year(s(&row["iat"]))));
    expect.issuance = Some(year(s(&row["iat"])));
    let jwt = sign_jwt(&serde_json::to_string(&claims).unwrap(), kid.as_deref(), nonce, sk);
    let mut opts = JwtPresentationValidationOptions::new().presentation_verifier_options(v);
    if s(&row["earliest_expiry"]) != "unset" {
      opts = opts.earliest_expiry_date(Timestamp::from_unix(year(s(&row["earliest_expiry"]))).unwrap());
    }
    if s(&row["latest_issuance"]) != "unset" {
      opts = opts.latest_issuance_date(Timestamp::from_unix(year(s(&row["latest_issuance"]))).unwrap());
    }
    return (jwt, opts, expect);
  } else {
    let o = claims.as_object_mut().unwrap();
    match s(&row["exp"]) {
      "absent" => {
        o.remove("exp");
        expect.exp = None;
      }
      "out_of_range" => {
        o.insert("exp".into(), json!(OUT_OF_RANGE));
      }
      d => {
        let e = EARLIEST_EXPIRY + d.parse::<i64>().unwrap();
        o.insert("exp".into(), json!(e));
        expect.exp = Some(e);
      }
    }
    o.remove("nbf");
    expect.issuance = None;
    let im = &row["issuance"];
    match s(&im["mode"]) {
      "none" => {}
      "out_of_range" => {
        o.insert("nbf".into(), json!(OUT_OF_RANGE));
      }
      m => {
        let val = LATEST_ISSUANCE + i(&im["v"]);
        match m {
          "nbf" => {
            o.insert("nbf".into(), json!(val));
          }
          "iat" => {
            o.insert("iat".into(), json!(val));
          }
          _ => {
            // nbf decides; iat carries the opposite verdict
            o.insert("nbf".into(), json!(val));
            o.insert("iat".into(), json!(LATEST_ISSUANCE - i(&im["v"])));
          }
        }
        expect.issuance = Some(val);
      }
    }
    match s(&row["vp_holder"]) {
      "equal" => claims["vp"]["holder"] = json!("did:example:holder"),
      "different" => claims["vp"]["holder"] = json!("did:example:other"),
      _ => {}
    }
    match s(&row["vp_id"]) {
      "equal" => claims["vp"]["id"] = json!("https://example.org/presentations/1"),
      "different" => claims["vp"]["id"] = json!("https://example.org/presentations/2"),
      "present_without_jti" => {
        claims["vp"]["id"] = json!("https://example.org/presentations/1");
        claims.as_object_mut().unwrap().remove("jti");
      }
      _ => {}
    }
  }
  let jwt = sign_jwt(&serde_json::to_string(&claims).unwrap(), kid.as_deref(), nonce, sk);
  let opts = JwtPresentationValidationOptions::new()
    .presentation_verifier_options(v)
    .earliest_expiry_date(Timestamp::from_unix(EARLIEST_EXPIRY).unwrap())
    .latest_issuance_date(Timestamp::from_unix(LATEST_ISSUANCE).unwrap());
  (jwt, opts, expect)
}

fn run_row(case: &Value, w: &World) -> Vec<(String, Value, Value)> {
  let row = &case["row"];
  let mut diffs = Vec::new();
  let (jwt, opts, expect) = build(row, w);
  let validator = JwtPresentationValidator::with_signature_verifier(EdDSAJwsVerifier::default());
  let r = validator.validate::<_, Jwt, Object>(&jwt, &w.holder, &opts);
  let accept = b(&case["out"]["accept"]);
  match (r, accept) {
    (Err(_), false) => {}
    (Err(e), true) => diffs.push(("~rejected_although_all_hold".into(), json!("accepted"), json!(e.to_string()))),
    (Ok(_), false) => diffs.push(("accepted_with_false_condition".into(), json!("rejected"), json!("accepted"))),
    (Ok(d), true) => {
      // what is handed back is what was signed
      let ok = d.presentation.holder.as_str() == expect.holder
        && d.presentation.id.as_ref().map(|u| u.to_string()) == expect.id
        && d.aud.as_ref().map(|u| u.to_string()) == Some("https://verifier.example.org/".to_string())
        && d.expiration_date.map(|t| t.to_unix()) == expect.exp
        && d.issuance_date.map(|t| t.to_unix()) == expect.issuance
        && d.custom_claims.as_ref().and_then(|c| c.get("custom_claim")) == Some(&json!("kept"))
        && d.presentation.verifiable_credential.is_empty();
      if !ok {
        diffs.push((
          "returned_values".into(),
          json!({"holder": expect.holder, "id": expect.id, "exp": expect.exp, "issuance": expect.issuance}),
          json!({"holder": d.presentation.holder.to_string(), "id": d.presentation.id.map(|u| u.to_string()),
                 "exp": d.expiration_date.map(|t| t.to_unix()), "issuance": d.issuance_date.map(|t| t.to_unix()),
                 "aud": d.aud.map(|u| u.to_string()), "custom": d.custom_claims}),
        ));
      }
    }
  }
  diffs
}

fn replay_chunk(cases: &[Value], rep: &mut Report) {
  let w = world();
  for case in cases {
    note_case(&case["row"]);
    rep.eval();
    match guarded(|| run_row(case, &w)) {
      Err(p) => rep.mismatch("presentation_validation/panic", case, json!("no panic"), json!(p), "panic"),
      Ok(diffs) => {
        for (k, exp, obs) in diffs {
          rep.mismatch(&format!("presentation_validation/{k}"), case, exp, obs, "");
        }
      }
    }
    rep.nontrivial(format!("{}", case["row"]));
    if b(&case["out"]["accept"]) {
      rep.sample(case.clone());
    }
  }
}

pub fn replay(cases: &[Value], rep: &mut Report) {
  par_replay(cases, rep, replay_chunk);
}
