//! Beyond the list: JwtDomainLinkageValidator against spec/DomainLinkage.tla.
use crate::c02::did;
use crate::c02::sign_jwt;
use crate::util::*;
use identity_core::common::Object;
use identity_core::common::Timestamp;
use identity_core::common::Url;
use identity_credential::credential::Credential;
use identity_credential::credential::Jwt;
use identity_credential::domain_linkage::DomainLinkageConfiguration;
use identity_credential::domain_linkage::DomainLinkageCredentialBuilder;
use identity_credential::domain_linkage::JwtDomainLinkageValidator;
use identity_credential::validator::JwtCredentialValidationOptions;
use identity_eddsa_verifier::EdDSAJwsVerifier;
use serde_json::json;
use serde_json::Value;

const NOW: i64 = 1_700_000_000;

fn origin_text(o: &str) -> Option<Value> {
  Some(match o {
    "exact" => json!("https://example.com"),
    "trailing_slash" => json!("https://example.com/"),
    "bare_host" => json!("example.com"),
    "with_path" => json!("https://example.com/about"),
    "with_query" => json!("https://example.com/?a=1"),
    "with_fragment" => json!("https://example.com/#top"),
    "other_host" => json!("https://example.org"),
    "subdomain" => json!("https://www.example.com"),
    "other_port" => json!("https://example.com:8443"),
    "explicit_default_port" => json!("https://example.com:443"),
    "http_scheme" => json!("http://example.com"),
    "bare_other_host" => json!("example.org"),
    "userinfo" => json!("https://someone@example.com"),
    "absent" => return None,
    "not_a_string" => json!(["https://example.com"]),
    "empty_string" => json!(""),
    o => tool_error(&format!("bad origin {o}")),
  })
}

/// a well-formed Domain Linkage Credential of `issuer` for https://example.com, as claims JSON
fn base_claims(issuer: &str, expired: bool) -> Value {
  let cred: Credential = DomainLinkageCredentialBuilder::new()
    .issuer(did(issuer))
    .origin(Url::parse("https://example.com").unwrap())
    .issuance_date(Timestamp::from_unix(NOW - 1000).unwrap())
    .expiration_date(Timestamp::from_unix(if expired { NOW - 1 } else { NOW + 1000 }).unwrap())
    .build()
    .unwrap();
  serde_json::from_str(&cred.serialize_jwt(None).unwrap()).unwrap()
}

fn opts() -> JwtCredentialValidationOptions {
  JwtCredentialValidationOptions::new()
    .latest_issuance_date(Timestamp::from_unix(NOW).unwrap())
    .earliest_expiry_date(Timestamp::from_unix(NOW).unwrap())
}

fn cause_of(e: &identity_credential::domain_linkage::DomainLinkageValidationError) -> String {
  format!("{:?}", e.cause)
}

fn run(case: &Value, w: &crate::c02::World) -> Vec<(String, Value, Value)> {
  let row = &case["row"];
  let mut diffs = Vec::new();
  let validator = JwtDomainLinkageValidator::with_signature_verifier(EdDSAJwsVerifier::default());
  let kid = "did:example:issuer#key-1";
  let result = match s(&row["kind"]) {
    "config" => {
      let jwts: Vec<Jwt> = arr(&row["cfg"])
        .iter()
        .map(|who| match s(who) {
          "me" => sign_jwt(&base_claims("issuer", false).to_string(), Some(kid), None, &w.k1),
          "other" => sign_jwt(&base_claims("other", false).to_string(), Some("did:example:other#key-1"), None, &w.k1),
          _ => Jwt::new("this.is.not-a-jwt".to_string()),
        })
        .collect();
      let cfg = DomainLinkageConfiguration::new(jwts);
      // the configuration survives its own JSON form
      let back = serde_json::to_string(&cfg).ok().and_then(|t| serde_json::from_str::<DomainLinkageConfiguration>(&t).ok());
      if back.as_ref().map(|b| b.linked_dids().len()) != Some(cfg.linked_dids().len()) {
        diffs.push(("configuration_json_round_trip".into(), json!(cfg.linked_dids().len()), json!(back.map(|b| b.linked_dids().len()))));
      }
      validator.validate_linkage(&w.issuer, &cfg, &Url::parse("https://example.com").unwrap(), &opts())
    }
    _ => {
      let mut v = base_claims("issuer", b(&row["expired"]));
      if b(&row["has_id"]) {
        v["jti"] = json!("https://example.com/credentials/1");
      }
      if !b(&row["type_present"]) {
        v["vc"]["type"] = json!(["VerifiableCredential"]);
      }
      match s(&row["subject"]) {
        "me" => {}
        "other_did" => v["sub"] = json!("did:example:other"),
        "not_a_did" => v["sub"] = json!("https://example.com/not-a-did"),
        _ => {
          v.as_object_mut().unwrap().remove("sub");
        }
      }
      match origin_text(s(&row["origin"])) {
        Some(o) => v["vc"]["credentialSubject"]["origin"] = o,
        None => {
          v["vc"]["credentialSubject"].as_object_mut().unwrap().remove("origin");
        }
      }
      let sk = if s(&row["signed_with"]) == "my_key" { &w.k1 } else { &w.k2 };
      let jwt = sign_jwt(&v.to_string(), Some(kid), None, sk);
      let domain = Url::parse(if s(&row["domain"]) == "plain" { "https://example.com" } else { "https://example.com/some/page?x=1" }).unwrap();
      let direct = validator.validate_credential(&w.issuer, &jwt, &domain, &opts());
      // through a configuration the verdict is the same
      let cfg = DomainLinkageConfiguration::new(vec![jwt]);
      let via = validator.validate_linkage(&w.issuer, &cfg, &domain, &opts());
      if direct.is_ok() != via.is_ok() {
        diffs.push(("credential_vs_configuration".into(), json!(direct.is_ok()), json!(via.is_ok())));
      }
      direct
    }
  };
  let accept = b(&case["out"]["accept"]);
  match (&result, accept) {
    (Ok(()), false) => diffs.push(("accepted_unlinked".into(), json!({"cause": case["out"]["cause"]}), json!("accepted"))),
    (Err(e), true) => diffs.push(("~rejected_although_linked".into(), json!("accepted"), json!(cause_of(e)))),
    (Err(e), false) => {
      if cause_of(e) != s(&case["out"]["cause"]) {
        diffs.push(("~cause".into(), case["out"]["cause"].clone(), json!(cause_of(e))));
      }
    }
    (Ok(()), true) => {}
  }
  let _: Option<Object> = None;
  diffs
}

fn replay_chunk(cases: &[Value], rep: &mut Report) {
  let w = crate::c02::world();
  for case in cases {
    note_case(&case["row"]);
    rep.eval();
    match guarded(|| run(case, &w)) {
      Err(p) => rep.mismatch("domain_linkage/panic", case, json!("no panic"), json!(p), "panic"),
      Ok(diffs) => {
        for (k, exp, obs) in diffs {
          rep.mismatch(&format!("domain_linkage/{k}"), case, exp, obs, "");
        }
      }
    }
    rep.nontrivial(format!("{}", case["row"]));
    if b(&case["out"]["accept"]) {
      rep.sample(case.clone());
    }
  }
}

pub fn replay(cases: &[Value], rep: &mut Report) {
  par_replay(cases, rep, replay_chunk);
}
