SPECIFICATION Spec
CONSTANTS
  Frags = {"a", "b"}
  Idx = {1, 2}
  MaxGen = 3
  MaxTokens = 2
  Depth = 7
  WithRebase = TRUE
VIEW View
INVARIANTS TypeOK FreshKeys AcceptedMeansLive
PROPERTIES DeadStaysDead
CHECK_DEADLOCK FALSE
