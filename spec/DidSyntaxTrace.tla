--------------------------- MODULE DidSyntaxTrace ---------------------------
(* Direction V for C10: random longer class strings parsed by the real code; *)
(* whatever was accepted must be valid by the grammar and decompose into     *)
(* components of exactly the lengths the grammar computes (one-sided).       *)
EXTENDS DidSyntax, IOUtils

Rec == ndJsonDeserialize(IOEnv.TRACE)

VARIABLE l
tvars == <<row, out, l>>

TraceInit == l = 1 /\ row = [kind |-> "none"] /\ out = [ok |-> FALSE]

TraceNext ==
  /\ l <= Len(Rec)
  /\ l' = l + 1
  /\ LET e == Rec[l]
         exp == UrlOutcome(GoodPfx, e.body)
         bare == (IF Split(e.body).hasQ /\ ~exp.hasQ THEN 1 ELSE 0) + (IF Split(e.body).hasF /\ ~exp.hasF THEN 1 ELSE 0)
     IN /\ e.obs.url.ok =>
             /\ exp.ok
             /\ e.obs.url.lm = Len(exp.mid) /\ e.obs.url.lp = Len(exp.path)
             /\ e.obs.url.hasQ = exp.hasQ /\ e.obs.url.lq = Len(exp.query)
             /\ e.obs.url.hasF = exp.hasF /\ e.obs.url.lf = Len(exp.frag)
             /\ e.obs.url.verbatim_modulo_bare = 6 + Len(e.body) - bare
        /\ e.obs.did => (exp.ok /\ exp.did)
        /\ row' = [kind |-> "url", pfx |-> GoodPfx, body |-> e.body] /\ out' = exp

TraceSpec == TraceInit /\ [][TraceNext]_tvars

TraceAccepted ==
  LET n == TLCGet("stats").diameter - 1 IN
  IF n = Len(Rec) THEN PrintT("TRACE-ACCEPTED events=" \o ToString(n))
  ELSE PrintT("TRACE-REJECTED matched=" \o ToString(n) \o " of " \o ToString(Len(Rec))) /\ FALSE
=============================================================================
