----------------------------- MODULE KeyIdStore -----------------------------
(***************************************************************************)
(* C15 (concurrent part).  KeyIdStorage for one method digest, accessed by *)
(* several threads.  Each call is Call(t) -> Lin(t) -> Ret(t): Lin is the  *)
(* linearisation point (the store's critical section).  TLC explores every *)
(* interleaving.                                                           *)
(*                                                                         *)
(* Atomic = TRUE is the shipped design (check-and-insert under one write   *)
(* lock).  Atomic = FALSE splits insert into a check and a later write     *)
(* (two lock acquisitions) -- the classic lost update; TLC finds the       *)
(* violation, which shows the invariants are not vacuous.                  *)
(***************************************************************************)
EXTENDS Naturals, Sequences, FiniteSets, TLC

CONSTANTS Threads,     \* set of thread numbers; thread t inserts key id t
          Plans,       \* set of operation sequences a thread may run, e.g. << "insert", "get" >>
          Atomic

VARIABLES map,         \* 0 = no mapping, otherwise the key id
          plan, pos,   \* per thread: its plan and the index of the current op
          st,          \* per thread: "idle" | "called" | "checked" | "linearized"
          res,         \* per thread: result of the linearised op
          wins,        \* successful inserts since the last successful delete (epoch)
          winner       \* key id of the last successful insert
vars == <<map, plan, pos, st, res, wins, winner>>

None == [ok |-> FALSE]

Init == /\ map = 0 /\ plan \in [Threads -> Plans] /\ pos = [t \in Threads |-> 1]
        /\ st = [t \in Threads |-> "idle"] /\ res = [t \in Threads |-> None]
        /\ wins = 0 /\ winner = 0

Cur(t) == plan[t][pos[t]]
HasOp(t) == pos[t] <= Len(plan[t])

Call(t) == /\ st[t] = "idle" /\ HasOp(t)
           /\ st' = [st EXCEPT ![t] = "called"]
           /\ UNCHANGED <<map, plan, pos, res, wins, winner>>

\* the atomic effect of one operation on the mapping
Effect(m, name, t) ==
  CASE name = "insert" -> IF m = 0 THEN [map |-> t, res |-> [ok |-> TRUE]] ELSE [map |-> m, res |-> None]
    [] name = "delete" -> IF m = 0 THEN [map |-> m, res |-> None] ELSE [map |-> 0, res |-> [ok |-> TRUE]]
    [] name = "get"    -> IF m = 0 THEN [map |-> m, res |-> None] ELSE [map |-> m, res |-> [ok |-> TRUE, kid |-> m]]

Lin(t) ==
  /\ st[t] = "called" /\ (Atomic \/ Cur(t) # "insert")
  /\ LET e == Effect(map, Cur(t), t) IN
     /\ map' = e.map /\ res' = [res EXCEPT ![t] = e.res]
     /\ wins' = IF Cur(t) = "insert" /\ e.res.ok THEN wins + 1 ELSE IF Cur(t) = "delete" /\ e.res.ok THEN 0 ELSE wins
     /\ winner' = IF Cur(t) = "insert" /\ e.res.ok THEN t ELSE winner
  /\ st' = [st EXCEPT ![t] = "linearized"]
  /\ UNCHANGED <<plan, pos>>

\* the broken, non-atomic insert: check under one lock ...
Check(t) ==
  /\ ~Atomic /\ st[t] = "called" /\ Cur(t) = "insert"
  /\ res' = [res EXCEPT ![t] = IF map = 0 THEN [ok |-> TRUE] ELSE None]
  /\ st' = [st EXCEPT ![t] = "checked"]
  /\ UNCHANGED <<map, plan, pos, wins, winner>>
\* ... write under another
Write(t) ==
  /\ ~Atomic /\ st[t] = "checked"
  /\ IF res[t].ok THEN map' = t /\ wins' = wins + 1 /\ winner' = t ELSE UNCHANGED <<map, wins, winner>>
  /\ st' = [st EXCEPT ![t] = "linearized"]
  /\ UNCHANGED <<plan, pos, res>>

Ret(t) == /\ st[t] = "linearized"
          /\ st' = [st EXCEPT ![t] = "idle"] /\ pos' = [pos EXCEPT ![t] = pos[t] + 1]
          /\ UNCHANGED <<map, plan, res, wins, winner>>

Next == \E t \in Threads : Call(t) \/ Lin(t) \/ Check(t) \/ Write(t) \/ Ret(t)
Spec == Init /\ [][Next]_vars

\* a second insert for a digest fails and leaves the first mapping intact -- also when inserts race
AtMostOneWinner == wins <= 1
MappingIsWinners == (map # 0 /\ wins = 1) => map = winner
TypeOK == map \in {0} \cup Threads /\ wins \in 0..(Cardinality(Threads) * 3)
=============================================================================
