---------------------------- MODULE MethodDigest ----------------------------
(***************************************************************************)
(* The key of the key-id store (C09 / C15 rely on it): MethodDigest.        *)
(*                                                                         *)
(* The storage-backed API finds the private key of a verification method   *)
(* through digest(method) -> key id.  For that to work over the life of a  *)
(* document the digest has to be a function of exactly                     *)
(*     (fragment, public key material)                                     *)
(* and of nothing else:                                                    *)
(*   - NOT of the DID in the method id or of the controller (an IOTA       *)
(*     document is created under a placeholder DID and published under     *)
(*     its real one; unpacking state metadata rewrites the DID);           *)
(*   - NOT of optional JWK members, member order, or the method type;      *)
(*   - but two methods that differ in fragment or in key must not collide  *)
(*     (else generate_method would refuse the second, or purge_method      *)
(*     would delete the wrong key).                                        *)
(* The packed form is 1 version byte + 8 bytes; unpack accepts exactly     *)
(* what pack produces.                                                     *)
(***************************************************************************)
EXTENDS Naturals, Sequences, FiniteSets, TLC, Json

VARIABLES row, out
vars == <<row, out>>

Dids  == {"A", "B"}
Frags == {"f1", "f2", "F1"}            \* F1: same letters as f1 in another case -- fragments are case sensitive
Keys  == {"k1", "k2"}
Forms == {"jwk", "jwk_with_optional_members", "jwk_reordered", "multibase", "base58"}

Methods == [did : Dids, controller : Dids, frag : Frags, key : Keys, form : Forms]

\* what the digest may depend on: the fragment, the key, and whether the key material is hashed as a JWK thumbprint
\* (all JWK forms) or as decoded raw bytes (both raw encodings decode to the same bytes)
Family(form) == IF form \in {"jwk", "jwk_with_optional_members", "jwk_reordered"} THEN "thumbprint" ELSE "raw"
Identity(m) == <<m.frag, m.key, Family(m.form)>>

PairRows == [kind : {"pair"}, a : Methods, b : Methods]
\* frames offered to unpack: what pack produced, and every way of damaging it
Frames == {"packed", "empty", "short_8", "long_10", "version_1", "version_255"}
FrameRows == [kind : {"unpack"}, m : Methods, frame : Frames]

\* the pair table is large (360^2); the digest law is symmetric and the DID/controller/form dimensions are independent of
\* each other, so the table is pruned to pairs that differ in AT MOST TWO fields
Differ(a, b) == Cardinality({f \in {"did", "controller", "frag", "key", "form"} : a[f] # b[f]})
Evaluate(r) ==
  IF r.kind = "pair" THEN [equal |-> Identity(r.a) = Identity(r.b)]
  ELSE [ok |-> r.frame = "packed"]

Init == /\ row \in {r \in PairRows : Differ(r.a, r.b) <= 2} \cup FrameRows
        /\ out = Evaluate(row)
Next == UNCHANGED vars
Spec == Init /\ [][Next]_vars

\* sanity of the table: rebasing a method onto another DID never changes its identity; changing fragment or key always does
RebaseInvariant == (row.kind = "pair" /\ row.a.frag = row.b.frag /\ row.a.key = row.b.key /\ Family(row.a.form) = Family(row.b.form)) => out.equal
NoCollision == (row.kind = "pair" /\ (row.a.frag # row.b.frag \/ row.a.key # row.b.key)) => ~out.equal

Emit == PrintT(<<"CASE", ToJson([row |-> row, out |-> out])>>)
=============================================================================
