------------------------------ MODULE JptFlow ------------------------------
(***************************************************************************)
(* Beyond the list: credentials as JSON Proof Tokens with BBS+ (feature    *)
(* jpt-bbs-plus): issuance (JwpDocumentExt::create_credential_jpt),        *)
(* validation of the issued form (JptCredentialValidator), selective       *)
(* disclosure by the holder (SelectiveDisclosurePresentation +             *)
(* create_presentation_jpt) and validation of the presented form           *)
(* (JptPresentationValidator).                                             *)
(*                                                                         *)
(* World: document `issuer` with the BLS methods #bbs-1 (key B1, also      *)
(* referenced from assertionMethod) and #bbs-2 (key B2, verificationMethod *)
(* only); document `other` with #bbs-1 (key B3).                           *)
(*                                                                         *)
(* An issued JPT is accepted ONLY IF the method named by the verifier's    *)
(* method id, else by the token's kid, belongs to the document it is       *)
(* validated against, resolves there within the configured scope, holds    *)
(* the key the token was signed with, the token was not altered, the       *)
(* credential's issuer is that method's DID, and the dates are within the  *)
(* configured bounds.  A presented JPT additionally needs the verifier's   *)
(* nonce to equal the presentation's, and shows exactly the attributes     *)
(* the holder did not conceal.                                             *)
(***************************************************************************)
EXTENDS Naturals, Sequences, FiniteSets, TLC, Json

VARIABLES row, out
vars == <<row, out>>

Docs == {"issuer", "other"}
Methods == {[did |-> "issuer", frag |-> "bbs-1"], [did |-> "issuer", frag |-> "bbs-2"], [did |-> "other", frag |-> "bbs-1"]}
NoMethod == [did |-> "none", frag |-> "none"]
KeyOf(m) == CASE m.did = "issuer" /\ m.frag = "bbs-1" -> "B1" [] m.did = "issuer" /\ m.frag = "bbs-2" -> "B2"
              [] m.did = "other" /\ m.frag = "bbs-1" -> "B3" [] OTHER -> "none"
ScopesOf(m) == IF m.did = "issuer" /\ m.frag = "bbs-1" THEN {"vm", "assertionMethod"} ELSE IF KeyOf(m) # "none" THEN {"vm"} ELSE {}

\* ------------------------------- issued form -------------------------------
IRows == [form : {"issued"},
          signed_by : Methods,                          \* the document + fragment create_credential_jpt was called with
          kid : {"own", "claims_bbs2"},                 \* JwpCredentialOptions::kid: the token may NAME another method
          issuer_claim : Docs,
          method_id : {NoMethod} \cup Methods,          \* JwpVerificationOptions::method_id
          scope : {"none", "assertionMethod"},
          against : Docs,                               \* the document handed to the validator
          tamper : {"none", "payload", "proof"}]
DRows == [form : {"issued_dates"}, expiry : {"absent", "before_bound", "at_bound", "after_bound"}, issuance : {"before_bound", "at_bound", "after_bound"}]

Kid(r) == IF r.kid = "own" THEN r.signed_by ELSE [did |-> "issuer", frag |-> "bbs-2"]
Effective(r) == IF r.method_id # NoMethod THEN r.method_id ELSE Kid(r)

ProofOk(r) ==
  LET m == Effective(r) IN
  /\ m.did = r.against                                                  \* the method belongs to the document given
  /\ KeyOf(m) # "none"
  /\ (r.scope = "none" \/ r.scope \in ScopesOf(m))
  /\ KeyOf(m) = KeyOf(r.signed_by)                                       \* the key the token was made with
  /\ r.tamper = "none"
  \* the kid is part of the signed header: a token whose kid was set to another method still verifies under the signing
  \* key when the verifier names that key's method explicitly
IAccept(r) == ProofOk(r) /\ r.issuer_claim = Effective(r).did
DAccept(r) == r.expiry # "before_bound" /\ r.issuance # "after_bound"

\* ------------------------------- presented form -------------------------------
Attrs == {"name", "degree.name", "courses[1]"}
Nonces == {"none", "a", "b"}
PRows == [form : {"presented"},
          concealed : SUBSET Attrs,
          nonce_p : Nonces, nonce_v : Nonces,
          aud : BOOLEAN,
          holder_used : Docs,                            \* whose #bbs-1 public key the holder computed the proof with
          against : Docs,
          scope : {"none", "assertionMethod"},
          tamper : {"none", "swap_disclosed", "reveal_concealed", "proof", "drop_disclosed"}]

\* the credential was issued by issuer#bbs-1 (key B1, kid = that method)
PAccept(r) ==
  /\ r.nonce_p = r.nonce_v
  /\ r.holder_used = "issuer"                     \* a proof derived with another public key does not verify
  /\ r.against = "issuer"                         \* kid names issuer#bbs-1: any other document is a mismatch
  /\ r.tamper = "none"
  \* every scope choice contains issuer#bbs-1

\* tampering that cannot be expressed on this row is not generated
Sensible(r) ==
  r.form = "presented" =>
     /\ (r.tamper = "reveal_concealed" => r.concealed # {})
     /\ (r.tamper \in {"swap_disclosed", "drop_disclosed"} => r.concealed # Attrs)

Evaluate(r) ==
  CASE r.form = "issued" -> [accept |-> IAccept(r), shown |-> {}]
    [] r.form = "issued_dates" -> [accept |-> DAccept(r), shown |-> {}]
    [] r.form = "presented" -> [accept |-> PAccept(r), shown |-> IF PAccept(r) THEN Attrs \ r.concealed ELSE {}]

Init == row \in {r \in IRows \cup DRows \cup PRows : Sensible(r)} /\ out = Evaluate(row)
Next == UNCHANGED vars
Spec == Init /\ [][Next]_vars

\* accepted only when made with the key of a method of the validating document that the verifier (or the token) names
AcceptMeansBound ==
  (row.form = "issued" /\ out.accept) =>
     /\ Effective(row).did = row.against /\ KeyOf(Effective(row)) = KeyOf(row.signed_by)
     /\ row.issuer_claim = row.against /\ row.tamper = "none"
NothingConcealedShows == (row.form = "presented") => (out.shown \cap row.concealed = {})
ReplayNeedsNonce == (row.form = "presented" /\ out.accept) => row.nonce_p = row.nonce_v

RECURSIVE SetToSeq(_)
SetToSeq(S) == IF S = {} THEN <<>> ELSE LET x == CHOOSE x \in S : TRUE IN <<x>> \o SetToSeq(S \ {x})
RowJ(r) == IF r.form = "presented" THEN [r EXCEPT !.concealed = SetToSeq(r.concealed)] ELSE r
Emit == PrintT(<<"CASE", ToJson([row |-> RowJ(row), out |-> [accept |-> out.accept, shown |-> SetToSeq(out.shown)]])>>)
=============================================================================
