-------------------------- MODULE OrderedSetTrace --------------------------
(* Direction V for OrderedSet: a recorded execution of the real OrderedSet   *)
(* (one ndjson event per public call, logged at its return) must be a        *)
(* behaviour of OrderedSet!Apply, with KeyUnique and StepLaws holding at     *)
(* every step.                                                               *)
EXTENDS OrderedSet, IOUtils

Rec == ndJsonDeserialize(IOEnv.TRACE)

VARIABLE l
tvars == <<s, last, l>>

TraceInit == l = 1 /\ s = <<>> /\ last = InitLast

TraceNext ==
  /\ l <= Len(Rec)
  /\ l' = l + 1
  /\ LET e == Rec[l] IN
     IF e.op.name = "reset"
     THEN s' = e.post /\ last' = [InitLast EXCEPT !.pre = e.post, !.post = e.post]
     ELSE LET r == Apply(s, e.op)
          IN /\ r.res = e.res          \* the result flag the real call returned
             /\ r.post = e.post        \* the order the real set has afterwards
             /\ s' = r.post
             /\ last' = [pre |-> s, op |-> e.op, res |-> r.res, post |-> r.post]

TraceSpec == TraceInit /\ [][TraceNext]_tvars

TraceAccepted ==
  LET n == TLCGet("stats").diameter - 1 IN
  IF n = Len(Rec) THEN PrintT("TRACE-ACCEPTED events=" \o ToString(n))
  ELSE PrintT("TRACE-REJECTED matched=" \o ToString(n) \o " of " \o ToString(Len(Rec))) /\ FALSE
=============================================================================
