SPECIFICATION Spec
CONSTANTS
  Dates <- DatesQ
  Times <- TimesQ
  Offsets <- OffsetsAll
  FracLens <- FracT
  UnixRows <- UnixQ
  DurRows <- DurQ
  SampleArith = 1
INVARIANTS AcceptedInRange CalendarRoundTrip FormatParseIdentity AddSubInverse BoundaryFacts Emit
CHECK_DEADLOCK FALSE
