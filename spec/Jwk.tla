--------------------------------- MODULE Jwk ---------------------------------
(***************************************************************************)
(* C18.  JSON Web Keys: public projection, public/private reporting,       *)
(* RFC 7638 thumbprint and coherence of the declared key type with the     *)
(* family of parameters carried, over every way a Jwk value is obtained.   *)
(***************************************************************************)
EXTENDS Naturals, Sequences, FiniteSets, TLC, Json

VARIABLES row, out
vars == <<row, out>>

Families == {"EC", "RSA", "OKP", "oct"}
PrivOf(f) == CASE f = "EC" -> {"d"} [] f = "OKP" -> {"d"} [] f = "RSA" -> {"d", "p", "q", "dp", "dq", "qi", "oth"} [] f = "oct" -> {}
Optional == {"use", "key_ops", "alg", "kid", "x5u"}
Origins == {"from_json", "from_params", "new_set_params", "set_kty"}

RECURSIVE SetToSeq(_)
SetToSeq(S) == IF S = {} THEN <<>> ELSE LET x == CHOOSE x \in S : TRUE IN <<x>> \o SetToSeq(S \ {x})

Rows == {r \in [family : Families, declared : Families, priv : SUBSET {"d", "p", "q", "dp", "dq", "qi", "oth"},
                opt : SUBSET Optional, order : {"canonical", "reversed"}, origin : Origins] :
           /\ r.priv \subseteq PrivOf(r.family)
           \* a declared type that differs from the parameter family is only offered where it can be expressed
           /\ (r.declared # r.family => (r.origin \in {"from_json", "new_set_params", "set_kty"} /\ r.opt = {} /\ r.order = "canonical"))
           /\ (r.order = "reversed" => r.origin = "from_json")}

\* is the value obtainable at all?  the declared key type must be the family of the parameters carried
Obtainable(r) == r.origin = "set_kty" \/ r.declared = r.family
\* set_kty re-initialises the parameters for the new type: whatever was carried before is gone
CarriedFamily(r) == IF r.origin = "set_kty" THEN r.declared ELSE r.family
CarriedPriv(r) == IF r.origin = "set_kty" THEN {} ELSE r.priv       \* set_kty always starts from empty parameters

Evaluate(r) ==
  IF ~Obtainable(r) THEN [obtainable |-> FALSE]
  ELSE LET f == CarriedFamily(r)  p == CarriedPriv(r) IN
       [obtainable |-> TRUE, kty |-> f,
        is_public |-> (f # "oct" /\ p = {}),              \* public exactly when no private member (oct is all secret)
        has_public_projection |-> f # "oct",
        \* a verification method may only be built from a key without any private member
        method_ok |-> (f # "oct" /\ p = {})]

Init == row \in Rows /\ out = Evaluate(row)
Next == UNCHANGED vars
Spec == Init /\ [][Next]_vars

Coherent == out.obtainable => out.kty = CarriedFamily(row)
NoLeak == (out.obtainable /\ out.method_ok) => CarriedPriv(row) = {}
Emit == PrintT(<<"CASE", ToJson([row |-> [family |-> row.family, declared |-> row.declared, priv |-> SetToSeq(row.priv),
                                         opt |-> SetToSeq(row.opt), order |-> row.order, origin |-> row.origin], out |-> out])>>)
=============================================================================
