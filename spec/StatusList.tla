----------------------------- MODULE StatusList -----------------------------
(***************************************************************************)
(* C12.  StatusList2021 as a fixed-length vector of independent bits, and  *)
(* the StatusList2021Credential layer on top of it (one-way revocation,    *)
(* reversible suspension, status reporting by the validator).              *)
(*                                                                         *)
(* The model keeps a WINDOW of N bits (N = 8: one byte, N = 16: two bytes).*)
(* The harness places the window at several byte offsets of real lists of  *)
(* every size class and checks that everything outside the window stays    *)
(* zero.  Out-of-range accesses are addressed relative to the real length  *)
(* (index = len + d).                                                      *)
(***************************************************************************)
EXTENDS Naturals, Sequences, FiniteSets, TLC, Json

CONSTANTS N,           \* window width in bits
          OorD,        \* offsets d beyond len() used for out-of-range accesses
          UpdIdx       \* indices used inside multi-write update closures
CONSTANT SampleT

VARIABLES bits,        \* [0..N-1 -> BOOLEAN]
          purpose,     \* "revocation" | "suspension" (fixed per behaviour)
          last
vars == <<bits, purpose, last>>

Idx == 0..(N-1)
Purposes == {"revocation", "suspension"}
Modes == {"Strict", "SkipUnsupported", "SkipAll"}

\* MSB-first numbering inside a byte, as in the specification of the bitstring
RECURSIVE NumFrom(_, _)
NumFrom(b, i) == IF i = N THEN 0 ELSE (IF b[i] THEN 2^(N-1-i) ELSE 0) + NumFrom(b, i+1)
Num(b) == NumFrom(b, 0)

Ok(b)     == [res |-> [ok |-> TRUE], post |-> b]
OkV(b, v) == [res |-> [ok |-> TRUE, v |-> v], post |-> b]
Err(b, e) == [res |-> [ok |-> FALSE, err |-> e], post |-> b]

\* MutStatusList::set_entry / StatusList2021Credential::set_entry
CredSet(b, p, i, v) ==
  IF p = "revocation" /\ ~v /\ b[i] THEN Err(b, "unreversible")
  ELSE Ok([b EXCEPT ![i] = v])

RECURSIVE CredUpdate(_, _, _)
CredUpdate(b, p, ws) ==
  IF ws = <<>> THEN Ok(b)
  ELSE LET r == CredSet(b, p, ws[1].i, ws[1].v)
       IN IF r.res.ok THEN CredUpdate(r.post, p, Tail(ws)) ELSE r

StatusOf(p, bit) == IF ~bit THEN "valid" ELSE IF p = "revocation" THEN "revoked" ELSE "suspended"

Apply(b, p, op) ==
  CASE op.name = "set"      -> Ok([b EXCEPT ![op.i] = op.v])
    [] op.name = "get"      -> OkV(b, b[op.i])
    [] op.name = "set_oor"  -> Err(b, "oob")
    [] op.name = "get_oor"  -> Err(b, "oob")
    [] op.name = "encdec"   -> Ok(b)                 \* try_from_encoded_str(into_encoded_str(x)) = x
    [] op.name = "cred_set" -> CredSet(b, p, op.i, op.v)        \* set_credential_status
    [] op.name = "cred_set_oor" -> Err(b, "oob")
    [] op.name = "cred_update" ->
         LET r == CredUpdate(b, p, op.ws)
         IN IF r.res.ok THEN r ELSE Err(b, r.res.err)           \* a failing closure leaves the credential untouched
    [] op.name = "cred_entry" -> OkV(b, StatusOf(p, b[op.i]))
    [] op.name = "cred_entry_oor" -> Err(b, "oob")
    [] op.name = "check" ->                                      \* check_status_with_status_list_2021
         IF op.mode = "SkipAll" THEN OkV(b, "valid")
         ELSE IF op.ep # p THEN Err(b, "invalid_status")       \* purposes differ: neither valid nor revoked / suspended
         ELSE OkV(b, StatusOf(p, b[op.i]))
    [] op.name = "check_oor" ->
         IF op.mode = "SkipAll" THEN OkV(b, "valid")
         ELSE Err(b, "invalid_status")                          \* wrong purpose and / or index outside the list

W == [i : UpdIdx, v : BOOLEAN]
Ops == [name : {"set", "cred_set"}, i : Idx, v : BOOLEAN]
       \cup [name : {"get", "cred_entry"}, i : Idx]
       \cup [name : {"set_oor", "cred_set_oor"}, d : OorD, v : BOOLEAN]
       \cup [name : {"get_oor", "cred_entry_oor"}, d : OorD]
       \cup [name : {"encdec"}]
       \cup [name : {"cred_update"}, ws : UNION {[1..n -> W] : n \in 0..2}]
       \cup [name : {"check"}, i : Idx, ep : Purposes, mode : Modes]
       \cup [name : {"check_oor"}, d : OorD, ep : Purposes, mode : Modes]

Zero == [i \in Idx |-> FALSE]

Init == /\ bits = Zero
        /\ purpose \in Purposes
        /\ last = [n |-> N, p |-> purpose, pre |-> 0, op |-> [name |-> "init"], res |-> [ok |-> TRUE], post |-> 0]

Next == \E op \in Ops :
          LET r == Apply(bits, purpose, op)
          IN /\ bits' = r.post
             /\ UNCHANGED purpose
             /\ last' = [n |-> N, p |-> purpose, pre |-> Num(bits), op |-> op, res |-> r.res, post |-> Num(r.post)]

Spec == Init /\ [][Next]_vars

-----------------------------------------------------------------------------
TypeOK == bits \in [Idx -> BOOLEAN] /\ purpose \in Purposes

\* Action laws: the bit-vector reading of the property, stated independently of Apply.
IsWrite(op) == op.name \in {"set", "cred_set"}
StepLaws ==
  LET op == last'.op IN
  /\ IsWrite(op) /\ last'.res.ok =>                        \* a write changes exactly its own entry
        /\ bits'[op.i] = op.v
        /\ \A j \in Idx : j # op.i => bits'[j] = bits[j]
  /\ ~last'.res.ok => bits' = bits                          \* a refused operation changes nothing
  /\ op.name \in {"get", "get_oor", "encdec", "cred_entry", "cred_entry_oor", "check", "check_oor",
                  "set_oor", "cred_set_oor"} => bits' = bits
  /\ op.name = "get" => last'.res.v = bits[op.i]             \* reading returns the last value written
  \* one-way revocation: through the credential layer a set revocation entry is never cleared
  /\ (purpose = "revocation" /\ op.name \in {"cred_set", "cred_update"}) =>
        \A j \in Idx : bits[j] => bits'[j]
  \* suspension is reversible: clearing a set suspension entry succeeds
  /\ (purpose = "suspension" /\ op.name = "cred_set") => last'.res.ok
  \* reported status: revoked / suspended exactly when the entry is set in a list of matching purpose
  /\ (op.name = "check" /\ op.mode # "SkipAll") =>
        /\ (last'.res.ok /\ last'.res.v = "revoked")   = (bits[op.i] /\ purpose = "revocation" /\ op.ep = purpose)
        /\ (last'.res.ok /\ last'.res.v = "suspended") = (bits[op.i] /\ purpose = "suspension" /\ op.ep = purpose)
StepProp == [][StepLaws]_vars

View == <<bits, purpose>>
\* emit every transition (SampleT = 1) or a random 1/SampleT of them (all are model-checked either way)
EmitT == RandomElement(1..SampleT) # 1 \/ PrintT(<<"CASE", ToJson(last')>>)
=============================================================================
