--------------------------- MODULE DocumentTrace ---------------------------
(* Direction V for C04: recorded random histories of one live CoreDocument   *)
(* (all five real relationships, 12 ids, deserialised random start docs)    *)
(* must be behaviours of Document!Apply under the JUDGING relation: exact    *)
(* agreement with the reference action, or a refusal that leaves the        *)
(* document unchanged (the property never forces acceptance).  Resolution    *)
(* events must agree exactly with Document!Resolve.  DocValid is checked in  *)
(* every state and the recorded JSON round trip must have succeeded.         *)
EXTENDS Document, IOUtils

Rec == ndJsonDeserialize(IOEnv.TRACE)

VARIABLE l
tvars == <<doc, last, l>>

TraceInit == l = 1 /\ doc = Empty
             /\ last = [kind |-> "init", pre |-> doc, op |-> [name |-> "init"], res |-> [ok |-> TRUE], post |-> doc]

IsMutation(n) == n \in {"insert_method", "remove_method", "insert_service", "remove_service", "attach", "detach"}

TraceNext ==
  /\ l <= Len(Rec)
  /\ l' = l + 1
  /\ LET e == Rec[l] IN
     CASE e.op.name = "reset" ->
            /\ Valid(e.post)             \* a document the library accepted must be valid in the model
            /\ doc' = e.post
            /\ last' = [kind |-> "init", pre |-> e.post, op |-> e.op, res |-> e.res, post |-> e.post]
       [] e.op.name = "resolve" ->
            /\ Resolve(doc, e.op.q, e.op.scope) = e.res
            /\ e.post = doc /\ UNCHANGED <<doc, last>>
       [] e.op.name = "resolve_service" ->
            /\ ResolveService(doc, e.op.q) = e.res.idx
            /\ e.post = doc /\ UNCHANGED <<doc, last>>
       [] IsMutation(e.op.name) ->
            /\ e.roundtrip
            /\ LET r == Apply(doc, e.op) IN
               \/ /\ r.res = e.res /\ r.post = e.post
                  /\ doc' = r.post
                  /\ last' = [kind |-> "step", pre |-> doc, op |-> e.op, res |-> r.res, post |-> r.post]
               \/ /\ ~(r.res = e.res /\ r.post = e.post)
                  /\ e.res.ok = FALSE /\ e.post = doc        \* lenient: refused, unchanged
                  /\ doc' = doc
                  /\ last' = [kind |-> "step", pre |-> doc, op |-> e.op, res |-> e.res, post |-> doc]

TraceSpec == TraceInit /\ [][TraceNext]_tvars

TraceAccepted ==
  LET n == TLCGet("stats").diameter - 1 IN
  IF n = Len(Rec) THEN PrintT("TRACE-ACCEPTED events=" \o ToString(n))
  ELSE PrintT("TRACE-REJECTED matched=" \o ToString(n) \o " of " \o ToString(Len(Rec))) /\ FALSE
=============================================================================
