SPECIFICATION Spec
INVARIANTS Bound Emit
CHECK_DEADLOCK FALSE
