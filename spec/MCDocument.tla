---------------------------- MODULE MCDocument ----------------------------
(* Model constants for Document.tla (tuples cannot be written in a cfg file). *)
EXTENDS Document

Ids3 == {<<"self", "a", "">>, <<"self", "b", "">>, <<"other", "a", "">>}
Ids4 == Ids3 \cup {<<"self", "a", "v">>}
Rel2 == <<"r1", "r2">>
Rel3 == <<"r1", "r2", "r3">>
=============================================================================
