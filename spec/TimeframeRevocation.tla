------------------------- MODULE TimeframeRevocation -------------------------
(***************************************************************************)
(* Beyond the list: RevocationTimeframe2024 — the revocation mechanism of  *)
(* JPT (BBS+) credentials.  A credential's status carries a validity       *)
(* timeframe [start, end] and an index into the issuer's revocation bitmap.*)
(* The issuer keeps a credential alive by UPDATING its timeframe: the two  *)
(* timeframe payloads are replaced and the BBS+ signature is updated       *)
(* (TimeframeRevocationExtension::update, JwkStorageBbsPlusExt::           *)
(* update_signature) without re-signing the other attributes; it revokes   *)
(* by setting the index in its bitmap service (and no longer updating).    *)
(*                                                                         *)
(* Time is counted in abstract ticks; the issued timeframe is [10, 20].    *)
(* A row is one credential history (issue, then optionally one update to a *)
(* later or an earlier-starting frame, optionally a hand-edited timeframe  *)
(* without a signature update) validated at one instant in one of the      *)
(* forms (issued: by a holder or relying party that sees the index;        *)
(* presented: the index is concealed, only the timeframe can be checked).  *)
(*                                                                         *)
(* The credential is accepted ONLY IF its proof verifies (a timeframe      *)
(* edited without the issuer's key does not), the instant lies inside the  *)
(* timeframe the token carries (both ends included), and — where the index *)
(* is visible — the index is not revoked; StatusCheck::SkipAll skips the   *)
(* two status conditions, never the proof.                                 *)
(***************************************************************************)
EXTENDS Integers, Sequences, FiniteSets, TLC, Json

VARIABLES row, out
vars == <<row, out>>

Start0 == 10
End0 == 20
\* an update replaces the frame: "later" = [20, 30] (the next slot), "shifted" = [15, 25] (overlapping), "earlier" = [0, 10]
Updates == {"none", "later", "shifted", "earlier"}
Frame(u) == CASE u = "none" -> <<Start0, End0>> [] u = "later" -> <<20, 30>> [] u = "shifted" -> <<15, 25>> [] u = "earlier" -> <<0, 10>>
Instants == {5, 9, 10, 15, 20, 21, 25, 30, 31}

Rows == [update : Updates,
         which : {"old", "new"},             \* the token validated: the one issued first or the updated one
         edited : BOOLEAN,                    \* the holder rewrites the timeframe payloads to [0, 100] himself
         at : Instants,
         revoked : BOOLEAN,
         form : {"issued", "presented"},
         mode : {"Strict", "SkipUnsupported", "SkipAll"}]

Sensible(r) == (r.update = "none") => (r.which = "old")

Carried(r) == IF r.edited THEN <<0, 100>> ELSE IF r.which = "new" THEN Frame(r.update) ELSE <<Start0, End0>>
ProofOk(r) == ~r.edited
InFrame(r) == Carried(r)[1] <= r.at /\ r.at <= Carried(r)[2]
StatusOk(r) == r.mode = "SkipAll" \/ (InFrame(r) /\ (r.form = "presented" \/ ~r.revoked))
Accept(r) == ProofOk(r) /\ StatusOk(r)
Cause(r) == IF ~ProofOk(r) THEN "proof"
            ELSE IF r.mode = "SkipAll" THEN "none"
            ELSE IF r.form = "issued" /\ r.revoked THEN "revoked"         \* the library checks the bitmap first
            ELSE IF ~InFrame(r) THEN "outside_timeframe" ELSE "none"

Init == row \in {r \in Rows : Sensible(r)} /\ out = [accept |-> Accept(row), cause |-> Cause(row)]
Next == UNCHANGED vars
Spec == Init /\ [][Next]_vars

\* an updated credential is alive exactly in its new frame; the token issued first stays bound to the frame it was issued with
UpdateMovesTheFrame ==
  (row.update # "none" /\ ~row.edited /\ row.mode = "Strict" /\ ~row.revoked) =>
     (out.accept <=> (IF row.which = "new" THEN Frame(row.update)[1] <= row.at /\ row.at <= Frame(row.update)[2]
                      ELSE Start0 <= row.at /\ row.at <= End0))
NoSelfService == row.edited => ~out.accept
RevokedStaysOut == (row.form = "issued" /\ row.revoked /\ row.mode # "SkipAll") => ~out.accept

Emit == PrintT(<<"CASE", ToJson([row |-> row, out |-> out])>>)
=============================================================================
