----------------------------- MODULE SdJwtVcFlow -----------------------------
(***************************************************************************)
(* Beyond the list: SdJwtVc::validate (issuer key discovery, signature,    *)
(* credential type, disclosability) and SdJwtVc::validate_key_binding.     *)
(*                                                                         *)
(* (vc) The issuer https://issuer.example publishes JWT VC Issuer Metadata *)
(* with a JWK set {key1 -> K1, key2 -> K2}, inline or behind a jwks_uri.   *)
(* The token names its key by `kid`.  Key discovery: the metadata must     *)
(* exist, name this issuer and contain the kid; otherwise the kid is read  *)
(* as a URL and resolved directly.  The token is accepted ONLY IF the key  *)
(* found is the one it was signed with, the credential conforms to its     *)
(* type (schema) and the issuer kept to the type's disclosability policy.  *)
(*                                                                         *)
(* Named deviation KidUrlNotBoundToIssuer: a kid that is a URL is fetched  *)
(* through the resolver wherever it points -- nothing ties that key to the *)
(* `iss` claim.  With a resolver that can reach third-party URLs (or DID   *)
(* URLs of other DIDs) anyone can issue "for" any issuer.  The row         *)
(* kid = "url_elsewhere" x signed_with = "K3" records this behaviour.      *)
(*                                                                         *)
(* (kb) Key binding: the token may REQUIRE a holder key (cnf: a JWK or a   *)
(* kid).  validate_key_binding(verifier, jwk, hasher, options) accepts     *)
(* ONLY IF a required binding is present, the KB-JWT verifies under the    *)
(* given jwk, that jwk is the required one, iat lies in the window (no     *)
(* upper bound configured = not in the future), nonce and audience equal   *)
(* the configured ones (when configured) and sd_hash is the hash of the    *)
(* presentation it is attached to.  Without a requirement and without a    *)
(* KB-JWT there is nothing to check.                                       *)
(***************************************************************************)
EXTENDS Naturals, Sequences, FiniteSets, TLC, Json

VARIABLES row, out
vars == <<row, out>>

\* ------------------------------- vc -------------------------------
Metas == {"inline", "jwks_uri", "jwks_uri_missing", "absent", "other_issuer"}
Kids == {"key1", "key2", "unknown", "url_k1", "url_elsewhere", "absent"}
\* url_k1: an URL at the issuer's origin serving K1; url_elsewhere: an URL of another origin serving K3
Keys == {"K1", "K2", "K3"}
VRows == [part : {"vc"}, meta : Metas, kid : Kids, signed_with : Keys,
          type : {"conforms", "schema_fails", "unresolvable"}, policy : {"kept", "breached"}]

FromMetadata(r) ==
  IF r.meta \in {"inline", "jwks_uri"} THEN (CASE r.kid = "key1" -> "K1" [] r.kid = "key2" -> "K2" [] OTHER -> "none") ELSE "none"
Direct(r) == CASE r.kid = "url_k1" -> "K1" [] r.kid = "url_elsewhere" -> "K3" [] OTHER -> "none"      \* KidUrlNotBoundToIssuer
KeyFound(r) == IF FromMetadata(r) # "none" THEN FromMetadata(r) ELSE Direct(r)
VAccept(r) == KeyFound(r) # "none" /\ KeyFound(r) = r.signed_with /\ r.type = "conforms" /\ r.policy = "kept"

\* ------------------------------- kb -------------------------------
KRows == [part : {"kb"},
          required : {"none", "jwk", "kid"},         \* cnf of the credential: the holder key H (as JWK / by its kid)
          kb : {"absent", "by_holder", "by_other"},  \* who signed the KB-JWT
          given : {"holder_key", "other_key"},       \* the jwk the verifier passes in
          nonce : {"unset", "same", "different"},
          aud : {"unset", "same", "different"},
          iat : {"before_window", "in_window", "after_window", "past_no_window", "future_no_window"},
          sd_hash : {"this_presentation", "another_presentation"}]
KSensible(r) == r.part = "kb" => (r.kb = "absent" => (r.nonce = "unset" /\ r.aud = "unset" /\ r.iat = "in_window" /\ r.sd_hash = "this_presentation"))

Signer(r) == IF r.kb = "by_holder" THEN "holder_key" ELSE "other_key"
KAccept(r) ==
  IF r.kb = "absent" THEN r.required = "none"
  ELSE /\ Signer(r) = r.given                                  \* the KB-JWT verifies under the key handed in
       /\ (r.required # "none" => r.given = "holder_key")      \* and that key is the one the credential requires
       /\ r.iat \in {"in_window", "past_no_window"}
       /\ r.nonce # "different" /\ r.aud # "different"
       /\ r.sd_hash = "this_presentation"

\* ------------------------------- pres -------------------------------
\* The holder builds a presentation (SdJwtVc::into_presentation): concealing works exactly for claims the issuer made
\* concealable ("address"; "name" is in the clear, "missing" does not exist); a presentation of a credential that requires a
\* key binding cannot be finished without a KB-JWT; the verifier sees the concealed claim no more and everything else intact.
PRows == [part : {"pres"}, conceal : {"nothing", "address", "name", "missing"}, required : {"none", "kid"}, kb : BOOLEAN]
PAccept(r) == r.conceal \in {"nothing", "address"} /\ (r.required = "kid" => r.kb)

Evaluate(r) == CASE r.part = "vc" -> [accept |-> VAccept(r)] [] r.part = "kb" -> [accept |-> KAccept(r)]
                 [] r.part = "pres" -> [accept |-> PAccept(r), address_shows |-> PAccept(r) /\ r.conceal # "address"]
Init == row \in {r \in VRows \cup KRows \cup PRows : KSensible(r)} /\ out = Evaluate(row)
Next == UNCHANGED vars
Spec == Init /\ [][Next]_vars

SignedByTheKeyFound == (row.part = "vc" /\ out.accept) => KeyFound(row) = row.signed_with
\* what holds in spite of the deviation: a key published in the issuer's own metadata wins over the kid URL
MetadataWins == (row.part = "vc" /\ out.accept /\ FromMetadata(row) # "none") => row.signed_with = FromMetadata(row)
RequiredBindingIsChecked == (row.part = "kb" /\ out.accept /\ row.required # "none") => (row.kb = "by_holder" /\ row.given = "holder_key")

Emit == PrintT(<<"CASE", ToJson([row |-> row, out |-> out])>>)
=============================================================================
