SPECIFICATION TraceSpec
CONSTANTS
  SampleT = 1
  N = 16
  OorD = {0, 1, 7, 8, 1000000}
  UpdIdx = {0}
PROPERTIES TraceStepProp
POSTCONDITION TraceAccepted
CHECK_DEADLOCK FALSE
