--------------------------- MODULE LifecycleTrace ---------------------------
(* Direction V for the composition: a long random history recorded from the real objects (document + stores + validator)  *)
(* must be a behaviour of Lifecycle.tla: every recorded step is the specification's action for that operation, with exactly *)
(* the recorded outcome.  A "reset" event starts a fresh issuer.                                                             *)
EXTENDS Lifecycle, IOUtils

Rec == ndJsonDeserialize(IOEnv.TRACE)

VARIABLE l
tvars == <<meth, nextGen, revoked, tokens, epoch, hist, l>>

TraceInit == Init /\ l = 1

StepFor(op) ==
  CASE op.name = "generate" -> Generate(op.f, op.scope)
    [] op.name = "purge" -> Purge(op.f)
    [] op.name = "attach" -> Attach(op.f)
    [] op.name = "detach" -> Detach(op.f)
    [] op.name = "issue" -> Issue(op.f, op.i)
    [] op.name = "revoke" -> Revoke(op.i)
    [] op.name = "unrevoke" -> Unrevoke(op.i)
    [] op.name = "validate" -> Validate(op.token, op.scope)
    [] op.name = "rebase" -> Rebase /\ op.to = 1 - epoch
    [] OTHER -> FALSE

TraceNext ==
  /\ l <= Len(Rec)
  /\ l' = l + 1
  /\ LET e == Rec[l] IN
     IF e.op.name = "reset"
     THEN /\ meth' = [f \in Frags |-> Absent] /\ nextGen' = 1 /\ revoked' = {} /\ tokens' = <<>> /\ epoch' = 0 /\ hist' = <<>>
     ELSE /\ StepFor(e.op)
          /\ hist'[Len(hist')].res = e.res

TraceSpec == TraceInit /\ [][TraceNext]_tvars

TraceAccepted ==
  LET n == TLCGet("stats").diameter - 1 IN
  IF n = Len(Rec) THEN PrintT("TRACE-ACCEPTED events=" \o ToString(n))
  ELSE PrintT("TRACE-REJECTED matched=" \o ToString(n) \o " of " \o ToString(Len(Rec))) /\ FALSE
=============================================================================
