-------------------------- MODULE MCDidSyntaxTrace --------------------------
EXTENDS DidSyntaxTrace
PfxT == {[txt |-> "did:m:", ok |-> TRUE, method |-> "m"]}
=============================================================================
