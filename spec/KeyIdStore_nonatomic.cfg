SPECIFICATION Spec
CONSTANTS
  Threads = {1, 2}
  Plans <- PlansQ
  Atomic = FALSE
INVARIANTS TypeOK AtMostOneWinner MappingIsWinners
CHECK_DEADLOCK FALSE
