--------------------------- MODULE KeyIdStoreTrace ---------------------------
(* Direction V (schedules) for C15: call/return events of real threads racing *)
(* on one KeyIdMemstore, ordered by one atomic counter.  The trace spec        *)
(* inserts the linearisation step Lin(t) itself, anywhere between a thread's   *)
(* call and its return; a round is linearizable iff the end of the recorded    *)
(* events can be reached.  Acceptance witness: the invariant NotDone is        *)
(* violated (l ran past the last event).                                       *)
EXTENDS Naturals, Sequences, FiniteSets, TLC, Json, IOUtils

Rec == ndJsonDeserialize(IOEnv.TRACE)

VARIABLES l, map, pend
tvars == <<l, map, pend>>

Idle == [name |-> "idle"]
MaxT == 16

Effect(m, name, kid) ==
  CASE name = "insert_key_id" -> IF m = 0 THEN [map |-> kid, res |-> [ok |-> TRUE]] ELSE [map |-> m, res |-> [ok |-> FALSE]]
    [] name = "delete_key_id" -> IF m = 0 THEN [map |-> m, res |-> [ok |-> FALSE]] ELSE [map |-> 0, res |-> [ok |-> TRUE]]
    [] name = "get_key_id"    -> IF m = 0 THEN [map |-> m, res |-> [ok |-> FALSE]] ELSE [map |-> m, res |-> [ok |-> TRUE, kid |-> m]]

TraceInit == l = 1 /\ map = 0 /\ pend = [t \in 1..MaxT |-> Idle] /\ TLCSet(1, 1)

Consume ==
  /\ l <= Len(Rec)
  /\ l' = l + 1
  /\ LET e == Rec[l] IN
     CASE e.ev = "begin" -> map' = e.pre /\ pend' = [t \in 1..MaxT |-> Idle]
       [] e.ev = "call"  -> /\ pend[e.t] = Idle
                            /\ pend' = [pend EXCEPT ![e.t] = [name |-> e.name, kid |-> e.kid, lin |-> FALSE, res |-> [ok |-> FALSE]]]
                            /\ UNCHANGED map
       [] e.ev = "ret"   -> /\ pend[e.t] # Idle /\ pend[e.t].lin /\ pend[e.t].res = e.res
                            /\ pend' = [pend EXCEPT ![e.t] = Idle] /\ UNCHANGED map
       [] e.ev = "end"   -> /\ map = e.final /\ \A t \in 1..MaxT : pend[t] = Idle
                            /\ UNCHANGED <<map, pend>>

\* silent: the linearisation point of a pending call
Lin ==
  \E t \in 1..MaxT :
    /\ pend[t] # Idle /\ ~pend[t].lin
    /\ LET e == Effect(map, pend[t].name, pend[t].kid) IN
       /\ map' = e.map
       /\ pend' = [pend EXCEPT ![t] = [@ EXCEPT !.lin = TRUE, !.res = e.res]]
    /\ UNCHANGED l

TraceNext == Consume \/ Lin
TraceSpec == TraceInit /\ [][TraceNext]_tvars

NotDone == l <= Len(Rec)
Track == IF l > TLCGet(1) THEN TLCSet(1, l) ELSE TRUE
TraceRejected == PrintT("TRACE-REJECTED matched=" \o ToString(TLCGet(1) - 1) \o " of " \o ToString(Len(Rec))) /\ FALSE
=============================================================================
