--------------------------- MODULE KeyIdStoreTrace ---------------------------
(* Direction V (schedules) for C15: call/return events of real threads racing *)
(* on one KeyIdMemstore, ordered by one atomic counter.  Every call event      *)
(* carries the result its return later reported (`exp`, filled in by the      *)
(* recorder when the call returned; the return event repeats it).  The trace   *)
(* spec inserts the linearisation step itself, between a thread's call and its *)
(* return; a round is linearizable iff the end of the recorded events can be   *)
(* reached.  Acceptance witness: the invariant NotDone is violated.            *)
(*                                                                             *)
(* The search is kept small without losing any linearization:                  *)
(*  - a pending call whose expected result is what the store would answer NOW  *)
(*    and that leaves the mapping as it is (a losing insert, a get, a delete   *)
(*    of nothing) is linearised at once (Eager): it changes nothing for the    *)
(*    others, so any linearization that places it later can place it here;     *)
(*  - a call that changes the mapping (winning insert, successful delete) is   *)
(*    linearised only when the next recorded event is the return of a call     *)
(*    not yet linearised (JustInTime): linearisation points commute with the   *)
(*    call events and with returns of already linearised calls.                *)
(* Rejecting a non-linearizable round with 16 threads took > 15 min before    *)
(* these two rules (2^16 subsets of linearised calls per event).               *)
EXTENDS Naturals, Sequences, FiniteSets, TLC, Json, IOUtils

Rec == ndJsonDeserialize(IOEnv.TRACE)

VARIABLES l, map, pend
tvars == <<l, map, pend>>

Idle == [name |-> "idle"]
MaxT == 16

Effect(m, name, kid) ==
  CASE name = "insert_key_id" -> IF m = 0 THEN [map |-> kid, res |-> [ok |-> TRUE]] ELSE [map |-> m, res |-> [ok |-> FALSE]]
    [] name = "delete_key_id" -> IF m = 0 THEN [map |-> m, res |-> [ok |-> FALSE]] ELSE [map |-> 0, res |-> [ok |-> TRUE]]
    [] name = "get_key_id"    -> IF m = 0 THEN [map |-> m, res |-> [ok |-> FALSE]] ELSE [map |-> m, res |-> [ok |-> TRUE, kid |-> m]]

TraceInit == l = 1 /\ map = 0 /\ pend = [t \in 1..MaxT |-> Idle] /\ TLCSet(1, 1)

Consume ==
  /\ l <= Len(Rec)
  /\ l' = l + 1
  /\ LET e == Rec[l] IN
     CASE e.ev = "begin" -> map' = e.pre /\ pend' = [t \in 1..MaxT |-> Idle]
       [] e.ev = "call"  -> /\ pend[e.t] = Idle
                            /\ pend' = [pend EXCEPT ![e.t] = [name |-> e.name, kid |-> e.kid, lin |-> FALSE, exp |-> e.exp]]
                            /\ UNCHANGED map
       [] e.ev = "ret"   -> /\ pend[e.t] # Idle /\ pend[e.t].lin /\ pend[e.t].exp = e.res
                            /\ pend' = [pend EXCEPT ![e.t] = Idle] /\ UNCHANGED map
       [] e.ev = "end"   -> /\ map = e.final /\ \A t \in 1..MaxT : pend[t] = Idle
                            /\ UNCHANGED <<map, pend>>

\* silent: the linearisation point of a pending call; it must answer what the call later reported
Waiting(t) == pend[t] # Idle /\ ~pend[t].lin
Lin(t) ==
  /\ Waiting(t)
  /\ LET e == Effect(map, pend[t].name, pend[t].kid) IN
     /\ e.res = pend[t].exp
     /\ map' = e.map
     /\ pend' = [pend EXCEPT ![t] = [@ EXCEPT !.lin = TRUE]]
  /\ UNCHANGED l
ReadOnlyReady(t) ==
  Waiting(t) /\ LET e == Effect(map, pend[t].name, pend[t].kid) IN e.res = pend[t].exp /\ e.map = map
Eager == \E t \in 1..MaxT : ReadOnlyReady(t) /\ (\A u \in 1..t-1 : ~ReadOnlyReady(u)) /\ Lin(t)
JustInTime ==
  /\ l <= Len(Rec) /\ Rec[l].ev = "ret" /\ Waiting(Rec[l].t)
  /\ \E t \in 1..MaxT : Lin(t)

TraceNext == IF \E t \in 1..MaxT : ReadOnlyReady(t) THEN Eager ELSE Consume \/ JustInTime
TraceSpec == TraceInit /\ [][TraceNext]_tvars

NotDone == l <= Len(Rec)
Track == IF l > TLCGet(1) THEN TLCSet(1, l) ELSE TRUE
TraceRejected == PrintT("TRACE-REJECTED matched=" \o ToString(TLCGet(1) - 1) \o " of " \o ToString(Len(Rec))) /\ FALSE
=============================================================================
