--------------------------- MODULE OneOrManyTrace ---------------------------
EXTENDS OneOrMany, IOUtils

Rec == ndJsonDeserialize(IOEnv.TRACE)

VARIABLE l
tvars == <<o, viaDe, last, l>>

TraceInit == l = 1 /\ o = Many(<<>>) /\ viaDe = FALSE
             /\ last = [m |-> "oom", pre |-> o, op |-> [name |-> "init"], res |-> [ok |-> TRUE], post |-> o]

TraceNext ==
  /\ l <= Len(Rec)
  /\ l' = l + 1
  /\ LET e == Rec[l] IN
     IF e.op.name = "reset"
     THEN o' = Many(<<>>) /\ viaDe' = FALSE /\ e.post = Many(<<>>) /\ UNCHANGED last
     ELSE LET r == Apply(o, viaDe, e.op)
          IN /\ r.res = e.res
             /\ r.post = e.post
             /\ o' = r.post /\ viaDe' = r.de
             /\ last' = [m |-> "oom", pre |-> o, op |-> e.op, res |-> r.res, post |-> r.post]

TraceSpec == TraceInit /\ [][TraceNext]_tvars

TraceAccepted ==
  LET n == TLCGet("stats").diameter - 1 IN
  IF n = Len(Rec) THEN PrintT("TRACE-ACCEPTED events=" \o ToString(n))
  ELSE PrintT("TRACE-REJECTED matched=" \o ToString(n) \o " of " \o ToString(Len(Rec))) /\ FALSE
=============================================================================
