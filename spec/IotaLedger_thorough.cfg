SPECIFICATION Spec
CONSTANTS
  Slots = {1, 2}
  Versions = {1, 2, 3}
  Depth = 5
INVARIANTS TypeOK IndexCounts NoGaps
PROPERTIES ResolveIsLastPublished
VIEW View
ACTION_CONSTRAINT EmitT
CHECK_DEADLOCK FALSE
