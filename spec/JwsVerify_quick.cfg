SPECIFICATION Spec
INVARIANTS VerifiedMeansBound ClaimsAreSignedPayload NeverFromUnprotected Emit
CHECK_DEADLOCK FALSE
