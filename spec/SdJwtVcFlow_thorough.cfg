SPECIFICATION Spec
INVARIANTS SignedByTheKeyFound MetadataWins RequiredBindingIsChecked Emit
CHECK_DEADLOCK FALSE
