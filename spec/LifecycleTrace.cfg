SPECIFICATION TraceSpec
CONSTANTS
  Frags = {"a", "b", "c", "d"}
  Idx = {1, 2, 3}
  MaxGen = 1000000
  MaxTokens = 1000000
  Depth = 1000000
  WithRebase = TRUE
INVARIANTS TypeOK FreshKeys AcceptedMeansLive
POSTCONDITION TraceAccepted
CHECK_DEADLOCK FALSE
