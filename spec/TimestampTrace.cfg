SPECIFICATION TraceSpec
CONSTANTS
  Dates = {}
  Times = {}
  Offsets = {}
  FracLens = {}
  UnixRows = {}
  DurRows = {}
  SampleArith = 1
INVARIANTS TraceRange TraceCalendar
POSTCONDITION TraceAccepted
CHECK_DEADLOCK FALSE
