SPECIFICATION Spec
CONSTANTS
  Frags = {"a", "b"}
  Idx = {1, 2}
  MaxGen = 6
  MaxTokens = 4
  Depth = 24
  WithRebase = TRUE
INVARIANTS TypeOK FreshKeys AcceptedMeansLive Emit
ACTION_CONSTRAINT EffectiveMostly
CHECK_DEADLOCK FALSE
