---------------------------- MODULE OrderedSet ----------------------------
(***************************************************************************)
(* C19 (part 1).  identity_core::common::OrderedSet<T> as an abstract      *)
(* duplicate-free list.  Elements are records [k, v]: k is the comparison  *)
(* key (KeyComparable::key), v a payload that is NOT part of the key, so   *)
(* that "key is the value" (|Vals| = 1) and "key is a projection"          *)
(* (|Vals| = 2) are both covered.                                          *)
(*                                                                         *)
(* The spec is a pure function Apply(state, op) -> [res, post]; Next and   *)
(* the trace spec (OrderedSetTrace) both use it.  All values are strings,  *)
(* integers, booleans, records and sequences so that JSON written by TLC   *)
(* and JSON written by the Rust harness denote the same TLA+ values.       *)
(***************************************************************************)
EXTENDS Naturals, Sequences, FiniteSets, TLC, Json

CONSTANTS Keys,      \* set of strings
          Vals,      \* set of integers
          MaxList    \* longest list offered to the list constructors
CONSTANT SampleT

VARIABLES s,         \* the abstract list: Seq([k, v])
          last       \* the transition that produced s (observation only)

vars == <<s, last>>

Elem == [k : Keys, v : Vals]

None == [tag |-> "none"]
Some(e) == [tag |-> "some", e |-> e]

HasKey(q, k) == \E i \in 1..Len(q) : q[i].k = k

NoDupKeys(q) == \A i, j \in 1..Len(q) : q[i].k = q[j].k => i = j

FirstIdx(q, P(_)) == CHOOSE i \in 1..Len(q) : P(q[i]) /\ \A j \in 1..(i-1) : ~P(q[j])

\* OrderedSet::change: first index matching, later matches dropped, update placed at that index.
Change(q, e, M(_)) ==
  IF \E i \in 1..Len(q) : M(q[i])
  THEN LET idx == FirstIdx(q, M)
           keep == SelectSeq(SubSeq(q, idx, Len(q)), LAMBDA x : ~M(x))
       IN [res |-> TRUE, post |-> SubSeq(q, 1, idx - 1) \o <<e>> \o keep]
  ELSE [res |-> FALSE, post |-> q]

\* first occurrences kept (FromIterator)
RECURSIVE Dedup(_, _)
Dedup(list, acc) ==
  IF list = <<>> THEN acc
  ELSE Dedup(Tail(list), IF HasKey(acc, Head(list).k) THEN acc ELSE Append(acc, Head(list)))

Apply(q, op) ==
  CASE op.name = "append"  ->
         IF HasKey(q, op.e.k) THEN [res |-> [ok |-> FALSE], post |-> q]
         ELSE [res |-> [ok |-> TRUE], post |-> Append(q, op.e)]
    [] op.name = "prepend" ->
         IF HasKey(q, op.e.k) THEN [res |-> [ok |-> FALSE], post |-> q]
         ELSE [res |-> [ok |-> TRUE], post |-> <<op.e>> \o q]
    [] op.name = "update"  ->
         LET r == Change(q, op.e, LAMBDA x : x.k = op.e.k)
         IN [res |-> [ok |-> r.res], post |-> r.post]
    [] op.name = "replace" ->
         LET r == Change(q, op.e, LAMBDA x : x.k = op.cur \/ x.k = op.e.k)
         IN [res |-> [ok |-> r.res], post |-> r.post]
    [] op.name = "remove"  ->
         IF HasKey(q, op.key)
         THEN LET idx == FirstIdx(q, LAMBDA x : x.k = op.key)
              IN [res |-> Some(q[idx]), post |-> SubSeq(q, 1, idx - 1) \o SubSeq(q, idx + 1, Len(q))]
         ELSE [res |-> None, post |-> q]
    [] op.name = "contains" -> [res |-> [ok |-> HasKey(q, op.key)], post |-> q]
    [] op.name = "try_from_vec" ->      \* TryFrom<Vec<T>> and serde (try_from = "Vec<T>")
         IF NoDupKeys(op.list) THEN [res |-> [ok |-> TRUE], post |-> op.list]
         ELSE [res |-> [ok |-> FALSE], post |-> q]
    [] op.name = "collect" ->           \* FromIterator: duplicates ignored, first kept
         [res |-> [ok |-> TRUE], post |-> Dedup(op.list, <<>>)]

Lists == UNION {[1..n -> Elem] : n \in 0..MaxList}

Ops == [name : {"append", "prepend", "update"}, e : Elem]
       \cup [name : {"replace"}, cur : Keys, e : Elem]
       \cup [name : {"remove", "contains"}, key : Keys]
       \cup [name : {"try_from_vec", "collect"}, list : Lists]

InitLast == [pre |-> <<>>, op |-> [name |-> "init"], res |-> [ok |-> TRUE], post |-> <<>>]

Init == s = <<>> /\ last = InitLast

Next == \E op \in Ops :
          LET r == Apply(s, op)
          IN /\ s' = r.post
             /\ last' = [pre |-> s, op |-> op, res |-> r.res, post |-> r.post]

Spec == Init /\ [][Next]_vars

-----------------------------------------------------------------------------
(* Properties *)

TypeOK == s \in Seq(Elem) /\ Len(s) <= Cardinality(Keys)

\* the C19 invariant proper
KeyUnique == NoDupKeys(s)

Keyset(q) == {q[i].k : i \in 1..Len(q)}

\* Order/flag laws checked on every transition (they are consequences of Apply that the
\* property text states independently: result flag, insertion order, nothing else disturbed).
Without(q, K) == SelectSeq(q, LAMBDA x : x.k \notin K)
StepLaws ==
  LET op == last.op  pre == last.pre  post == last.post IN
  CASE op.name = "append"  -> /\ last.res.ok = ~HasKey(pre, op.e.k)
                              /\ post = IF last.res.ok THEN Append(pre, op.e) ELSE pre
    [] op.name = "prepend" -> /\ last.res.ok = ~HasKey(pre, op.e.k)
                              /\ post = IF last.res.ok THEN <<op.e>> \o pre ELSE pre
    [] op.name = "update"  -> /\ last.res.ok = HasKey(pre, op.e.k)
                              /\ Len(post) = Len(pre)
                              /\ Without(post, {op.e.k}) = Without(pre, {op.e.k})
                              /\ last.res.ok => \E i \in 1..Len(pre) : pre[i].k = op.e.k /\ post[i] = op.e
    [] op.name = "replace" -> /\ last.res.ok = (HasKey(pre, op.cur) \/ HasKey(pre, op.e.k))
                              /\ Without(post, {op.e.k}) = Without(pre, {op.cur, op.e.k})
                              /\ last.res.ok => HasKey(post, op.e.k)
                              /\ ~last.res.ok => post = pre
    [] op.name = "remove"  -> /\ (last.res.tag = "some") = HasKey(pre, op.key)
                              /\ post = Without(pre, {op.key})
                              /\ last.res.tag = "some" => last.res.e.k = op.key
    [] op.name = "contains" -> post = pre /\ last.res.ok = (op.key \in Keyset(pre))
    [] op.name = "try_from_vec" -> /\ last.res.ok = NoDupKeys(op.list)
                                   /\ last.res.ok => post = op.list
                                   /\ ~last.res.ok => post = pre
    [] op.name = "collect" -> /\ Keyset(post) = Keyset(op.list)
                              /\ \A i \in 1..Len(post) :
                                   \E j \in 1..Len(op.list) :
                                     /\ op.list[j] = post[i]
                                     /\ \A j2 \in 1..(j-1) : op.list[j2].k # post[i].k
    [] OTHER -> TRUE

\* `last` is an observation variable: states are identified by s alone (VIEW), so each abstract
\* state is expanded once and every generated transition is (a) checked against StepLaws as an
\* action property and (b) emitted once for direction R through an action constraint.
View == s
StepProp == [][StepLaws']_vars
\* emit every transition (SampleT = 1) or a random 1/SampleT of them (all are model-checked either way)
EmitT == RandomElement(1..SampleT) # 1 \/ PrintT(<<"CASE", ToJson(last')>>)
=============================================================================
