----------------------------- MODULE SdJwtVcType -----------------------------
(***************************************************************************)
(* Beyond the list: SD-JWT VC type metadata (sd_jwt_vc/metadata).          *)
(*                                                                         *)
(* (1) A credential type may carry a JSON schema (embedded or referenced   *)
(* by URI) and may EXTEND another type.  TypeMetadata::                    *)
(* validate_credential_with_resolver(credential, resolver) accepts the     *)
(* credential ONLY IF the schema of the type and of every type it          *)
(* (transitively) extends accepts it; every referenced schema and extended *)
(* type must resolve; a cycle of extensions is an error.  TypeMetadata::   *)
(* validate_credential(credential) looks at this type alone: it applies an *)
(* embedded schema, refuses a referenced one, ignores extensions.          *)
(*                                                                         *)
(* Types T1 -> T2 -> T3 (extends); the schema of Tk requires the string    *)
(* member "pk".  A row = chain shape x schema kind of each type x which    *)
(* members the credential has.                                             *)
(*                                                                         *)
(* (2) A claim's metadata says whether the issuer must make it selectively *)
(* disclosable: always / allowed / never.  ClaimMetadata::                 *)
(* check_value_disclosability(payload) is given the JWT payload as issued  *)
(* (concealed claims replaced by digests).                                 *)
(***************************************************************************)
EXTENDS Naturals, Sequences, FiniteSets, TLC, Json

VARIABLES row, out
vars == <<row, out>>

Kinds == {"none", "embedded", "referenced", "referenced_missing"}    \* referenced_missing: the schema URI does not resolve
\* shape of the extension chain starting at T1
Shapes == {"t1", "t1_t2", "t1_t2_t3", "t1_dangling", "t1_t2_dangling", "t1_self", "t1_t2_t1", "t1_t2_t3_t2"}
ChainLen(sh) == CASE sh \in {"t1", "t1_dangling", "t1_self"} -> 1 [] sh \in {"t1_t2", "t1_t2_dangling", "t1_t2_t1"} -> 2 [] OTHER -> 3
ChainEnd(sh) == CASE sh \in {"t1", "t1_t2", "t1_t2_t3"} -> "end"
              [] sh \in {"t1_dangling", "t1_t2_dangling"} -> "dangling"      \* the last type extends a URI that does not resolve
              [] OTHER -> "cycle"

TRows == [part : {"type"}, shape : Shapes, k1 : Kinds, k2 : Kinds, k3 : Kinds, has : SUBSET {1, 2, 3},
          via : {"with_resolver", "alone"}]
KindOf(r, k) == IF k = 1 THEN r.k1 ELSE IF k = 2 THEN r.k2 ELSE r.k3
\* types beyond the chain do not matter: fix their kind to keep the table free of duplicates
Canonical(r) == r.part = "type" => /\ (ChainLen(r.shape) < 2 => r.k2 = "none") /\ (ChainLen(r.shape) < 3 => r.k3 = "none")

SchemaAccepts(r, k) == KindOf(r, k) \in {"none"} \/ k \in r.has
TAccept(r) ==
  IF r.via = "alone"
  THEN /\ r.k1 \in {"none", "embedded"}                     \* a referenced schema needs the resolver
       /\ SchemaAccepts(r, 1)                               \* extensions are ignored here, by contract
  ELSE /\ \A k \in 1..ChainLen(r.shape) : KindOf(r, k) # "referenced_missing" /\ SchemaAccepts(r, k)
       /\ ChainEnd(r.shape) = "end"

\* ------------------------------- disclosability -------------------------------
\* the claim as the ISSUER put it into the token
Placements == {"plain", "concealed", "absent"}
DRows == [part : {"sd"}, policy : {"always", "allowed", "never", "unset"}, placement : Placements,
          path : {"name", "nested", "array_entry", "array_all"}]
\* unset = allowed.  "always": the claim must not sit in the clear; "never": it must not be concealed.
\* named deviation AbsentCountsAsConcealed: the check looks for the claim in the issued payload and cannot tell a concealed
\* claim from one that is not there at all, so with "never" an absent claim is refused too
DAccept(r) ==
  CASE r.policy \in {"allowed", "unset"} -> TRUE
    [] r.policy = "always" -> r.placement # "plain"
    [] r.policy = "never" -> r.placement = "plain"

Evaluate(r) == IF r.part = "type" THEN [accept |-> TAccept(r)] ELSE [accept |-> DAccept(r)]
Init == row \in {r \in TRows \cup DRows : Canonical(r)} /\ out = Evaluate(row)
Next == UNCHANGED vars
Spec == Init /\ [][Next]_vars

\* accepted with the resolver only if every schema on the chain was applied and held
EverySchemaHolds ==
  (row.part = "type" /\ row.via = "with_resolver" /\ out.accept) =>
     \A k \in 1..ChainLen(row.shape) : (KindOf(row, k) \in {"embedded", "referenced"} => k \in row.has)

RECURSIVE SetToSeq(_)
SetToSeq(S) == IF S = {} THEN <<>> ELSE LET x == CHOOSE x \in S : \A y \in S : x <= y IN <<x>> \o SetToSeq(S \ {x})
RowJ(r) == IF r.part = "type" THEN [r EXCEPT !.has = SetToSeq(r.has)] ELSE r
Emit == PrintT(<<"CASE", ToJson([row |-> RowJ(row), out |-> out])>>)
=============================================================================
