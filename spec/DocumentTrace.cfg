SPECIFICATION TraceSpec
CONSTANTS
  Ids <- Ids12
  RelOrder <- Rel5
  MaxLoad = 2
  MaxInit = 0
  SampleT = 1
  SampleS = 1
  GuardDangling = TRUE
INVARIANTS DocValid P_NoDupMethodId P_NoRefAliasesEmbedded P_NoServiceIdIsMethodId
PROPERTIES RefusalProp
POSTCONDITION TraceAccepted
CHECK_DEADLOCK FALSE
