SPECIFICATION LoadSpec
CONSTANTS
  Ids <- Ids4
  RelOrder <- Rel2
  MaxLoad = 3
  MaxInit = 1
  SampleT = 1
  SampleS = 1
  GuardDangling = TRUE
INVARIANTS EmitLoad
CHECK_DEADLOCK FALSE
