SPECIFICATION Spec
CONSTANTS
  Frags = {"a", "b"}
  Idx = {1, 2}
  MaxGen = 3
  MaxTokens = 2
  Depth = 5
  WithRebase = TRUE
INVARIANTS TypeOK FreshKeys AcceptedMeansLive Emit
ACTION_CONSTRAINT Effective
CHECK_DEADLOCK FALSE
