SPECIFICATION Spec
CONSTANTS
  SampleT = 1
  Keys = {"a", "b"}
  Vals = {0, 1}
  MaxList = 2
  MaxLen = 3
VIEW View
INVARIANTS TypeOK OneIsOne CtorSingletonBare
ACTION_CONSTRAINT EmitT
CHECK_DEADLOCK FALSE
