SPECIFICATION Spec
INVARIANTS BaseFirst Emit
CHECK_DEADLOCK FALSE
