--------------------------- MODULE TimestampTrace ---------------------------
(* Direction V for C13: every recorded (row, outcome) pair from the real     *)
(* Timestamp code must be the outcome the calendar oracle computes (leap     *)
(* seconds: rejected or the preceding second).  `out` is bound to the REAL   *)
(* outcome so the range / calendar invariants are evaluated on it.           *)
EXTENDS Timestamp, IOUtils

Rec == ndJsonDeserialize(IOEnv.TRACE)

VARIABLE l
tvars == <<row, out, l>>

TraceInit == l = 1 /\ row = [kind |-> "none"] /\ out = [acc |-> "no"]

TraceNext ==
  /\ l <= Len(Rec)
  /\ l' = l + 1
  /\ LET e == Rec[l]
         exp == Evaluate(e.row)
     IN /\ IF exp.acc = "leap" THEN (e.out.acc = "no" \/ e.out = exp.alt)
           \* "parsing ... either fails or yields the instant it denotes": a refusal of a parse row is always allowed
           ELSE (e.out = exp \/ (e.row.kind = "parse" /\ e.out.acc = "no"))
        /\ row' = e.row /\ out' = e.out

TraceSpec == TraceInit /\ [][TraceNext]_tvars

TraceRange == out.acc = "yes" => InRange(<<out.day, out.sec>>) /\ out.y \in 0..9999
TraceCalendar == out.acc = "yes" => DaysFromCivil(out.y, out.mo, out.d) = out.day

TraceAccepted ==
  LET n == TLCGet("stats").diameter - 1 IN
  IF n = Len(Rec) THEN PrintT("TRACE-ACCEPTED events=" \o ToString(n))
  ELSE PrintT("TRACE-REJECTED matched=" \o ToString(n) \o " of " \o ToString(Len(Rec))) /\ FALSE
=============================================================================
