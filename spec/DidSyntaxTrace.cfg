SPECIFICATION TraceSpec
CONSTANTS
  Sigma = {}
  MaxLen = 0
  Mids = {}
  Paths = {}
  Queries = {}
  Frags = {}
  Pfx <- PfxT
  Bases = {}
  SegLen = 0
  LongLen = 0
  SigmaLong = {}
INVARIANTS Recompose CleanParts PlainDid
POSTCONDITION TraceAccepted
CHECK_DEADLOCK FALSE
