SPECIFICATION Spec
INVARIANTS ProducedComplete NeverUnderAnother Emit
CHECK_DEADLOCK FALSE
