------------------------------ MODULE JwsVerify ------------------------------
(***************************************************************************)
(* C01.  What a verifier may conclude from a received JWS.                  *)
(*                                                                         *)
(* A received token is described by where its bytes come from; byte        *)
(* strings are referred to by NAME (identifiers of received byte strings): *)
(*   P   the protected-header segment exactly as received                  *)
(*   Y   the payload exactly as received (attached member / segment, or    *)
(*       the detached argument)                                            *)
(*   SI  = P . "." . Y   the only signing input the signature may be       *)
(*       checked over                                                      *)
(* The two-step machine is Decode then Verify, as in the library           *)
(* (Decoder::decode_* then JwsValidationItem::verify).                     *)
(***************************************************************************)
EXTENDS Naturals, Sequences, FiniteSets, TLC, Json

VARIABLES tok,       \* the received token (a row of the decision table)
          pc,        \* "received" | "decoded" | "rejected" | "verified" | "refused"
          item,      \* what Decode hands on: [si, claims, alg]
          vcall      \* what the signature verifier was called with (NoCall if not called)
vars == <<tok, pc, item, vcall>>

Sers == {"compact", "flattened", "general"}
Toks == [ser : Sers,
         shape : {"canonical", "noncanonical"},         \* member order / whitespace of the protected header JSON
         b64 : {"absent", "true", "false"},
         attached : {"present", "empty", "missing"},    \* payload inside the token
         detached : BOOLEAN,                            \* payload given separately
         algAt : {"protected", "unprotected", "nowhere"},
         keyAlg : {"absent", "same", "other"},          \* alg pinned on the caller's key
         sig : {"over_SI", "over_reencoded_SI", "over_other_payload", "garbage", "wrong_length"},
         alg : {"EdDSA", "ES256", "ES256K"},
         \* general serialization only: the entry under test is preceded by another (valid) signature entry whose
         \* protected header agrees / disagrees on b64.  Every entry is decoded under ITS OWN protected header: what
         \* precedes it changes nothing below.
         before : {"nothing", "entry_same_b64", "entry_other_b64"},
         \* JSON serializations only: the `protected` member is written with a JSON escape sequence ("\u0065yJ...").  Named
         \* deviation EscapedMembersRefused: the decoder borrows its strings from the input and refuses such a token; a
         \* decoder that accepts it must still check the signature over the UNESCAPED member value exactly as received.
         escapes : {"none", "protected_member"}]

\* compact has no unprotected header and no "missing" payload member (the segment is always there)
Shaped(t) == /\ (t.ser = "compact" => (t.algAt # "unprotected" /\ t.attached # "missing"))
             \* re-encoding only differs from the received bytes when the received header is not canonical
             /\ (t.sig = "over_reencoded_SI" => t.shape = "noncanonical")
             /\ (t.before # "nothing" => t.ser = "general")
             /\ (t.escapes # "none" => (t.ser # "compact" /\ t.before = "nothing"))

OnePayload(t) == (t.attached = "present") # t.detached        \* exactly one source

None == [si |-> "none", claims |-> "none", alg |-> "none"]
NoCall == [alg |-> "none", si |-> "none", key |-> "none"]

Init == tok \in {t \in Toks : Shaped(t)} /\ pc = "received" /\ item = None /\ vcall = NoCall

Decode ==
  /\ pc = "received"
  /\ IF OnePayload(tok) /\ tok.escapes = "none"
     THEN /\ pc' = "decoded"
          /\ item' = [si |-> "P.Y",
                      claims |-> IF tok.b64 = "false" THEN "Y" ELSE "b64dec(Y)",
                      alg |-> IF tok.algAt = "protected" THEN tok.alg ELSE "none"]
     ELSE pc' = "rejected" /\ UNCHANGED item
  /\ UNCHANGED <<tok, vcall>>

Verify ==
  /\ pc = "decoded"
  /\ IF item.alg = "none" \/ tok.keyAlg = "other"
     THEN pc' = "refused" /\ UNCHANGED vcall                      \* the verifier is not even consulted
     ELSE /\ vcall' = [alg |-> item.alg, si |-> item.si, key |-> "callers_key"]
          /\ pc' = IF tok.sig = "over_SI" THEN "verified" ELSE "refused"
  /\ UNCHANGED <<tok, item>>

Next == Decode \/ Verify
Spec == Init /\ [][Next]_vars

-----------------------------------------------------------------------------
\* reported verified only if the check was made over exactly SI, with the protected algorithm and the caller's key,
\* it succeeded, and an algorithm pinned on the key equals the header's
VerifiedMeansBound ==
  pc = "verified" =>
    /\ vcall = [alg |-> tok.alg, si |-> "P.Y", key |-> "callers_key"]
    /\ tok.algAt = "protected" /\ tok.keyAlg \in {"absent", "same"} /\ tok.sig = "over_SI" /\ OnePayload(tok)
\* the claims handed back are the signed payload
ClaimsAreSignedPayload == pc \in {"decoded", "verified"} => item.claims = (IF tok.b64 = "false" THEN "Y" ELSE "b64dec(Y)")
NeverFromUnprotected == item.alg # "none" => tok.algAt = "protected"

Final == pc \in {"rejected", "refused", "verified"}
Refusal == IF ~OnePayload(tok) THEN "payload_sources" ELSE IF tok.escapes # "none" THEN "escaped_member" ELSE "none"
Emit == ~Final \/ PrintT(<<"CASE", ToJson([tok |-> tok, outcome |-> pc, decoded |-> item # None, refusal |-> Refusal,
                                            verifier_called |-> vcall # NoCall])>>)
=============================================================================
