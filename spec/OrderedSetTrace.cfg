SPECIFICATION TraceSpec
CONSTANTS
  SampleT = 1
  Keys = {"a", "b", "c", "d", "e", "f"}
  Vals = {0, 1, 2}
  MaxList = 7
INVARIANTS KeyUnique StepLaws
POSTCONDITION TraceAccepted
CHECK_DEADLOCK FALSE
