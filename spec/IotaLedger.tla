----------------------------- MODULE IotaLedger -----------------------------
(***************************************************************************)
(* Beyond the list: the ledger life of an IOTA DID document               *)
(* (identity_iota_core::IotaIdentityClientExt over a client that only      *)
(* answers get_alias_output / get_protocol_parameters).                    *)
(*                                                                         *)
(* A DID is an Alias Output.  The holder builds outputs with               *)
(* new_did_output / update_did_output / deactivate_did_output and          *)
(* PUBLISHES them (a step of the ledger, not of the library); anybody      *)
(* resolves with resolve_did.  The ledger assigns the alias id on first    *)
(* publication; the first output still carries the null id, every later    *)
(* one must carry the real id.                                             *)
(*                                                                         *)
(* State: per alias slot the output on the ledger (state index, the        *)
(* version of the document in its state metadata or "empty", whether its   *)
(* alias id field is set); the versions the holder has built but not yet   *)
(* published do not matter: Build and Publish are one step each and a      *)
(* built output that is never published changes nothing.                   *)
(*                                                                         *)
(* What users rely on:                                                     *)
(*   - resolve returns exactly the document of the last published output   *)
(*     (or the deactivated empty document), under the DID derived from the *)
(*     alias id, with the output's controller and governor addresses;      *)
(*   - the state index counts the published updates; an update never       *)
(*     changes the alias id, the unlock conditions or the deposit;         *)
(*   - a deactivated DID can be re-activated by a later update;            *)
(*   - a DID of another network, or one that was never published, does not *)
(*     resolve; updating or deactivating it fails and builds nothing.      *)
(***************************************************************************)
EXTENDS Naturals, Sequences, FiniteSets, TLC, Json

CONSTANTS Slots,        \* alias slots 1..n (slot k = the k-th alias id the ledger hands out)
          Versions,     \* document versions 1..m (version v = a document with v methods)
          Depth

VARIABLES ledger,       \* [Slots -> [pub: BOOLEAN, idx: Nat, meta: 0..m (0 = empty), idset: BOOLEAN]]
          last, steps
vars == <<ledger, last, steps>>

\* ctrl: who controls the output -- an Ed25519 address, or ANOTHER ALIAS (then resolve_did names that alias's DID as a controller
\* of the document, whatever the published document says)
Unpublished == [pub |-> FALSE, idx |-> 0, meta |-> 0, idset |-> FALSE, ctrl |-> "ed"]
Init == /\ ledger = [s \in Slots |-> Unpublished] /\ steps = 0
        /\ last = [op |-> [name |-> "init"], res |-> [ok |-> TRUE], post |-> [s \in Slots |-> Unpublished]]

NextFree == IF \E s \in Slots : ~ledger[s].pub THEN CHOOSE s \in Slots : ~ledger[s].pub /\ \A t \in Slots : (~ledger[t].pub => s <= t) ELSE 0

\* what resolve_did answers for a slot
Garbage == 99     \* state metadata that is not a DID document (the controller put something else there, outside the library)
Resolved(l, s) == IF ~l[s].pub \/ l[s].meta = Garbage THEN [ok |-> FALSE]
                  ELSE IF l[s].meta = 0 THEN [ok |-> TRUE, deactivated |-> TRUE, version |-> 0, idx |-> l[s].idx, alias_controller |-> l[s].ctrl = "alias"]
                  ELSE [ok |-> TRUE, deactivated |-> FALSE, version |-> l[s].meta, idx |-> l[s].idx, alias_controller |-> l[s].ctrl = "alias"]

Step(op, res, l2) == /\ ledger' = l2 /\ steps' = steps + 1
                     /\ last' = [op |-> op, res |-> res, post |-> l2]

\* new_did_output + publication: the document was built under the placeholder DID
Create(v, c) ==
  /\ NextFree # 0
  /\ LET s == NextFree IN
     Step([name |-> "create", v |-> v, ctrl |-> c], [ok |-> TRUE, slot |-> s],
          [ledger EXCEPT ![s] = [pub |-> TRUE, idx |-> 0, meta |-> v, idset |-> FALSE, ctrl |-> c]])

\* update_did_output(document with the slot's DID) + publication
Update(s, v) ==
  IF ledger[s].pub
  THEN Step([name |-> "update", slot |-> s, v |-> v], [ok |-> TRUE],
            [ledger EXCEPT ![s] = [pub |-> TRUE, idx |-> @.idx + 1, meta |-> v, idset |-> TRUE, ctrl |-> @.ctrl]])
  ELSE Step([name |-> "update", slot |-> s, v |-> v], [ok |-> FALSE], ledger)

Deactivate(s) ==
  IF ledger[s].pub
  THEN Step([name |-> "deactivate", slot |-> s], [ok |-> TRUE],
            [ledger EXCEPT ![s] = [pub |-> TRUE, idx |-> @.idx + 1, meta |-> 0, idset |-> TRUE, ctrl |-> @.ctrl]])
  ELSE Step([name |-> "deactivate", slot |-> s], [ok |-> FALSE], ledger)

\* an output that was built but never published changes nothing (the library builds, the ledger is not touched)
BuildOnly(s, v) ==
  Step([name |-> "build_only", slot |-> s, v |-> v], [ok |-> ledger[s].pub], ledger)

\* the controller writes something that is no DID document into the state metadata (a ledger step, not a library call)
Corrupt(s) ==
  /\ ledger[s].pub
  /\ Step([name |-> "corrupt", slot |-> s], [ok |-> TRUE],
          [ledger EXCEPT ![s] = [pub |-> TRUE, idx |-> @.idx + 1, meta |-> Garbage, idset |-> TRUE, ctrl |-> @.ctrl]])

\* IotaDocument::unpack_from_output(did, output, allow_empty = FALSE): an empty output is an error, not a deactivated document
UnpackStrict(s) ==
  /\ ledger[s].pub
  /\ Step([name |-> "unpack_strict", slot |-> s],
          IF ledger[s].meta \in Versions THEN [ok |-> TRUE, version |-> ledger[s].meta] ELSE [ok |-> FALSE], ledger)

Resolve(s, net) ==
  Step([name |-> "resolve", slot |-> s, net |-> net],
       IF net = "own" THEN Resolved(ledger, s) ELSE [ok |-> FALSE], ledger)

Next == /\ steps < Depth
        /\ \/ \E v \in Versions, c \in {"ed", "alias"} : Create(v, c)
           \/ \E s \in Slots, v \in Versions : Update(s, v) \/ BuildOnly(s, v)
           \/ \E s \in Slots : Deactivate(s) \/ Corrupt(s) \/ UnpackStrict(s)
           \/ \E s \in Slots, net \in {"own", "other"} : Resolve(s, net)
Spec == Init /\ [][Next]_vars

TypeOK == \A s \in Slots : ledger[s].meta \in {0, Garbage} \cup Versions /\ (ledger[s].idset => ledger[s].pub)
\* the state index counts published updates: it is 0 exactly as long as the first output stands
IndexCounts == \A s \in Slots : ledger[s].pub => (ledger[s].idset <=> ledger[s].idx > 0)
\* slots are handed out in order
NoGaps == \A s, t \in Slots : (s < t /\ ledger[t].pub) => ledger[s].pub
ResolveIsLastPublished ==
  [][(last'.op.name = "resolve" /\ last'.op.net = "own" /\ ledger[last'.op.slot].pub /\ ledger[last'.op.slot].meta # Garbage)
        => (last'.res.ok /\ last'.res.version = ledger[last'.op.slot].meta /\ last'.res.idx = ledger[last'.op.slot].idx)]_vars

View == <<ledger, steps>>
RowJ(l) == [s \in 1..Cardinality(Slots) |-> l[s]]
EmitT == PrintT(<<"CASE", ToJson([pre |-> RowJ(ledger), op |-> last'.op, res |-> last'.res, post |-> RowJ(last'.post)])>>)
=============================================================================
