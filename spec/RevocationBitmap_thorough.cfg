SPECIFICATION Spec
CONSTANTS
  Cls = {0, 1, 2, 3}
VIEW View
INVARIANTS TypeOK
PROPERTIES StepProp
ACTION_CONSTRAINT EmitT
CHECK_DEADLOCK FALSE
