SPECIFICATION Spec
CONSTANTS
  MaxKeys = 3
  Digests = {1, 2}
VIEW View
INVARIANTS TypeOK FreshIds
PROPERTIES StepProp
ACTION_CONSTRAINT EmitT
CHECK_DEADLOCK FALSE
