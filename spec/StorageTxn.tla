----------------------------- MODULE StorageTxn -----------------------------
(***************************************************************************)
(* C09.  JwkDocumentExt::generate_method / purge_method as a step machine  *)
(* with one action per storage call, explored under EVERY subset of        *)
(* failing storage calls.  A failing call has no effect and returns an     *)
(* error.                                                                  *)
(*                                                                         *)
(* Abstract state                                                          *)
(*   doc   where the target method id T lives: "absent" | "vm" | "emb"     *)
(*         (embedded in relationship embRel), plus the set `refs` of       *)
(*         relationships that hold a REFERENCE with T's id (dangling when  *)
(*         T is absent)                                                    *)
(*   keys  key ids alive in the key store      (subset of {"kT","kN"})     *)
(*   kids  method digests mapped in the key-id store (subset {"dT","dN"})  *)
(* kT/dT belong to the method that exists before the call, kN/dN to the    *)
(* method generate_method creates.                                         *)
(*                                                                         *)
(* Rollback = "reinsert" is the code before the repair (undo by            *)
(* insert_method / remove_method, which cannot restore relationship        *)
(* references and strips dangling ones); "snapshot" is the repaired code   *)
(* (the document is restored from a copy taken before the first change).   *)
(***************************************************************************)
EXTENDS Naturals, Sequences, FiniteSets, TLC, Json

CONSTANTS Rels,       \* relationship names
          Rollback    \* "reinsert" | "snapshot"

VARIABLES op,        \* [name, scope]      the call under test
          faults,    \* set of storage call names that fail
          pre,       \* snapshot of <<doc, keys, kids>> at the call
          doc, keys, kids,
          pc, result, calls, undoFailed, tmp
vars == <<op, faults, pre, doc, keys, kids, pc, result, calls, undoFailed, tmp>>

\* the storage calls the two operations make ...
GenCalls   == {"generate", "insert_key_id", "delete"}
PurgeCalls == {"get_key_id", "delete", "delete_key_id", "insert_key_id"}
\* ... and the whole trait surface: a fault armed on a call the operation never makes must change nothing (an
\* implementation that starts consulting e.g. `exists` on its undo path is then judged under that call failing, too)
AllCalls == {"generate", "insert", "sign", "delete", "exists", "insert_key_id", "get_key_id", "delete_key_id"}
CONSTANT FaultUniverse     \* "made" (quick): subsets of the calls the operation makes; "all" (thorough): subsets of AllCalls
FaultSets(made) == IF FaultUniverse = "all" THEN SUBSET AllCalls
                   ELSE {m \cup x : m \in SUBSET made, x \in {{}, {"exists"}, {"insert", "sign"}, AllCalls \ made}}

Docs == [t : {"absent"}, embRel : {"none"}, refs : SUBSET Rels]
        \cup [t : {"vm"}, embRel : {"none"}, refs : SUBSET Rels]
        \cup [t : {"emb"}, embRel : Rels, refs : {{}}]

Fails(c) == c \in faults
Log(c) == calls' = Append(calls, [name |-> c, failed |-> Fails(c)])

\* CoreDocument::insert_method for id T (after the C04 repair): refused when a method with T's id exists, or when
\* embedding would alias an existing reference
CanInsert(d, scope) == d.t = "absent" /\ (scope = "vm" \/ d.refs = {})
Inserted(d, scope) == IF scope = "vm" THEN [d EXCEPT !.t = "vm"] ELSE [d EXCEPT !.t = "emb", !.embRel = scope]
\* remove_method: the method AND every reference with its id
Removed(d) == [t |-> "absent", embRel |-> "none", refs |-> {}]
\* re-insertion used by the unrepaired rollback: the method comes back in its scope, references do not
Reinserted(scope) == IF scope = "vm" THEN [t |-> "vm", embRel |-> "none", refs |-> {}]
                     ELSE [t |-> "emb", embRel |-> scope, refs |-> {}]
ScopeOf(d) == IF d.t = "vm" THEN "vm" ELSE d.embRel

Restore(d) == IF Rollback = "snapshot" THEN pre.doc ELSE d

Finish(r) == pc' = "done" /\ result' = r

Init ==
  /\ \/ /\ op \in [name : {"generate"}, scope : {"vm"} \cup Rels, form : {"exact"}]
        /\ faults \in FaultSets(GenCalls)
        /\ doc \in Docs
        /\ keys = (IF doc.t = "absent" THEN {} ELSE {"kT"}) /\ kids = (IF doc.t = "absent" THEN {} ELSE {"dT"})
     \/ /\ op \in [name : {"purge"}, scope : {"none"}, form : {"exact", "query"}]
        /\ faults \in FaultSets(PurgeCalls)
        /\ doc \in Docs
        /\ keys = (IF doc.t = "absent" THEN {} ELSE {"kT"}) /\ kids = (IF doc.t = "absent" THEN {} ELSE {"dT"})
  /\ pre = [doc |-> doc, keys |-> keys, kids |-> kids]
  /\ pc = (IF op.name = "generate" THEN "g_generate" ELSE "p_remove")
  /\ result = "none" /\ calls = <<>> /\ undoFailed = FALSE /\ tmp = "none"

-----------------------------------------------------------------------------
(* generate_method *)

G_Generate ==
  /\ pc = "g_generate" /\ Log("generate")
  /\ IF Fails("generate")
     THEN Finish("err") /\ UNCHANGED <<doc, keys, kids, undoFailed, tmp>>
     ELSE keys' = keys \cup {"kN"} /\ pc' = "g_insert_method" /\ UNCHANGED <<doc, kids, result, undoFailed, tmp>>
  /\ UNCHANGED <<op, faults, pre>>

G_InsertMethod ==
  /\ pc = "g_insert_method"
  /\ IF CanInsert(doc, op.scope)
     THEN doc' = Inserted(doc, op.scope) /\ pc' = "g_insert_key_id"
     ELSE doc' = doc /\ pc' = "g_undo"          \* FragmentAlreadyExists -> try_undo_key_generation
  /\ UNCHANGED <<op, faults, pre, keys, kids, result, calls, undoFailed, tmp>>

G_InsertKeyId ==
  /\ pc = "g_insert_key_id" /\ Log("insert_key_id")
  /\ IF Fails("insert_key_id")
     THEN /\ doc' = (IF Rollback = "snapshot" THEN pre.doc ELSE Removed(doc))   \* remove_method also strips references
          /\ pc' = "g_undo" /\ UNCHANGED <<kids, result>>
     ELSE kids' = kids \cup {"dN"} /\ Finish("ok") /\ UNCHANGED doc
  /\ UNCHANGED <<op, faults, pre, keys, undoFailed, tmp>>

G_Undo ==        \* try_undo_key_generation: delete the generated key
  /\ pc = "g_undo" /\ Log("delete")
  /\ IF Fails("delete")
     THEN undoFailed' = TRUE /\ Finish("undo_failed") /\ UNCHANGED keys
     ELSE keys' = keys \ {"kN"} /\ Finish("err") /\ UNCHANGED undoFailed
  /\ UNCHANGED <<op, faults, pre, doc, kids, tmp>>

-----------------------------------------------------------------------------
(* purge_method *)

P_Remove ==      \* remove_method_and_scope
  /\ pc = "p_remove"
  \* form = "query": the caller's id carries a URL query ("did:..?versionId=1#frag"). Methods are removed by FULL DID URL
  \* equality (resolution alone would match on DID + fragment), so such an id names no method of the document.
  /\ IF doc.t = "absent" \/ op.form = "query"
     THEN /\ doc' = (IF op.form = "query" THEN doc ELSE Restore(Removed(doc)))   \* MethodNotFound; dangling references were already stripped
          /\ Finish("err") /\ UNCHANGED tmp
     ELSE tmp' = ScopeOf(doc) /\ doc' = Removed(doc) /\ pc' = "p_get_key_id" /\ UNCHANGED result
  /\ UNCHANGED <<op, faults, pre, keys, kids, calls, undoFailed>>

P_GetKeyId ==
  /\ pc = "p_get_key_id" /\ Log("get_key_id")
  /\ IF Fails("get_key_id") \/ "dT" \notin kids
     THEN doc' = (IF Rollback = "snapshot" THEN pre.doc ELSE Reinserted(tmp)) /\ Finish("err")
     ELSE pc' = "p_delete" /\ UNCHANGED <<doc, result>>
  /\ UNCHANGED <<op, faults, pre, keys, kids, undoFailed, tmp>>

\* futures::join!(delete, delete_key_id): both are polled to completion; they touch different stores
P_Delete ==
  /\ pc = "p_delete" /\ Log("delete")
  /\ keys' = (IF Fails("delete") THEN keys ELSE keys \ {"kT"})
  /\ pc' = "p_delete_key_id"
  /\ UNCHANGED <<op, faults, pre, doc, kids, result, undoFailed, tmp>>

P_DeleteKeyId ==
  /\ pc = "p_delete_key_id" /\ Log("delete_key_id")
  /\ kids' = (IF Fails("delete_key_id") THEN kids ELSE kids \ {"dT"})
  /\ LET kOk == ~Fails("delete")  iOk == ~Fails("delete_key_id") IN
     CASE kOk /\ iOk   -> Finish("ok") /\ UNCHANGED <<doc, undoFailed>>
       [] kOk /\ ~iOk  -> undoFailed' = TRUE /\ Finish("undo_failed") /\ UNCHANGED doc   \* stray key id, reported
       [] ~kOk /\ iOk  -> pc' = "p_reinsert_key_id" /\ UNCHANGED <<doc, result, undoFailed>>
       [] ~kOk /\ ~iOk -> doc' = (IF Rollback = "snapshot" THEN pre.doc ELSE Reinserted(tmp)) /\ Finish("err") /\ UNCHANGED undoFailed
  /\ UNCHANGED <<op, faults, pre, keys, tmp>>

P_ReinsertKeyId ==
  /\ pc = "p_reinsert_key_id" /\ Log("insert_key_id")
  /\ IF Fails("insert_key_id")
     THEN undoFailed' = TRUE /\ Finish("undo_failed") /\ UNCHANGED <<doc, kids>>
     ELSE /\ kids' = kids \cup {"dT"}
          /\ doc' = (IF Rollback = "snapshot" THEN pre.doc ELSE Reinserted(tmp))
          /\ Finish("err") /\ UNCHANGED undoFailed
  /\ UNCHANGED <<op, faults, pre, keys, tmp>>

Next == G_Generate \/ G_InsertMethod \/ G_InsertKeyId \/ G_Undo
        \/ P_Remove \/ P_GetKeyId \/ P_Delete \/ P_DeleteKeyId \/ P_ReinsertKeyId

Spec == Init /\ [][Next]_vars

-----------------------------------------------------------------------------
(* The property, evaluated when the call returns *)

Done == pc = "done"
Unchanged == doc = pre.doc /\ keys = pre.keys /\ kids = pre.kids

\* completed: document, key store and key-id store updated together
GenerateEffect == /\ doc = Inserted(pre.doc, op.scope) /\ keys = pre.keys \cup {"kN"} /\ kids = pre.kids \cup {"dN"}
PurgeEffect    == /\ op.form = "exact" /\ doc = Removed(pre.doc) /\ keys = pre.keys \ {"kT"} /\ kids = pre.kids \ {"dT"}

AllOrNothing ==
  Done => /\ result = "ok"  => (IF op.name = "generate" THEN GenerateEffect ELSE PurgeEffect)
          /\ result = "err" => Unchanged
          \* the only exception: an error that explicitly reports a failed undo step -- and only if one really failed
          /\ result = "undo_failed" => undoFailed
NoSilentOrphan ==
  Done /\ result # "undo_failed" =>
     /\ ("kN" \in keys) = ("dN" \in kids)                     \* no orphaned generated key or key id
     /\ ("kN" \in keys) => doc.t # "absent"                    \* ... and the method it belongs to is in the document
     /\ (doc.t # "absent" /\ pre.doc.t # "absent") => ("kT" \in keys /\ "dT" \in kids)   \* a kept method keeps a usable key
RelationshipRefsKept ==
  Done /\ result = "err" => doc.refs = pre.doc.refs
TypeOK == doc \in Docs /\ keys \subseteq {"kT", "kN"} /\ kids \subseteq {"dT", "dN"}

\* one line per complete behaviour for direction R: the harness replays the same fault pattern on the real code
RECURSIVE SetToSeq(_)
SetToSeq(S) == IF S = {} THEN <<>> ELSE LET x == CHOOSE x \in S : TRUE IN <<x>> \o SetToSeq(S \ {x})
DocJ(d) == [t |-> d.t, embRel |-> d.embRel, refs |-> SetToSeq(d.refs)]
Emit == ~Done \/ PrintT(<<"CASE", ToJson([op |-> op, faults |-> SetToSeq(faults),
                                          pre |-> [doc |-> DocJ(pre.doc), keys |-> SetToSeq(pre.keys), kids |-> SetToSeq(pre.kids)],
                                          result |-> result, calls |-> calls,
                                          post |-> [doc |-> DocJ(doc), keys |-> SetToSeq(keys), kids |-> SetToSeq(kids)]])>>)
=============================================================================
