---------------------------- MODULE MCKeyIdStore ----------------------------
EXTENDS KeyIdStore
PlansQ == {<<"insert">>, <<"insert", "get">>, <<"delete", "insert">>, <<"get", "insert">>, <<"insert", "insert">>}
=============================================================================
