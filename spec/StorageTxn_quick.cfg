SPECIFICATION Spec
CONSTANTS
  FaultUniverse = "made"
  Rels = {"r1", "r2"}
  Rollback = "snapshot"
INVARIANTS TypeOK AllOrNothing NoSilentOrphan RelationshipRefsKept Emit
CHECK_DEADLOCK FALSE
