SPECIFICATION Spec
CONSTANTS
  Methods = {"ma", "mb", "mc"}
  Dids <- DidsQ
  MaxInput = 4
INVARIANTS DispatchByMethod NoCallForUnsupported OrderIndependent OneEntryPerDistinct Emit
CHECK_DEADLOCK FALSE
