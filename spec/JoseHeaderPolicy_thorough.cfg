SPECIFICATION Spec
INVARIANTS AcceptedShape Emit
CHECK_DEADLOCK FALSE
