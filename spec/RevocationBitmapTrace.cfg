SPECIFICATION TraceSpec
CONSTANTS
  Cls = {}
PROPERTIES TraceStepProp
POSTCONDITION TraceAccepted
CHECK_DEADLOCK FALSE
