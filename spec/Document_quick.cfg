SPECIFICATION Spec
CONSTANTS
  Ids <- Ids3
  RelOrder <- Rel2
  MaxLoad = 2
  MaxInit = 1
  SampleT = 1
  SampleS = 1
  GuardDangling = TRUE
VIEW View
INVARIANTS DocValid P_NoDupMethodId P_NoRefAliasesEmbedded P_NoServiceIdIsMethodId EmitS
PROPERTIES RefusalProp
ACTION_CONSTRAINT EmitT
CHECK_DEADLOCK FALSE
