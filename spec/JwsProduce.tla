------------------------------ MODULE JwsProduce ------------------------------
(***************************************************************************)
(* C08.  Producing a JWS and reading it back.                              *)
(*                                                                         *)
(* Part A -- the three encoders.  The general encoder is the typestate     *)
(* machine it is: New -> (SetSignature -> AddRecipient)* -> IntoJws; the   *)
(* compact and flattened encoders are the one-recipient special case.      *)
(* A configuration fixes the payload CLASS, detached flag, charset rule    *)
(* and the b64 choice of each recipient.  The machine predicts which step  *)
(* refuses; a produced token must decode to what was signed.               *)
(*                                                                         *)
(* Part B -- storage-backed signing (create_jws) with every combination of *)
(* JwsSignatureOptions for one of three methods of a document, followed by *)
(* verification attempts that vary the method id, the nonce and the scope. *)
(***************************************************************************)
EXTENDS Naturals, Sequences, FiniteSets, TLC, Json

VARIABLES cfg, pc, done, produced
vars == <<cfg, pc, done, produced>>

PayloadClasses == {"urlsafe", "ascii", "dot", "quote", "control", "nonutf8", "long"}
B64 == {"absent", "true", "false"}
IsUnencoded(b) == b = "false"

\* RFC 7797: an unencoded payload in the compact serialization must not contain '.' and is restricted to the
\* application's character set; in the JSON serializations it must be a string (UTF-8).
Utf8(c) == c # "nonutf8"
CompactCharsetOk(c, charset) ==
  IF charset = "UrlSafe" THEN c \in {"urlsafe", "long"}
  ELSE c \in {"urlsafe", "ascii", "quote", "long"}          \* Default: printable ASCII without '.'

EncCfg == [part : {"A"}, kind : {"compact", "flattened", "general"}, payload : PayloadClasses, detached : BOOLEAN,
           charset : {"Default", "UrlSafe"}, recips : UNION {[1..n -> B64] : n \in 1..3}, unprot : BOOLEAN]
ShapedA(c) == /\ (c.kind # "general" => Len(c.recips) = 1)
              /\ (c.kind = "compact" => ~c.unprot)
              /\ (c.kind # "compact" => c.charset = "Default")

\* ---- Part B ----
Methods == {"m_vm_auth", "m_embedded_assertion", "m_vm_plain"}
\* a custom header parameter named like a header member the call sets itself (always: alg, kid, typ; by option: the others)
CollidingNames == {"kid", "alg", "typ", "nonce", "url", "cty", "jwk", "b64", "crit"}
IsSet(c, name) == CASE name \in {"kid", "alg", "typ"} -> TRUE
                    [] name = "nonce" -> c.nonce [] name = "url" -> c.url [] name = "cty" -> c.cty
                    [] name = "jwk" -> c.attach_jwk [] name \in {"b64", "crit"} -> c.b64 = "false"
                    [] OTHER -> FALSE
ScopeOfMethod(m) == CASE m = "m_vm_auth" -> {"vm", "authentication"} [] m = "m_embedded_assertion" -> {"assertionMethod"} [] m = "m_vm_plain" -> {"vm"}
SignCfg == [part : {"B"}, signer : Methods, kid_override : BOOLEAN, attach_jwk : BOOLEAN, b64 : {"none", "true", "false"},
            typ : BOOLEAN, cty : BOOLEAN, url : BOOLEAN, nonce : BOOLEAN, custom : {"none", "x-custom"} \cup CollidingNames, detached : BOOLEAN,
            payload : {"ascii", "dot", "nonutf8"}]
Attempts == [method_id : {"none", "signer", "other"}, nonce : {"same", "different", "none"},
             scope : {"none", "vm", "authentication", "assertionMethod", "unused_rel"}]   \* unused_rel: a relationship holding no method

\* create_jws encodes compactly with the Default charset rule
\* a custom header parameter named like a registered one ("kid") cannot be honoured: the header would carry the
\* member twice, which no JWS reader accepts -- the call has to refuse
CreateOk(c) == /\ ((c.b64 = "false" /\ ~c.detached) => CompactCharsetOk(c.payload, "Default"))
               /\ c.custom \notin CollidingNames
\* which method does the verifier look at?  the configured method id, else the kid of the header
Resolved(c, a) == IF a.method_id = "signer" THEN c.signer
                  ELSE IF a.method_id = "other" THEN "other"
                  ELSE IF c.kid_override THEN "unresolvable" ELSE c.signer
NonceMatches(c, a) == IF c.nonce THEN a.nonce = "same" ELSE a.nonce = "none"
InScope(m, sc) == sc = "none" \/ (m \in Methods /\ sc \in ScopeOfMethod(m))
\* "other" is the method m_vm_plain when the signer is another one, else m_vm_auth (both general purpose)
OtherOf(c) == IF c.signer = "m_vm_plain" THEN "m_vm_auth" ELSE "m_vm_plain"
VerifyOk(c, a) ==
  LET m == Resolved(c, a) IN
  /\ m = c.signer /\ NonceMatches(c, a) /\ InScope(m, a.scope)

-----------------------------------------------------------------------------
ShapedB(c) == c.custom \in CollidingNames => IsSet(c, c.custom)
Init == /\ cfg \in {c \in EncCfg : ShapedA(c)} \cup {c \in SignCfg : ShapedB(c)}
        /\ pc = (IF cfg.part = "A" THEN "new" ELSE "create")
        /\ done = 0 /\ produced = "no"

\* ---- Part A actions ----
FirstB64 == cfg.recips[1]
New ==
  /\ pc = "new"
  /\ LET unenc == IsUnencoded(FirstB64) IN
     IF cfg.kind = "compact" /\ unenc /\ ~cfg.detached /\ ~CompactCharsetOk(cfg.payload, cfg.charset) THEN pc' = "refused_new"
     ELSE IF cfg.kind = "flattened" /\ unenc /\ ~cfg.detached /\ ~Utf8(cfg.payload) THEN pc' = "refused_new"
     ELSE pc' = "processing"
  /\ UNCHANGED <<cfg, done, produced>>

SetSignature ==
  /\ pc = "processing"
  /\ done' = done + 1
  /\ pc' = IF done + 1 = Len(cfg.recips) THEN "ready_last" ELSE "ready"
  /\ UNCHANGED <<cfg, produced>>

AddRecipient ==
  /\ pc = "ready"
  /\ LET nb == cfg.recips[done + 1] IN
     \* recipients of one token must agree on the EFFECTIVE b64 value (absent = true)
     IF IsUnencoded(nb) # IsUnencoded(FirstB64) THEN pc' = "refused_add" ELSE pc' = "processing"
  /\ UNCHANGED <<cfg, done, produced>>

IntoJws ==
  /\ pc = "ready_last"
  /\ IF cfg.kind = "general" /\ IsUnencoded(FirstB64) /\ ~cfg.detached /\ ~Utf8(cfg.payload)
     THEN pc' = "refused_into" /\ UNCHANGED produced
     ELSE pc' = "produced" /\ produced' = "yes"
  /\ UNCHANGED <<cfg, done>>

\* ---- Part B ----
Create ==
  /\ pc = "create"
  /\ IF CreateOk(cfg) THEN pc' = "produced" /\ produced' = "yes" ELSE pc' = "refused_new" /\ UNCHANGED produced
  /\ UNCHANGED <<cfg, done>>

Next == New \/ SetSignature \/ AddRecipient \/ IntoJws \/ Create
Spec == Init /\ [][Next]_vars

-----------------------------------------------------------------------------
Final == pc \in {"produced", "refused_new", "refused_add", "refused_into"}
\* a token is only ever produced with all of its recipients signed and agreeing on b64
ProducedComplete == (pc = "produced" /\ cfg.part = "A") =>
                      /\ done = Len(cfg.recips)
                      /\ \A i \in 1..Len(cfg.recips) : IsUnencoded(cfg.recips[i]) = IsUnencoded(FirstB64)
\* a token of one method verifies only as that method, with its nonce, inside its scopes
NeverUnderAnother == \A a \in Attempts : (cfg.part = "B" /\ VerifyOk(cfg, a)) => (Resolved(cfg, a) = cfg.signer /\ NonceMatches(cfg, a))

AttemptRows == [a \in Attempts |-> VerifyOk(cfg, a)]
RECURSIVE SetToSeq(_)
SetToSeq(S) == IF S = {} THEN <<>> ELSE LET x == CHOOSE x \in S : TRUE IN <<x>> \o SetToSeq(S \ {x})
Emit == ~Final \/ PrintT(<<"CASE", ToJson([cfg |-> cfg, outcome |-> pc,
          attempts |-> IF cfg.part = "B" /\ pc = "produced"
                       THEN SetToSeq({[a |-> a, ok |-> VerifyOk(cfg, a)] : a \in Attempts}) ELSE <<>>])>>)
=============================================================================
