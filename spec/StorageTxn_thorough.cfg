SPECIFICATION Spec
CONSTANTS
  FaultUniverse = "all"
  Rels = {"r1", "r2", "r3"}
  Rollback = "snapshot"
INVARIANTS TypeOK AllOrNothing NoSilentOrphan RelationshipRefsKept Emit
CHECK_DEADLOCK FALSE
