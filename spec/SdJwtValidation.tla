--------------------------- MODULE SdJwtValidation ---------------------------
(***************************************************************************)
(* C16.  SdJwtCredentialValidator: a selectively disclosable credential    *)
(* and its key-binding JWT are accepted only when fully bound.             *)
(* Two decision tables: the credential (issuer signature rules as for a    *)
(* plain JWT credential, disclosure handling, date/status checks of the    *)
(* reconstructed credential) and the key-binding JWT.                      *)
(***************************************************************************)
EXTENDS Integers, Sequences, FiniteSets, TLC, Json

VARIABLES row, out
vars == <<row, out>>

\* ------------------------------ credential ------------------------------
Disclosures == {"all", "subset", "none", "reordered", "forged_extra", "for_other_token", "duplicated"}
CRows == [part : {"cred"},
          signed_with : {"issuer_key", "other_key"},
          kid : {"full", "fragment", "missing_method"},
          nonce_hdr : {"absent", "a"}, nonce_opt : {"absent", "a", "b"},
          issuer_claim : {"issuer", "stranger"},
          disclosures : Disclosures,
          \* registered claims the issuer concealed as well (disclosed together with the others, except for "none")
          concealed : {"nothing", "iss", "exp", "iss_exp"},
          expiry : {"-1", "1"}, status : {"none", "revoked"}, fail_fast : {"FirstError", "AllErrors"}]

\* every supplied disclosure must hash to a digest present in the signed claims
DisclosuresOk(d) == d \in {"all", "subset", "none", "reordered"}
\* a disclosure supplied twice still hashes to a present digest: the property allows refusing or accepting it
DisclosuresEither(d) == d = "duplicated"

\* the checks are made on the RECONSTRUCTED credential: a concealed claim counts exactly when it is disclosed
IssConcealed(r) == r.concealed \in {"iss", "iss_exp"}
ExpConcealed(r) == r.concealed \in {"exp", "iss_exp"}
IssVisible(r) == ~IssConcealed(r) \/ r.disclosures # "none"          \* a credential without an issuer cannot be reconstructed
ExpVisible(r) == ~ExpConcealed(r) \/ r.disclosures # "none"          \* an undisclosed expiry is no expiry
CredSigOk(r) == r.signed_with = "issuer_key" /\ r.kid = "full" /\ r.nonce_hdr = r.nonce_opt /\ IssVisible(r) /\ r.issuer_claim = "issuer"
CredUnitOk(r) == (ExpVisible(r) => r.expiry = "1") /\ r.status = "none"
CredVerdict(r) ==
  IF ~CredSigOk(r) \/ ~CredUnitOk(r) THEN "reject"
  ELSE IF DisclosuresOk(r.disclosures) THEN "accept"
  ELSE IF DisclosuresEither(r.disclosures) THEN "either" ELSE "reject"

\* ------------------------------ key-binding JWT ------------------------------
KRows == [part : {"kb"},
          kb : {"present", "absent"},
          typ : {"kb+jwt", "JWT", "absent"},
          kid : {"full", "fragment", "missing_method", "absent"},
          method_id : {"none", "holder_key"},
          signed_by : {"holder_key", "other_key_of_holder", "foreign_key"},
          sd_hash : {"right", "over_other_disclosures", "wrong", "empty", "prefix_of_right", "right_plus_suffix"},
          nonce : {"none", "same", "different"}, aud : {"none", "same", "different"},
          \* issuance instant of the key-binding JWT and which bounds the verifier configured; without an upper bound the
          \* current time is the upper bound (long_past / far_future are decades away from any run of this check)
          iat : {"long_past", "before_earliest", "at_earliest", "inside", "at_latest", "after_latest", "far_future"},
          window : {"both", "earliest_only", "latest_only", "none"}]
\* a missing key-binding JWT is one row
ShapedK(r) == (r.kb = "absent" => (r.typ = "kb+jwt" /\ r.kid = "full" /\ r.method_id = "none" /\ r.signed_by = "holder_key"
                                   /\ r.sd_hash = "right" /\ r.nonce = "none" /\ r.aud = "none" /\ r.iat = "inside" /\ r.window = "both"))
              \* the iat x window table is explored in full for fully bound tokens; other rows keep iat inside a full window
              /\ ((r.iat # "inside" \/ r.window # "both") =>
                     (r.typ = "kb+jwt" /\ r.kid = "full" /\ r.method_id = "none" /\ r.signed_by = "holder_key" /\ r.sd_hash = "right"
                      /\ r.nonce # "different" /\ r.aud # "different"))

AfterEarliest(i) == i \in {"at_earliest", "inside", "at_latest", "after_latest", "far_future"}
BeforeLatest(i)  == i \in {"long_past", "before_earliest", "at_earliest", "inside", "at_latest"}
NotInFuture(i)   == i # "far_future"
IatOk(r) == /\ (r.window \in {"both", "earliest_only"} => AfterEarliest(r.iat))
            /\ (r.window \in {"both", "latest_only"} => BeforeLatest(r.iat))
            /\ (r.window \in {"earliest_only", "none"} => NotInFuture(r.iat))

KeyResolves(r) == r.method_id = "holder_key" \/ r.kid = "full"
KbAccept(r) ==
  /\ r.kb = "present" /\ r.typ = "kb+jwt"
  /\ KeyResolves(r) /\ r.signed_by = "holder_key"
  /\ r.sd_hash = "right"
  /\ r.nonce # "different" /\ r.aud # "different"
  /\ IatOk(r)

Evaluate(r) == IF r.part = "cred" THEN [verdict |-> CredVerdict(r)]
               ELSE [verdict |-> IF KbAccept(r) THEN "accept" ELSE "reject"]

Init == row \in CRows \cup {r \in KRows : ShapedK(r)} /\ out = Evaluate(row)
Next == UNCHANGED vars
Spec == Init /\ [][Next]_vars

FullyBound == (row.part = "kb" /\ out.verdict = "accept") =>
                 (row.signed_by = "holder_key" /\ row.sd_hash = "right" /\ row.typ = "kb+jwt")
Emit == PrintT(<<"CASE", ToJson([row |-> row, out |-> out])>>)
=============================================================================
