SPECIFICATION Spec
CONSTANTS
  Methods = {"iota", "IOTA", "iotb", "iot", "example"}
  NetSeqs <- NetQ
  TagLens = {0, 63, 64, 65}
  TagHex = {"lower", "upper", "mixed", "nonhex", "zeros"}
  TagPfx = {"0x", "0X", "none", "0x0x", "0x0X"}
  Suffixes = {"none", "/p", "?q", "#f", "#", "?", "?#", "/"}
  Entries = {"parse", "core", "serde"}
  Pairs = 1
INVARIANTS CanonIsLower Emit
CHECK_DEADLOCK FALSE
