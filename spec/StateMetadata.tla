----------------------------- MODULE StateMetadata -----------------------------
(***************************************************************************)
(* C14.  Packing an IOTA DID document into alias-output state metadata and *)
(* unpacking it for the same or for a different DID.                       *)
(*                                                                         *)
(* DIDs are tags: "self" (the document's own DID), "fa", "fb" (foreign     *)
(* DIDs), "ph" (the reserved placeholder, never present in a document to   *)
(* be packed) and the unpack target "t".  A document is a record of the    *)
(* DID tags found at each kind of position.  The machine is                *)
(* Pack -> (mutate the frame) -> Unpack.                                   *)
(***************************************************************************)
EXTENDS Naturals, Sequences, FiniteSets, TLC, Json

VARIABLES doc, target, frame, pc, result
vars == <<doc, target, frame, pc, result>>

\* positions that hold a DID; each is a set of tags (for methods: pairs <<id did, controller did>>)
Docs == [ctrl : SUBSET {"self", "fa"},
         methods : SUBSET {<<"self", "self">>, <<"self", "fa">>, <<"fa", "fa">>, <<"fa", "self">>},
         embedded : SUBSET {<<"self", "self">>},
         refs : SUBSET {"self", "fb"},          \* DID of method references held in relationships
         services : SUBSET {"self", "fa"},
         aka : BOOLEAN, custom : BOOLEAN]
\* a reference to an own method needs that method
WellFormedDoc(d) == ("self" \in d.refs => <<"self", "self">> \in d.methods)

Sub(tag, from, to) == IF tag = from THEN to ELSE tag
SubPair(p, from, to) == <<Sub(p[1], from, to), Sub(p[2], from, to)>>
Rebase(d, from, to) ==
  [d EXCEPT !.ctrl = {Sub(x, from, to) : x \in d.ctrl},
            !.methods = {SubPair(p, from, to) : p \in d.methods},
            !.embedded = {SubPair(p, from, to) : p \in d.embedded},
            !.refs = {Sub(x, from, to) : x \in d.refs},
            !.services = {Sub(x, from, to) : x \in d.services}]

Frames == {"intact", "trailing_garbage", "marker0", "marker1", "marker2", "version0", "version2", "version255",
           "encoding1", "encoding255", "len_plus_1", "len_plus_1000", "len_minus_1", "len_zero",
           "truncated_3", "truncated_6", "truncated_body", "empty"}
FrameAccepts(f) == f \in {"intact", "trailing_garbage"}          \* bytes beyond the prefixed length are ignored

Init == /\ doc \in {d \in Docs : WellFormedDoc(d)} /\ target \in {"self", "t"} /\ frame \in Frames
        \* frame mutations are exercised on every document only for the intact frame; mutated frames on a slice
        /\ (frame \notin {"intact", "trailing_garbage"} => (doc.aka /\ doc.custom /\ target = "self"))
        /\ pc = "pack" /\ result = [ok |-> FALSE]

Pack == /\ pc = "pack" /\ pc' = "unpack"
        /\ result' = [ok |-> TRUE, packed |-> Rebase(doc, "self", "ph")]     \* self-references become the placeholder
        /\ UNCHANGED <<doc, target, frame>>

Unpack == /\ pc = "unpack" /\ pc' = "done"
          /\ IF FrameAccepts(frame)
             THEN result' = [ok |-> TRUE, doc |-> Rebase(result.packed, "ph", target)]
             ELSE result' = [ok |-> FALSE]
          /\ UNCHANGED <<doc, target, frame>>

Next == Pack \/ Unpack
Spec == Init /\ [][Next]_vars

-----------------------------------------------------------------------------
Done == pc = "done"
\* unpacking for the same DID gives the document back
RoundTrip == (Done /\ result.ok /\ target = "self") => result.doc = doc
\* unpacking for another DID rewrites exactly the self-references
RewritesOnlySelf == (Done /\ result.ok) => result.doc = Rebase(doc, "self", target)
ForeignUntouched == (Done /\ result.ok) =>
   /\ ("fa" \in doc.ctrl) = ("fa" \in result.doc.ctrl)
   /\ ("fb" \in doc.refs) = ("fb" \in result.doc.refs)
   /\ (<<"fa", "fa">> \in doc.methods) = (<<"fa", "fa">> \in result.doc.methods)
   /\ ("fa" \in doc.services) = ("fa" \in result.doc.services)
NoPlaceholderLeft == (Done /\ result.ok) =>
   /\ "ph" \notin result.doc.ctrl \cup result.doc.refs \cup result.doc.services
   /\ \A p \in result.doc.methods \cup result.doc.embedded : p[1] # "ph" /\ p[2] # "ph"

RECURSIVE SetToSeq(_)
SetToSeq(S) == IF S = {} THEN <<>> ELSE LET x == CHOOSE x \in S : TRUE IN <<x>> \o SetToSeq(S \ {x})
DocJ(d) == [ctrl |-> SetToSeq(d.ctrl), methods |-> SetToSeq(d.methods), embedded |-> SetToSeq(d.embedded),
            refs |-> SetToSeq(d.refs), services |-> SetToSeq(d.services), aka |-> d.aka, custom |-> d.custom]
Emit == ~Done \/ PrintT(<<"CASE", ToJson([doc |-> DocJ(doc), target |-> target, frame |-> frame, ok |-> result.ok,
                                          expect |-> IF result.ok THEN DocJ(result.doc) ELSE DocJ(doc)])>>)
=============================================================================
