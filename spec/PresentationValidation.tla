------------------------ MODULE PresentationValidation ------------------------
(***************************************************************************)
(* C03.  JwtPresentationValidator::validate binds the token to the holder  *)
(* document.  Holder document of the harness (did:example:holder):         *)
(*   #key-1 = K1  verificationMethod + authentication                      *)
(*   #key-2 = K2  verificationMethod + assertionMethod                     *)
(*   did:example:other#key-f = K3, a FOREIGN-DID method embedded in        *)
(*                 capabilityInvocation of the holder document             *)
(* Two row families: the signature/binding part with all claim conditions  *)
(* true, and the claims part with the binding part true.                   *)
(***************************************************************************)
EXTENDS Integers, Sequences, FiniteSets, TLC, Json

VARIABLES row, out
vars == <<row, out>>

Queries == {"holder#key-1", "#key-1", "key-1", "holder#key-2", "other#key-f", "#key-f", "holder#missing", "other#key-1"}
KeyOfQuery(q) ==
  CASE q \in {"holder#key-1", "#key-1", "key-1"} -> "K1"
    [] q = "holder#key-2" -> "K2"
    [] q \in {"other#key-f", "#key-f"} -> "K3"
    [] OTHER -> "none"              \* holder#missing; other#key-1: the DID of a query must match the method's DID
ScopesOfKey(k) == CASE k = "K1" -> {"vm", "authentication"} [] k = "K2" -> {"vm", "assertionMethod"}
                    [] k = "K3" -> {"capabilityInvocation"} [] OTHER -> {}

SRows == [part : {"S"}, kid : Queries \cup {"absent"}, method_id : {"none", "holder#key-1", "holder#key-2", "other#key-f"},
          signed_with : {"K1", "K2", "K3"}, scope : {"none", "authentication", "assertionMethod", "capabilityInvocation"},
          nonce_hdr : {"absent", "a", "b"}, nonce_opt : {"absent", "a", "b"},
          iss : {"holder", "other", "not_a_did"}]

SAccept(r) ==
  LET q == IF r.method_id # "none" THEN r.method_id ELSE r.kid
      k == IF q = "absent" THEN "none" ELSE KeyOfQuery(q) IN
  /\ r.nonce_hdr = r.nonce_opt
  /\ k # "none" /\ (r.scope = "none" \/ r.scope \in ScopesOfKey(k))
  /\ k = r.signed_with
  /\ r.iss = "holder"                    \* the issuer claim is a DID equal to the document's id

IssModes == {[mode |-> "none"], [mode |-> "out_of_range"]} \cup [mode : {"nbf", "iat", "both"}, v : {-1, 0, 1}]
URows == [part : {"U"}, exp : {"absent", "-1", "0", "1", "out_of_range"}, issuance : IssModes,
          vp_holder : {"absent", "equal", "different"}, vp_id : {"absent", "equal", "different", "present_without_jti"}]

\* for "both", nbf carries v and iat carries -v: nbf decides
UAccept(r) ==
  /\ r.exp \in {"absent", "0", "1"}                      \* not before the earliest-expiry bound
  /\ (r.issuance.mode = "none" \/ (r.issuance.mode \in {"nbf", "iat", "both"} /\ r.issuance.v <= 0))
  /\ r.vp_holder # "different"
  /\ r.vp_id \in {"absent", "equal"}

Evaluate(r) == IF r.part = "S" THEN [accept |-> SAccept(r)] ELSE [accept |-> UAccept(r)]

Init == row \in SRows \cup URows /\ out = Evaluate(row)
Next == UNCHANGED vars
Spec == Init /\ [][Next]_vars

Bound == (row.part = "S" /\ out.accept) => (row.iss = "holder" /\ row.nonce_hdr = row.nonce_opt)
Emit == PrintT(<<"CASE", ToJson([row |-> row, out |-> out])>>)
=============================================================================
