------------------------ MODULE PresentationValidation ------------------------
(***************************************************************************)
(* C03.  JwtPresentationValidator::validate binds the token to the holder  *)
(* document.  Holder document of the harness (did:example:holder):         *)
(*   #key-1 = K1  verificationMethod + authentication                      *)
(*   #key-2 = K2  verificationMethod + assertionMethod                     *)
(*   did:example:other#key-f = K3, a FOREIGN-DID method embedded in        *)
(*                 capabilityInvocation of the holder document             *)
(*   did:example:other#key-1 = K4, a foreign-DID method with the SAME      *)
(*                 fragment as the holder's key-1, listed FIRST in         *)
(*                 verificationMethod: a query that names a DID must be    *)
(*                 matched on DID and fragment (holder#key-1 is K1)        *)
(* Two row families: the signature/binding part with all claim conditions  *)
(* true, and the claims part with the binding part true.                   *)
(***************************************************************************)
EXTENDS Integers, Sequences, FiniteSets, TLC, Json

VARIABLES row, out
vars == <<row, out>>

Queries == {"holder#key-1", "#key-1", "key-1", "holder#key-2", "other#key-f", "#key-f", "holder#missing", "other#key-1"}
KeyOfQuery(q) ==
  \* a bare fragment is looked up in the relationships first: authentication refers to holder#key-1, so it finds K1 although
  \* the decoy other#key-1 precedes it in verificationMethod (transcribed from resolve_method, cf. Document.tla Resolve)
  CASE q \in {"holder#key-1", "#key-1", "key-1"} -> "K1"
    [] q = "other#key-1" -> "K4"
    [] q = "holder#key-2" -> "K2"
    [] q \in {"other#key-f", "#key-f"} -> "K3"
    [] OTHER -> "none"              \* holder#missing
ScopesOfKey(k) == CASE k = "K1" -> {"vm", "authentication"} [] k = "K2" -> {"vm", "assertionMethod"}
                    [] k = "K3" -> {"capabilityInvocation"} [] k = "K4" -> {"vm"} [] OTHER -> {}

SRows == [part : {"S"}, kid : Queries \cup {"absent"}, method_id : {"none", "holder#key-1", "holder#key-2", "other#key-f"},
          signed_with : {"K1", "K2", "K3", "K4"}, scope : {"none", "authentication", "assertionMethod", "capabilityInvocation"},
          nonce_hdr : {"absent", "a", "b"}, nonce_opt : {"absent", "a", "b"},
          iss : {"holder", "other", "not_a_did"}]

SAccept(r) ==
  LET q == IF r.method_id # "none" THEN r.method_id ELSE r.kid
      k == IF q = "absent" THEN "none" ELSE KeyOfQuery(q) IN
  /\ r.nonce_hdr = r.nonce_opt
  /\ k # "none" /\ (r.scope = "none" \/ r.scope \in ScopesOfKey(k))
  /\ k = r.signed_with
  /\ r.iss = "holder"                    \* the issuer claim is a DID equal to the document's id

IssModes == {[mode |-> "none"], [mode |-> "out_of_range"]} \cup [mode : {"nbf", "iat", "both"}, v : {-1, 0, 1}]
URows == [part : {"U"}, exp : {"absent", "-1", "0", "1", "out_of_range"}, issuance : IssModes,
          vp_holder : {"absent", "equal", "different"}, vp_id : {"absent", "equal", "different", "present_without_jti"}]

\* for "both", nbf carries v and iat carries -v: nbf decides
UAccept(r) ==
  /\ r.exp \in {"absent", "0", "1"}                      \* not before the earliest-expiry bound
  /\ (r.issuance.mode = "none" \/ (r.issuance.mode \in {"nbf", "iat", "both"} /\ r.issuance.v <= 0))
  /\ r.vp_holder # "different"
  /\ r.vp_id \in {"absent", "equal"}

\* which bounds the verifier configured; a bound that is not configured defaults to the CURRENT TIME.  Instants are years;
\* "now" is whenever the check runs (2026+): explicit bounds lie in the past (2001, 2005) or in the future (2150, 2200), and the
\* token's dates lie before, between and after them AND on either side of now, so that a bound taken from the wrong option (or
\* from the clock when it was configured) shows.  The issuance instant travels in `iat` or in `nbf`.
TRows == [part : {"T"}, latest_issuance : {"unset", "y2001", "y2150"}, earliest_expiry : {"unset", "y2005", "y2200"},
          exp : {"absent", "y1999", "y2010", "y2100", "y2300"}, iat : {"y2000", "y2003", "y2010", "y2100", "y2180"},
          carrier : {"iat", "nbf"}]
Year(t) == CASE t = "y1999" -> 1999 [] t = "y2000" -> 2000 [] t = "y2001" -> 2001 [] t = "y2003" -> 2003 [] t = "y2005" -> 2005
             [] t = "y2010" -> 2010 [] t = "y2100" -> 2100 [] t = "y2150" -> 2150 [] t = "y2180" -> 2180 [] t = "y2200" -> 2200
             [] t = "y2300" -> 2300
Now == 2050                           \* any year between 2010 and 2100 gives the same table
TAccept(r) ==
  LET expiry_bound == IF r.earliest_expiry = "unset" THEN Now ELSE Year(r.earliest_expiry)
      issuance_bound == IF r.latest_issuance = "unset" THEN Now ELSE Year(r.latest_issuance) IN
  /\ (r.exp = "absent" \/ Year(r.exp) >= expiry_bound)
  /\ Year(r.iat) <= issuance_bound

Evaluate(r) == IF r.part = "S" THEN [accept |-> SAccept(r)] ELSE IF r.part = "U" THEN [accept |-> UAccept(r)] ELSE [accept |-> TAccept(r)]

Init == row \in SRows \cup URows \cup TRows /\ out = Evaluate(row)
Next == UNCHANGED vars
Spec == Init /\ [][Next]_vars

Bound == (row.part = "S" /\ out.accept) => (row.iss = "holder" /\ row.nonce_hdr = row.nonce_opt)
Emit == PrintT(<<"CASE", ToJson([row |-> row, out |-> out])>>)
=============================================================================
