SPECIFICATION Spec
CONSTANTS
  MaxKeys = 4
  Digests = {1, 2}
VIEW View
INVARIANTS TypeOK FreshIds
PROPERTIES StepProp
ACTION_CONSTRAINT EmitT
CHECK_DEADLOCK FALSE
