SPECIFICATION Spec
CONSTANTS
  Dates <- DatesQ
  Times <- TimesQ
  Offsets <- OffsetsQ
  FracLens <- FracQ
  UnixRows <- UnixQ
  DurRows <- DurQ
  SampleArith = 1
INVARIANTS AcceptedInRange CalendarRoundTrip FormatParseIdentity AddSubInverse BoundaryFacts Emit
CHECK_DEADLOCK FALSE
