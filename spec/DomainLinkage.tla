---------------------------- MODULE DomainLinkage ----------------------------
(***************************************************************************)
(* Beyond the list: JwtDomainLinkageValidator (DIF Well-Known DID          *)
(* Configuration).  A domain proves that it is controlled by the holder    *)
(* of a DID by serving a configuration that contains a Domain Linkage      *)
(* Credential issued by that DID.  The linkage is accepted ONLY IF         *)
(*   - every entry of the configuration is a JWT with an issuer, and       *)
(*     exactly one of them is issued by the DID being checked;             *)
(*   - that credential passes JWT credential validation (signature under   *)
(*     a method of the DID document, dates, ...);                          *)
(*   - it has no `id`, carries the type DomainLinkageCredential, has one   *)
(*     subject whose id is the issuer DID itself;                          *)
(*   - its subject's `origin` is a string denoting an origin only (no      *)
(*     path, query or fragment; a bare host is read as https://host) and   *)
(*     that origin equals the origin of the domain the configuration was   *)
(*     fetched from (scheme, host AND port).                               *)
(* Decision table: the configuration shape x the credential's fields.      *)
(***************************************************************************)
EXTENDS Naturals, Sequences, FiniteSets, TLC, Json

VARIABLES row, out
vars == <<row, out>>

\* configuration: issuers of its entries, in order ("me" = the DID being checked, "garbage" = not a JWT)
Configs == {<<"me">>, <<"other", "me">>, <<"me", "other">>, <<"other", "me", "other">>, <<"other">>, <<"other", "other">>,
            <<"me", "me">>, <<"other", "me", "me">>, <<"garbage">>, <<"me", "garbage">>, <<"garbage", "me">>}

Origins == {"exact",            \* https://example.com
            "trailing_slash",   \* https://example.com/
            "bare_host",        \* example.com            (read as https://example.com)
            "with_path", "with_query", "with_fragment",
            "other_host", "subdomain", "other_port", "explicit_default_port", "http_scheme",
            "bare_other_host", "userinfo",
            "absent", "not_a_string", "empty_string"}
\* the domain the configuration was fetched from: always https://example.com, possibly written with a path
Domains == {"plain", "with_path"}

CfgRows == [kind : {"config"}, cfg : Configs]
CredRows == [kind : {"credential"},
             signed_with : {"my_key", "another_key"},
             expired : BOOLEAN,
             has_id : BOOLEAN,
             type_present : BOOLEAN,
             subject : {"me", "other_did", "not_a_did", "absent"},
             origin : Origins,
             domain : Domains]

Count(sq, x) == Cardinality({i \in 1..Len(sq) : sq[i] = x})

CfgCause(c) ==
  IF Count(c, "garbage") > 0 THEN "InvalidJwt"
  ELSE IF Count(c, "me") > 1 THEN "InvalidStructure"
  ELSE IF Count(c, "me") = 0 THEN "InvalidIssuer"
  ELSE "none"

\* an origin value denotes https://example.com (default port) exactly for these spellings
\* named deviation UserinfoTolerated: "https://someone@example.com" has the origin https://example.com and no path, query or
\* fragment; the validator accepts it although it is not the serialisation of an origin (harmless: the origin compared is right)
SameOrigin(o) == o \in {"exact", "trailing_slash", "bare_host", "explicit_default_port", "userinfo"}
OriginOnly(o)  == o \notin {"with_path", "with_query", "with_fragment", "absent", "not_a_string", "empty_string"}

\* a subject with neither id nor origin is an empty subject: not even a well-formed credential
EmptySubject(r) == r.subject = "absent" /\ r.origin = "absent"
CredCause(r) ==
  IF r.signed_with # "my_key" \/ r.expired \/ EmptySubject(r) THEN "CredentialValidationError"
  ELSE IF r.has_id THEN "ImpermissibleIdProperty"
  ELSE IF ~r.type_present THEN "InvalidTypeProperty"
  ELSE IF r.subject = "absent" THEN "MissingSubjectId"
  ELSE IF r.subject = "not_a_did" THEN "InvalidSubjectId"
  ELSE IF r.subject = "other_did" THEN "IssuerSubjectMismatch"
  ELSE IF ~OriginOnly(r.origin) THEN "InvalidSubjectOrigin"
  ELSE IF ~SameOrigin(r.origin) THEN "OriginMismatch"
  ELSE "none"

Evaluate(r) ==
  LET c == IF r.kind = "config" THEN CfgCause(r.cfg) ELSE CredCause(r)
  IN [accept |-> c = "none", cause |-> c]

Init == row \in CfgRows \cup CredRows /\ out = Evaluate(row)
Next == UNCHANGED vars
Spec == Init /\ [][Next]_vars

\* accepted only if the credential is the DID's own statement about exactly this origin
AcceptMeansLinked ==
  (row.kind = "credential" /\ out.accept) =>
     /\ row.signed_with = "my_key" /\ ~row.expired /\ ~row.has_id /\ row.type_present
     /\ row.subject = "me" /\ SameOrigin(row.origin)
OneStatementPerDid == (row.kind = "config" /\ out.accept) => Count(row.cfg, "me") = 1

Emit == PrintT(<<"CASE", ToJson([row |-> row, out |-> out])>>)
=============================================================================
