SPECIFICATION Spec
CONSTANTS
  Ids <- Ids4
  RelOrder <- Rel2
  MaxLoad = 2
  MaxInit = 1
  SampleT = 24
  SampleS = 6
  GuardDangling = TRUE
VIEW View
INVARIANTS DocValid P_NoDupMethodId P_NoRefAliasesEmbedded P_NoServiceIdIsMethodId EmitS
PROPERTIES RefusalProp
ACTION_CONSTRAINT EmitT
CHECK_DEADLOCK FALSE
