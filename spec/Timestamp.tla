----------------------------- MODULE Timestamp -----------------------------
(***************************************************************************)
(* C13.  identity_core::common::Timestamp: a whole-second UTC instant in   *)
(* years 0000..9999.  An instant is <<day, sec>>: day number counted from  *)
(* 0000-01-01 (day 0) and second of day -- TLC integers are 32 bit, unix   *)
(* seconds of year 9999 are not.  The proleptic Gregorian calendar         *)
(* arithmetic is transcribed here independently of the `time` crate and is *)
(* the oracle; TLC cross-checks the two directions of the transcription    *)
(* against each other on every enumerated date.                            *)
(*                                                                         *)
(* This is a decision-table specification: Init ranges over the rows       *)
(* (parse rows, unix rows, arithmetic rows, comparison rows), the single   *)
(* step Evaluate computes the outcome the property demands.                *)
(***************************************************************************)
EXTENDS Integers, Sequences, FiniteSets, TLC, Json

CONSTANTS Dates,      \* set of <<y, m, d>> (may contain impossible dates such as Feb 30)
          Times,      \* set of <<h, mi, s>> (may contain 24:00:00, s = 60)
          Offsets,    \* set of signed minutes, -1439..1439, plus "Z" encoded as 10000
          FracLens,   \* subset of 0..9
          UnixRows,   \* set of <<day, sec>> possibly outside the range
          DurRows,    \* set of [unit, n, max]
          SampleArith \* 1 = all arithmetic rows

VARIABLES row, out
vars == <<row, out>>

IsLeap(y) == (y % 4 = 0 /\ y % 100 # 0) \/ y % 400 = 0
DaysInMonth(y, m) ==
  CASE m \in {1, 3, 5, 7, 8, 10, 12} -> 31
    [] m \in {4, 6, 9, 11} -> 30
    [] m = 2 -> IF IsLeap(y) THEN 29 ELSE 28
CumDays == <<0, 31, 59, 90, 120, 151, 181, 212, 243, 273, 304, 334>>

\* leap years in 0..y-1 (year 0 is a leap year)
LeapsBefore(y) == IF y = 0 THEN 0 ELSE ((y-1) \div 4) - ((y-1) \div 100) + ((y-1) \div 400) + 1
DaysBeforeYear(y) == 365 * y + LeapsBefore(y)
DaysFromCivil(y, m, d) == DaysBeforeYear(y) + CumDays[m] + (IF m > 2 /\ IsLeap(y) THEN 1 ELSE 0) + (d - 1)

MaxDay == DaysFromCivil(9999, 12, 31)
EpochDay == DaysFromCivil(1970, 1, 1)          \* 719528

\* inverse: the year containing day number n, then month and day (0 <= n <= MaxDay)
YearOf(n) == CHOOSE y \in ((n \div 366) .. (n \div 365)) : DaysBeforeYear(y) <= n /\ n < DaysBeforeYear(y + 1)
CivilFromDays(n) ==
  LET y == YearOf(n)
      doy == n - DaysBeforeYear(y)        \* 0-based day of year
      m == CHOOSE m \in 1..12 : DaysFromCivil(y, m, 1) <= n /\ n < DaysFromCivil(y, m, 1) + DaysInMonth(y, m)
  IN <<y, m, n - DaysFromCivil(y, m, 1) + 1>>

ValidDate(dt) == dt[1] \in 0..9999 /\ dt[2] \in 1..12 /\ dt[3] \in 1..DaysInMonth(dt[1], dt[2])
ValidTime(tm) == tm[1] \in 0..23 /\ tm[2] \in 0..59 /\ tm[3] \in 0..59
LeapSecond(tm) == tm[1] \in 0..23 /\ tm[2] \in 0..59 /\ tm[3] = 60

InRange(i) == 0 <= i[1] /\ i[1] <= MaxDay /\ 0 <= i[2] /\ i[2] < 86400

\* <<day, sec>> + signed seconds (|k| small enough for 32 bits), normalised
Shift(i, k) ==
  LET total == i[2] + k IN <<i[1] + (total \div 86400), total % 86400>>

OffsetSeconds(o) == IF o = 10000 THEN 0 ELSE o * 60

Reject == [acc |-> "no"]
Accept(i) == LET c == CivilFromDays(i[1]) IN
  [acc |-> "yes", day |-> i[1], sec |-> i[2],
   y |-> c[1], mo |-> c[2], d |-> c[3], h |-> i[2] \div 3600, mi |-> (i[2] % 3600) \div 60, s |-> i[2] % 60]

\* the instant an RFC 3339 string denotes, truncated to the second, if it is one of ours
ParseOutcome(r) ==
  IF ~ValidDate(r.date) \/ ~(ValidTime(r.time) \/ LeapSecond(r.time)) THEN Reject
  ELSE LET local == <<DaysFromCivil(r.date[1], r.date[2], r.date[3]), r.time[1] * 3600 + r.time[2] * 60 + r.time[3]>>
           utc == Shift(local, -OffsetSeconds(r.off))
       IN IF LeapSecond(r.time)
          \* named deviation LeapSecondStandIn: a leap second has no unix-second; the library may reject it or
          \* accept it as the preceding second -- both are allowed, anything else is not.
          THEN LET standin == Shift(utc, -1) IN
               IF InRange(standin) THEN [acc |-> "leap", alt |-> Accept(standin)] ELSE Reject
          ELSE IF InRange(utc) THEN Accept(utc) ELSE Reject

UnixOutcome(i) == IF InRange(i) THEN Accept(i) ELSE Reject

\* durations: [unit, n, max]; max = TRUE stands for n = 2^32 - 1 (not a TLC integer)
UnitSecs(u) == CASE u = "seconds" -> 1 [] u = "minutes" -> 60 [] u = "hours" -> 3600 [] u = "days" -> 86400 [] u = "weeks" -> 604800
\* <<days, secs>> of a duration; days capped at 10^8 (far outside the range in either direction)
Cap == 100000000
DurDS(du) ==
  IF du.max THEN
    CASE du.unit = "seconds" -> <<49710, 23295>>        \* 4294967295 s
      [] du.unit = "minutes" -> <<2982616, 15300>>      \* 4294967295 min
      [] OTHER -> <<Cap, 0>>
  ELSE CASE du.unit = "seconds" -> <<du.n \div 86400, du.n % 86400>>
         [] du.unit = "minutes" -> <<du.n \div 1440, (du.n % 1440) * 60>>
         [] du.unit = "hours"   -> <<du.n \div 24, (du.n % 24) * 3600>>
         [] du.unit = "days"    -> <<IF du.n > Cap THEN Cap ELSE du.n, 0>>
         [] du.unit = "weeks"   -> <<IF du.n > Cap \div 7 THEN Cap ELSE du.n * 7, 0>>

AddOutcome(i, du, sign) ==
  LET ds == DurDS(du)
      r == Shift(<<i[1] + sign * ds[1], i[2]>>, sign * ds[2])
  IN IF InRange(r) THEN Accept(r) ELSE Reject

Cmp(a, b) == IF a[1] < b[1] \/ (a[1] = b[1] /\ a[2] < b[2]) THEN "lt" ELSE IF a = b THEN "eq" ELSE "gt"

Instants == {i \in UnixRows : InRange(i)}

ParseRows == [kind : {"parse"}, date : Dates, time : Times, off : Offsets, frac : FracLens]
URows     == [kind : {"unix"}, i : UnixRows]
ArithRows == [kind : {"add", "sub"}, i : Instants, du : DurRows]
CmpRows   == [kind : {"cmp"}, a : Instants, b : Instants]

Evaluate(r) ==
  CASE r.kind = "parse" -> ParseOutcome(r)
    [] r.kind = "unix"  -> UnixOutcome(r.i)
    [] r.kind = "add"   -> AddOutcome(r.i, r.du, 1)
    [] r.kind = "sub"   -> AddOutcome(r.i, r.du, -1)
    [] r.kind = "cmp"   -> [acc |-> "cmp", v |-> Cmp(r.a, r.b)]

Init == /\ row \in ParseRows \cup URows \cup ArithRows \cup CmpRows
        /\ out = Evaluate(row)
Next == UNCHANGED vars
Spec == Init /\ [][Next]_vars

-----------------------------------------------------------------------------
(* Invariants: the calendar transcription is self-consistent and outcomes stay in range *)

AcceptedInRange == out.acc = "yes" => InRange(<<out.day, out.sec>>) /\ out.y \in 0..9999
CalendarRoundTrip ==
  /\ out.acc = "yes" => DaysFromCivil(out.y, out.mo, out.d) = out.day /\ ValidDate(<<out.y, out.mo, out.d>>)
  /\ (row.kind = "parse" /\ ValidDate(row.date)) =>
        CivilFromDays(DaysFromCivil(row.date[1], row.date[2], row.date[3])) = row.date
\* format-then-parse is the identity: re-reading the canonical form of an accepted value gives the same instant
FormatParseIdentity ==
  out.acc = "yes" =>
    ParseOutcome([kind |-> "parse", date |-> <<out.y, out.mo, out.d>>, time |-> <<out.h, out.mi, out.s>>, off |-> 10000, frac |-> 0]) = out
\* add then sub (when both stay in range) is the identity
AddSubInverse ==
  (row.kind = "add" /\ out.acc = "yes") => AddOutcome(<<out.day, out.sec>>, row.du, -1) = Accept(row.i)
BoundaryFacts == /\ EpochDay = 719528 /\ MaxDay = 3652424
                 /\ CivilFromDays(0) = <<0, 1, 1>> /\ CivilFromDays(MaxDay) = <<9999, 12, 31>>

Emit == (row.kind \in {"add", "sub"} /\ RandomElement(1..SampleArith) # 1) \/ PrintT(<<"CASE", ToJson([row |-> row, out |-> out])>>)
=============================================================================
