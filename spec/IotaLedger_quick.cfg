SPECIFICATION Spec
CONSTANTS
  Slots = {1, 2}
  Versions = {1, 2}
  Depth = 4
INVARIANTS TypeOK IndexCounts NoGaps
PROPERTIES ResolveIsLastPublished
VIEW View
ACTION_CONSTRAINT EmitT
CHECK_DEADLOCK FALSE
