------------------------------ MODULE JwtClaims ------------------------------
(***************************************************************************)
(* C07.  Credential / presentation  <->  JWT claims set.                   *)
(*                                                                         *)
(* A credential is a record of value TAGS ("none" = field absent).         *)
(* ToClaims moves issuer, id, subject id, issuance and expiration into the *)
(* registered claims iss / jti / sub / nbf / exp and leaves the rest in    *)
(* vc; FromClaims checks that anything repeated inside vc agrees with the  *)
(* registered claim and rebuilds the credential.  TLC checks the           *)
(* round-trip identity and the carried-once law on every credential and    *)
(* evaluates the consistency table for the reverse direction.              *)
(***************************************************************************)
EXTENDS Integers, Sequences, FiniteSets, TLC, Json

VARIABLES row, out
vars == <<row, out>>

Opt(S) == S \cup {"none"}
Creds == [issuer : {"url", "obj"}, id : Opt({"id1"}), exp : Opt({"e1"}), subj_id : Opt({"s1"}), issuance : {"i1"},
          status : Opt({"st"}), schema : {"0", "1", "2"}, evidence : Opt({"ev"}), terms : Opt({"tu"}), refresh : Opt({"rs"}),
          proof : Opt({"pr"}), non_transferable : Opt({"true", "false"}), props : Opt({"xp"}), subj_props : Opt({"sp"}),
          custom : Opt({"cc"})]

Inner(c) == [status |-> c.status, schema |-> c.schema, evidence |-> c.evidence, terms |-> c.terms, refresh |-> c.refresh,
             proof |-> c.proof, non_transferable |-> c.non_transferable, props |-> c.props, subj_props |-> c.subj_props]

\* inner copies of the registered values are NOT written (each value is carried once)
ToClaims(c) == [iss |-> c.issuer, jti |-> c.id, exp |-> c.exp, sub |-> c.subj_id, nbf |-> c.issuance, iat |-> "none",
                vc |-> Inner(c) @@ [issuer |-> "none", id |-> "none", exp |-> "none", subj_id |-> "none", issuance |-> "none"],
                custom |-> c.custom]

IssuanceOf(cl) == IF cl.nbf # "none" THEN cl.nbf ELSE cl.iat
Agrees(inner, registered) == inner = "none" \/ inner = registered
Consistent(cl) ==
  /\ Agrees(cl.vc.issuer, cl.iss) /\ Agrees(cl.vc.id, cl.jti) /\ Agrees(cl.vc.exp, cl.exp)
  /\ Agrees(cl.vc.subj_id, cl.sub) /\ Agrees(cl.vc.issuance, IssuanceOf(cl))
WellFormed(cl) == cl.iss # "none" /\ IssuanceOf(cl) # "none" /\ cl.exp # "out_of_range" /\ IssuanceOf(cl) # "out_of_range"

FromClaims(cl) ==
  IF ~WellFormed(cl) \/ ~Consistent(cl) THEN [ok |-> FALSE]
  ELSE [ok |-> TRUE,
        cred |-> [issuer |-> cl.iss, id |-> cl.jti, exp |-> cl.exp, subj_id |-> cl.sub, issuance |-> IssuanceOf(cl),
                  status |-> cl.vc.status, schema |-> cl.vc.schema, evidence |-> cl.vc.evidence, terms |-> cl.vc.terms,
                  refresh |-> cl.vc.refresh, proof |-> cl.vc.proof, non_transferable |-> cl.vc.non_transferable,
                  props |-> cl.vc.props, subj_props |-> cl.vc.subj_props, custom |-> cl.custom]]

\* reverse direction: for every duplicated member the registered claim is absent / v and the inner copy absent / v / w
Dup == [reg : {"none", "v"}, inner : {"none", "v", "w"}]
\* the issuer is a URL or an object with an id; the copy inside vc has to EQUAL the registered claim, not merely share its id
BackRows == [kind : {"back"}, iss_form : {"url", "obj"},
             issuer_inner : {"none", "v", "w", "same_id_other_form", "same_id_other_name"}, id : Dup, exp : Dup \cup {[reg |-> "out_of_range", inner |-> "none"]},
             sub : Dup, issuance : [nbf : {"none", "v", "out_of_range"}, iat : {"none", "v", "w"}, inner : {"none", "v", "w"}]]
\* issuance value named by the registered claims: nbf wins over iat
BackIssuance(r) == IF r.issuance.nbf # "none" THEN r.issuance.nbf ELSE r.issuance.iat
BackAccept(r) ==
  /\ Agrees(r.issuer_inner, "v")
  /\ Agrees(r.id.inner, r.id.reg) /\ r.exp.reg # "out_of_range" /\ Agrees(r.exp.inner, r.exp.reg)
  /\ Agrees(r.sub.inner, r.sub.reg)
  /\ BackIssuance(r) \notin {"none", "out_of_range"} /\ Agrees(r.issuance.inner, BackIssuance(r))

\* presentations: holder <-> iss, id <-> jti; expiry / issuance / audience travel as options
Pres == [id : Opt({"id1"}), exp : Opt({"e1"}), issuance : Opt({"i1"}), aud : Opt({"au"}), custom : Opt({"cc"}),
         creds : {"0", "1", "2"}, refresh : Opt({"rs"}), terms : Opt({"tu"}), proof : Opt({"pr"}), props : Opt({"xp"})]

\* a credential subject has an id or properties (a subject without either cannot be built)
Rows == [kind : {"fwd_cred"}, c : {c \in Creds : ~(c.subj_id = "none" /\ c.subj_props = "none")}]
        \cup BackRows \cup [kind : {"fwd_pres"}, p : Pres]

Evaluate(r) ==
  CASE r.kind = "fwd_cred" -> [accept |-> TRUE]
    [] r.kind = "back"     -> [accept |-> BackAccept(r), issuance |-> BackIssuance(r)]
    [] r.kind = "fwd_pres" -> [accept |-> TRUE]

Init == row \in Rows /\ out = Evaluate(row)
Next == UNCHANGED vars
Spec == Init /\ [][Next]_vars

-----------------------------------------------------------------------------
RoundTrip == row.kind = "fwd_cred" => (LET r == FromClaims(ToClaims(row.c)) IN r.ok /\ r.cred = row.c)
CarriedOnce == row.kind = "fwd_cred" =>
  LET cl == ToClaims(row.c) IN
  /\ cl.vc.issuer = "none" /\ cl.vc.id = "none" /\ cl.vc.exp = "none" /\ cl.vc.subj_id = "none" /\ cl.vc.issuance = "none"
  /\ cl.iss = row.c.issuer /\ cl.jti = row.c.id /\ cl.exp = row.c.exp /\ cl.sub = row.c.subj_id /\ cl.nbf = row.c.issuance
\* a disagreement is never silently resolved
NoSilentResolution == (row.kind = "back" /\ out.accept) =>
  /\ row.issuer_inner # "w" /\ row.id.inner # "w" /\ row.exp.inner # "w" /\ row.sub.inner # "w"
  /\ (row.id.inner = "v" => row.id.reg = "v") /\ (row.sub.inner = "v" => row.sub.reg = "v")

Emit == PrintT(<<"CASE", ToJson([row |-> row, out |-> out])>>)
=============================================================================
