----------------------------- MODULE DidSyntax -----------------------------
(***************************************************************************)
(* C10.  W3C DID / DID URL syntax (did-core, section 3) transcribed over an *)
(* alphabet of character CLASSES.  A string is a sequence of class         *)
(* symbols; the harness expands each symbol to several concrete characters.*)
(*                                                                         *)
(*   1 digit   f hex lower   F hex upper   g other lower   G other upper   *)
(*   . -(_)  :  %  /  ?  #   ! sub-delims/~/@   + plus sign                *)
(*   S space   T control   { never-legal ASCII   N non-ASCII               *)
(*                                                                         *)
(* Decision-table spec: Init ranges over rows, Evaluate computes what the  *)
(* grammar says.  The judging relation is ONE-SIDED, as the property is:   *)
(* whatever the library accepts must be valid and decompose as computed    *)
(* here; rejecting a valid string is recorded but is not a violation.      *)
(*                                                                         *)
(* Named deviations of the library, pinned by its own tests:               *)
(*   ColonAnywhere            method-specific ids may begin/end with ':'   *)
(*   NormaliseEmptyDelimiter  'did:m:a?' / 'did:m:a#' are read as having   *)
(*                            no query / fragment (string form drops the   *)
(*                            bare delimiter)                              *)
(***************************************************************************)
EXTENDS Naturals, Sequences, FiniteSets, TLC, Json

CONSTANTS Sigma,     \* alphabet of class symbols
          MaxLen,    \* all bodies up to this length are enumerated
          Mids, Paths, Queries, Frags,   \* component alternatives for longer, structured bodies
          Pfx,       \* prefix table: set of [txt, ok, method]
          Bases,     \* accepted DID URLs (as rows) used as bases of setter rows
          SegLen,    \* setter segments up to this length
          LongLen,   \* 0, or the length of additional bodies over the reduced alphabet SigmaLong
          SigmaLong

VARIABLES row, out
vars == <<row, out>>

IsHex(c)   == c \in {"1", "f", "F"}
Alnum    == {"1", "f", "F", "g", "G"}
IdSet    == Alnum \cup {".", "-"}
MidSet   == IdSet \cup {":"}                          \* ColonAnywhere
PSet     == MidSet \cup {"!", "+"}                    \* unreserved / sub-delims / ':' / '@'
PathSet  == PSet \cup {"/"}
QuerySet == PathSet \cup {"?"}
NameSet  == {"1", "f", "g"}                            \* method-name: lower case letters and digits

\* every element is in Allowed or starts a pct-encoded triple "%" HEXDIG HEXDIG
RECURSIVE Scan(_, _, _)
Scan(sq, i, Allowed) ==
  IF i > Len(sq) THEN TRUE
  ELSE IF sq[i] = "%" THEN i + 2 <= Len(sq) /\ IsHex(sq[i+1]) /\ IsHex(sq[i+2]) /\ Scan(sq, i + 3, Allowed)
  ELSE sq[i] \in Allowed /\ Scan(sq, i + 1, Allowed)
Valid(sq, Allowed) == Scan(sq, 1, Allowed)

\* position of the first element in S at or after i, Len+1 if none
RECURSIVE Find(_, _, _)
Find(sq, i, S) == IF i > Len(sq) THEN Len(sq) + 1 ELSE IF sq[i] \in S THEN i ELSE Find(sq, i + 1, S)

Sub(sq, a, b) == IF a > b THEN <<>> ELSE SubSeq(sq, a, b)

\* split of the part after "did:<method>:" into method-specific id, path, query, fragment
Split(body) ==
  LET n == Len(body)
      c1 == Find(body, 1, {"/", "?", "#"})
      c2 == IF c1 <= n /\ body[c1] = "/" THEN Find(body, c1, {"?", "#"}) ELSE c1
      hasQ == c2 <= n /\ body[c2] = "?"
      c3 == IF hasQ THEN Find(body, c2 + 1, {"#"}) ELSE c2
      hasF == c3 <= n /\ body[c3] = "#"
  IN [mid |-> Sub(body, 1, c1 - 1), path |-> Sub(body, c1, c2 - 1),
      hasQ |-> hasQ, query |-> IF hasQ THEN Sub(body, c2 + 1, c3 - 1) ELSE <<>>,
      hasF |-> hasF, frag |-> IF hasF THEN Sub(body, c3 + 1, n) ELSE <<>>]

ValidParts(p) ==
  /\ p.mid # <<>> /\ Valid(p.mid, MidSet)
  /\ Valid(p.path, PathSet)               \* empty or begins with '/' by construction of Split
  /\ Valid(p.query, QuerySet)
  /\ Valid(p.frag, QuerySet)

\* what an accepting parser must report; NormaliseEmptyDelimiter drops bare '?' and '#'
UrlOutcome(pfx, body) ==
  LET p == Split(body) IN
  IF ~pfx.ok \/ ~ValidParts(p) THEN [ok |-> FALSE]
  ELSE [ok |-> TRUE, method |-> pfx.method, mid |-> p.mid, path |-> p.path,
        hasQ |-> p.query # <<>>, query |-> p.query, hasF |-> p.frag # <<>>, frag |-> p.frag,
        \* a plain DID carries none of path / query / fragment (not even a bare delimiter)
        did |-> p.path = <<>> /\ ~p.hasQ /\ ~p.hasF]

\* setter segments: is the argument acceptable for that component?
StripLead(sq, c) == IF sq # <<>> /\ sq[1] = c THEN Tail(sq) ELSE sq
SegOutcome(which, seg) ==
  CASE which = "path"     -> seg = <<>> \/ (seg[1] = "/" /\ Valid(seg, PathSet))
    [] which = "query"    -> seg = <<>> \/ (StripLead(seg, "?") # <<>> /\ Valid(StripLead(seg, "?"), QuerySet))
    [] which = "fragment" -> seg = <<>> \/ (StripLead(seg, "#") # <<>> /\ Valid(StripLead(seg, "#"), QuerySet))
    [] which = "method_name" -> seg # <<>> /\ \A i \in 1..Len(seg) : seg[i] \in NameSet
    [] which = "method_id"   -> seg # <<>> /\ Valid(seg, MidSet)
    [] which = "join" -> seg # <<>> /\ seg[1] \in {"/", "?", "#"} /\
                         (LET p == Split(<<"g">> \o seg) IN Valid(p.path, PathSet) /\ Valid(p.query, QuerySet) /\ Valid(p.frag, QuerySet))

Strs(n) == UNION {[1..k -> Sigma] : k \in 0..n}
GoodPfx == CHOOSE p \in Pfx : p.txt = "did:m:"

Structured == {m \o p \o q \o f : m \in Mids, p \in Paths, q \in Queries, f \in Frags}

\* what follows a percent-encoded octet: every class, another (well- or ill-formed) octet, or nothing -- in every component
PctTails == {<<>>} \cup {<<c>> : c \in Sigma} \cup {<<"%", "g", "1">>, <<"%", "1">>, <<"%", "1", "f">>}
PctSegs == {lead \o <<"%", "1", "f">> \o tl : lead \in {<<>>, <<"/">>, <<"?">>, <<"#">>}, tl \in PctTails}
PctBodies == {<<"g">> \o sg \o rest : sg \in PctSegs, rest \in {<<>>, <<"#", "g">>}}

\* longer bodies over a reduced alphabet (TLC cannot build sets of more than 10^6 elements: 18^5 is too many)
LongBodies == IF LongLen = 0 THEN {} ELSE [1..LongLen -> SigmaLong]

UrlRows == [kind : {"url"}, pfx : {GoodPfx}, body : Strs(MaxLen) \cup Structured \cup PctBodies \cup LongBodies]
           \cup [kind : {"url"}, pfx : Pfx, body : {<<"g">>, <<"g", "#", "g">>, <<>>}]
SetRows == [kind : {"set"}, base : Bases, which : {"path", "query", "fragment", "method_name", "method_id", "join"}, seg : Strs(SegLen) \cup PctSegs]

Evaluate(r) ==
  CASE r.kind = "url" -> UrlOutcome(r.pfx, r.body)
    [] r.kind = "set" -> [ok |-> SegOutcome(r.which, r.seg)]

Init == row \in UrlRows \cup SetRows /\ out = Evaluate(row)
Next == UNCHANGED vars
Spec == Init /\ [][Next]_vars

-----------------------------------------------------------------------------
(* Invariants of the grammar transcription itself *)

\* the components of an accepted string re-concatenate to it (modulo the bare delimiters that are dropped)
Recompose ==
  (row.kind = "url" /\ out.ok) =>
     LET p == Split(row.body) IN
     p.mid \o p.path \o (IF p.hasQ THEN <<"?">> \o p.query ELSE <<>>) \o (IF p.hasF THEN <<"#">> \o p.frag ELSE <<>>) = row.body
\* no accepted component contains a delimiter that would start another component, whitespace, control or non-ASCII
CleanParts ==
  (row.kind = "url" /\ out.ok) =>
     /\ \A i \in 1..Len(out.mid) : out.mid[i] \notin {"/", "?", "#", "S", "T", "{", "N", "!", "+"}
     /\ \A i \in 1..Len(out.path) : out.path[i] \notin {"?", "#", "S", "T", "{", "N"}
     /\ \A i \in 1..Len(out.query) : out.query[i] \notin {"#", "S", "T", "{", "N"}
     /\ \A i \in 1..Len(out.frag) : out.frag[i] \notin {"#", "S", "T", "{", "N"}
\* a plain DID is exactly a DID URL without path, query and fragment
PlainDid == (row.kind = "url" /\ out.ok /\ out.did) => out.path = <<>> /\ ~out.hasQ /\ ~out.hasF

Emit == PrintT(<<"CASE", ToJson([row |-> row, out |-> out])>>)
=============================================================================
