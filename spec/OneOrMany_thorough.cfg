SPECIFICATION Spec
CONSTANTS
  SampleT = 4
  Keys = {"a", "b", "c"}
  Vals = {0, 1}
  MaxList = 3
  MaxLen = 4
VIEW View
INVARIANTS TypeOK OneIsOne CtorSingletonBare
ACTION_CONSTRAINT EmitT
CHECK_DEADLOCK FALSE
