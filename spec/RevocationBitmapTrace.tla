----------------------- MODULE RevocationBitmapTrace -----------------------
(* Direction V for C06: random revoke/unrevoke batch histories on one live  *)
(* CoreDocument / IotaDocument; the abstract state is the set of revoked     *)
(* indices itself (Cls = Nat, nothing is enumerated in trace mode).  Every   *)
(* query / validator answer and the bitmap cardinality after every step      *)
(* must agree with the set model.                                            *)
EXTENDS RevocationBitmap, IOUtils

Rec == ndJsonDeserialize(IOEnv.TRACE)

VARIABLE l
tvars == <<members, last, l>>

TraceInit == l = 1 /\ members = {} /\ last = [pre |-> <<>>, op |-> [name |-> "init"], res |-> [ok |-> TRUE], post |-> <<>>]

TraceNext ==
  /\ l <= Len(Rec)
  /\ l' = l + 1
  /\ LET e == Rec[l] IN
     IF e.op.name = "reset"
     THEN e.res.ok /\ members' = {} /\ e.len = 0 /\ last' = [pre |-> <<>>, op |-> e.op, res |-> e.res, post |-> <<>>]
     ELSE LET r == Apply(members, e.op)
          IN /\ r.res = e.res
             /\ Cardinality(r.post) = e.len
             /\ members' = r.post
             /\ last' = [pre |-> <<>>, op |-> e.op, res |-> r.res, post |-> <<>>]

TraceSpec == TraceInit /\ [][TraceNext]_tvars
TraceStepProp == [][last'.op.name = "reset" \/ StepLaws]_tvars

TraceAccepted ==
  LET n == TLCGet("stats").diameter - 1 IN
  IF n = Len(Rec) THEN PrintT("TRACE-ACCEPTED events=" \o ToString(n))
  ELSE PrintT("TRACE-REJECTED matched=" \o ToString(n) \o " of " \o ToString(Len(Rec))) /\ FALSE
=============================================================================
