-------------------------- MODULE MCDocumentTrace --------------------------
EXTENDS DocumentTrace
Ids12 == {"self", "other"} \X {"a", "b", "c"} \X {"", "v"}
Rel5 == <<"authentication", "assertionMethod", "keyAgreement", "capabilityDelegation", "capabilityInvocation">>
=============================================================================
