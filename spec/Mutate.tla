-------------------------------- MODULE Mutate --------------------------------
(***************************************************************************)
(* C05.  Input generation for the totality relation                        *)
(*        Outcome(entry point, input) \in {ok, err}     (never a panic)    *)
(* A mutation is applied to a valid seed input of an entry point.  TLC     *)
(* enumerates the mutation operators x position classes x replacement      *)
(* symbols; the harness expands a position class over concrete positions   *)
(* of every seed and a symbol over its concrete characters.  The totality  *)
(* relation itself is what every trace specification of the other          *)
(* properties enforces too: the result class "panic" matches no action.    *)
(***************************************************************************)
EXTENDS Naturals, Sequences, FiniteSets, TLC, Json

CONSTANTS Symbols,      \* adversarial alphabet (class symbols, as in DidSyntax)
          JsonValues    \* replacement values for JSON-level mutations

VARIABLES row
vars == <<row>>

ByteOps == {"delete", "duplicate", "replace", "insert", "truncate_after", "swap_with_next", "flip_bit"}
Positions == {"first", "last", "every", "delimiters"}
JsonOps == {"replace_value", "remove_member", "duplicate_member", "wrap_in_array", "nest_deeply", "cut_string"}
\* cut_string: a string VALUE inside the document is shortened while the document stays well-formed JSON -- to its first
\* Keep characters, or to the part up to its last delimiter (, ; : / # ? .) plus Keep characters (a data URL, DID URL or
\* token whose last component is empty or a few characters long)
Keeps == 0..4

Rows == [level : {"bytes"}, op : {"delete", "duplicate", "truncate_after", "swap_with_next", "flip_bit"}, pos : Positions]
        \cup [level : {"bytes"}, op : {"replace", "insert"}, pos : Positions, sym : Symbols]
        \cup [level : {"json"}, op : {"replace_value"}, with : JsonValues]
        \cup [level : {"json"}, op : {"remove_member", "duplicate_member", "wrap_in_array", "nest_deeply"}]
        \cup [level : {"json"}, op : {"cut_string"}, at : {"start", "last_delimiter"}, keep : Keeps]
        \cup [level : {"seed"}]                         \* the unmutated seed itself: must be accepted

Init == row \in Rows
Next == UNCHANGED vars
Spec == Init /\ [][Next]_vars

\* the only verdict the specification knows
Outcomes == {"ok", "err"}
Totality == TRUE
Emit == PrintT(<<"CASE", ToJson(row)>>)
=============================================================================
