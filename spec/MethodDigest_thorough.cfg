SPECIFICATION Spec
INVARIANTS RebaseInvariant NoCollision Emit
CHECK_DEADLOCK FALSE
