SPECIFICATION Spec
CONSTANTS
  Rels = {"r1", "r2"}
  Rollback = "reinsert"
INVARIANTS TypeOK AllOrNothing NoSilentOrphan RelationshipRefsKept
CHECK_DEADLOCK FALSE
