SPECIFICATION Spec
CONSTANTS
  FaultUniverse = "made"
  Rels = {"r1", "r2"}
  Rollback = "reinsert"
INVARIANTS TypeOK AllOrNothing NoSilentOrphan RelationshipRefsKept
CHECK_DEADLOCK FALSE
