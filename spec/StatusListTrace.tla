-------------------------- MODULE StatusListTrace --------------------------
(* Direction V for C12: recorded histories of one live StatusList2021 or   *)
(* StatusList2021Credential (window of N = 16 bits at a random placement)  *)
(* must be behaviours of StatusList!Apply; StepLaws is evaluated on every  *)
(* recorded step and nothing outside the window may ever become non-zero.  *)
EXTENDS StatusList, IOUtils

Rec == ndJsonDeserialize(IOEnv.TRACE)

VARIABLE l
tvars == <<bits, purpose, last, l>>

TraceInit == /\ l = 1 /\ bits = Zero /\ purpose = Rec[1].p
             /\ last = [n |-> N, p |-> purpose, pre |-> 0, op |-> [name |-> "init"], res |-> [ok |-> TRUE], post |-> 0]

TraceNext ==
  /\ l <= Len(Rec)
  /\ l' = l + 1
  /\ LET e == Rec[l] IN
     /\ e.outside = 0
     /\ IF e.op.name = "reset"
        THEN /\ e.res.ok             \* a fresh list of that size could be built, encoded and decoded to the same list
             /\ bits' = Zero /\ purpose' = e.p /\ e.post = 0
             /\ last' = [n |-> N, p |-> e.p, pre |-> 0, op |-> e.op, res |-> e.res, post |-> 0]
        ELSE LET r == Apply(bits, purpose, e.op)
             IN /\ e.p = purpose
                /\ r.res = e.res
                /\ Num(r.post) = e.post
                /\ bits' = r.post /\ UNCHANGED purpose
                /\ last' = [n |-> N, p |-> purpose, pre |-> Num(bits), op |-> e.op, res |-> r.res, post |-> Num(r.post)]

TraceSpec == TraceInit /\ [][TraceNext]_tvars

\* StepLaws refers to last'.op; on reset steps the op name matches no clause.
TraceStepProp == [][StepLaws]_tvars

TraceAccepted ==
  LET n == TLCGet("stats").diameter - 1 IN
  IF n = Len(Rec) THEN PrintT("TRACE-ACCEPTED events=" \o ToString(n))
  ELSE PrintT("TRACE-REJECTED matched=" \o ToString(n) \o " of " \o ToString(Len(Rec))) /\ FALSE
=============================================================================
