SPECIFICATION Spec
INVARIANTS Coherent NoLeak Emit
CHECK_DEADLOCK FALSE
