SPECIFICATION Spec
CONSTANTS
  Threads = {1, 2, 3}
  Plans <- PlansQ
  Atomic = TRUE
INVARIANTS TypeOK AtMostOneWinner MappingIsWinners
CHECK_DEADLOCK FALSE
