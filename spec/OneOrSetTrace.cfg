SPECIFICATION TraceSpec
CONSTANTS
  SampleT = 1
  Keys = {"a", "b", "c", "d"}
  Vals = {0, 1}
  MaxList = 4
INVARIANTS NeverEmpty KeyUnique OneIsOne CtorSingletonBare
POSTCONDITION TraceAccepted
CHECK_DEADLOCK FALSE
