SPECIFICATION Spec
INVARIANTS UpdateMovesTheFrame NoSelfService RevokedStaysOut Emit
CHECK_DEADLOCK FALSE
