SPECIFICATION TraceSpec
CONSTANTS
  MaxKeys = 100000
  Digests = {1, 2, 3, 4}
INVARIANTS FreshIds
PROPERTIES TraceStepProp
POSTCONDITION TraceAccepted
CHECK_DEADLOCK FALSE
