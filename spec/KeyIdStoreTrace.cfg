SPECIFICATION TraceSpec
INVARIANTS NotDone
CONSTRAINT Track
POSTCONDITION TraceRejected
CHECK_DEADLOCK FALSE
