-------------------------- MODULE CredentialValidation --------------------------
(***************************************************************************)
(* C02.  JwtCredentialValidator: a credential is accepted only when every  *)
(* checked condition holds.  Two phases, as in the library: the signature  *)
(* phase (one error, returned immediately) and the unit phase (first       *)
(* error, or all errors when requested).                                   *)
(*                                                                         *)
(* World of the harness.  Trusted documents: `issuer` (methods key-1 = K1, *)
(* in verificationMethod + assertionMethod; key-2 = K2, in                 *)
(* verificationMethod + authentication; a revocation service) and, in some *)
(* rows, `other` (a different DID that lists key-1 = the SAME key K1,      *)
(* verificationMethod only).  `stranger` has no document.  The issuer      *)
(* document additionally LISTS a foreign method `other#key-3` (key K2): a  *)
(* decoy -- it is a method of no trusted document's own DID, so no kid or  *)
(* configured method id may ever select it (a lookup by fragment alone, or *)
(* by DID alone, would).                                                   *)
(***************************************************************************)
EXTENDS Integers, Sequences, FiniteSets, TLC, Json

VARIABLES row, out
vars == <<row, out>>

Dids == {"issuer", "other", "stranger"}
Frags == {"key-1", "key-2", "key-3", "missing"}
NoMethod == [did |-> "none", frag |-> "none"]
MethodIds == [did : Dids, frag : Frags]
Nonces == {"absent", "a", "b"}

KeyOf(did, frag) ==
  CASE did = "issuer" /\ frag = "key-1" -> "K1"
    [] did = "issuer" /\ frag = "key-2" -> "K2"
    [] did = "other"  /\ frag = "key-1" -> "K1"
    [] OTHER -> "none"
ScopesOf(did, frag) ==
  CASE did = "issuer" /\ frag = "key-1" -> {"vm", "assertionMethod"}
    [] did = "issuer" /\ frag = "key-2" -> {"vm", "authentication"}
    [] did = "other"  /\ frag = "key-1" -> {"vm"}
    [] OTHER -> {}

\* ------------------------------- signature phase -------------------------------
SRows == [phase : {"S"},
          kid : {[mode |-> "fragment"], [mode |-> "absent"], [mode |-> "unparsable"]} \cup [mode : {"full"}, id : MethodIds],
          method_id : {NoMethod} \cup MethodIds,          \* JwsVerificationOptions::method_id
          scope : {"none", "assertionMethod", "authentication"},
          signed_with : {"K1", "K2"},
          issuer_claim : Dids,
          nonce_hdr : Nonces, nonce_opt : Nonces,
          trusted : {"issuer_only", "issuer_and_other"}]

\* the method the verifier is going to use: the configured id, else the kid -- which must parse as a DID URL
Effective(r) == IF r.method_id # NoMethod THEN r.method_id
                ELSE IF r.kid.mode = "full" THEN r.kid.id ELSE NoMethod
Trusted(r) == IF r.trusted = "issuer_only" THEN {"issuer"} ELSE {"issuer", "other"}

SErrors(r) ==
  LET m == Effective(r) IN
     (IF r.nonce_hdr # r.nonce_opt THEN {"nonce"} ELSE {})
  \cup (IF m = NoMethod THEN {"method_lookup"} ELSE
         (IF m.did \notin Trusted(r) THEN {"document_mismatch"}
          ELSE IF KeyOf(m.did, m.frag) = "none" \/ (r.scope # "none" /\ r.scope \notin ScopesOf(m.did, m.frag)) THEN {"method_lookup"}
          \* once the method is found, "the signature verifies under it" and "its DID is the credential's issuer" are two
          \* independent conditions: when both are false either error identifies a false condition (the library checks the
          \* signature first; an implementation that compares the issuer first is as good)
          ELSE (IF KeyOf(m.did, m.frag) # r.signed_with THEN {"signature"} ELSE {})
               \cup (IF r.issuer_claim # m.did THEN {"identifier_mismatch"} ELSE {})))

\* ------------------------------- unit phase -------------------------------
StatusKinds == {"none", "not_revoked", "revoked", "index_mismatch", "service_missing", "unsupported_type"}
URows == [phase : {"U"},
          issuance : {-1, 0, 1},                     \* seconds relative to the latest-issuance bound
          expiry : {"absent", "-1", "0", "1"},       \* seconds relative to the earliest-expiry bound
          structure : {"ok", "no_base_context", "no_base_type", "empty_subject"},
          rel : {"unset", "AlwaysSubject", "SubjectOnNonTransferable", "Any"},
          holder_is_subject : BOOLEAN, non_transferable : BOOLEAN,
          status : StatusKinds, status_mode : {"Strict", "SkipUnsupported", "SkipAll"},
          fail_fast : {"FirstError", "AllErrors"}]

StatusError(r) ==
  IF r.status_mode = "SkipAll" \/ r.status = "none" THEN {}
  ELSE IF r.status = "unsupported_type" THEN (IF r.status_mode = "SkipUnsupported" THEN {} ELSE {"invalid_status"})
  ELSE IF r.status = "index_mismatch" THEN {"invalid_status"}
  ELSE IF r.status = "service_missing" THEN {"service_lookup"}
  ELSE IF r.status = "revoked" THEN {"revoked"} ELSE {}

UErrors(r) ==
     (IF r.issuance > 0 THEN {"issuance_date"} ELSE {})                 \* issued on or before the bound
  \cup (IF r.expiry = "-1" THEN {"expiration_date"} ELSE {})            \* expires on or after the bound (absent = never)
  \cup (IF r.structure # "ok" THEN {"structure"} ELSE {})
  \* a credential whose subject was emptied has no subject id the holder could equal
  \cup (LET holder == r.holder_is_subject /\ r.structure # "empty_subject" IN
        IF \/ (r.rel = "AlwaysSubject" /\ ~holder)
           \/ (r.rel = "SubjectOnNonTransferable" /\ ~holder /\ r.non_transferable)
        THEN {"subject_holder"} ELSE {})
  \cup StatusError(r)

\* ------------------------------- crafted claim sets: where the dates are stated -------------------------------
\* The library's own tokens state expiry in `exp` and issuance in `nbf`.  A third-party token may (also) state them inside
\* `vc`; the registered claim is authoritative and a `vc` copy must agree with it, otherwise the token is malformed.
CRows == [phase : {"C"},
          exp_at : {"claim", "vc_only", "both_equal", "both_differ"}, expiry : {"-1", "1"},
          iss_at : {"nbf", "iat", "vc_only", "nbf_vc_equal", "nbf_vc_differ"}, issuance : {0, 1}]
CErrors(r) ==
  IF r.exp_at \in {"vc_only", "both_differ"} \/ r.iss_at \in {"vc_only", "nbf_vc_differ"} THEN {"structure"}
  ELSE (IF r.issuance > 0 THEN {"issuance_date"} ELSE {}) \cup (IF r.expiry = "-1" THEN {"expiration_date"} ELSE {})

\* ------------------------------- which bounds are configured -------------------------------
\* A bound the verifier did not configure defaults to the CURRENT TIME.  Instants are years; "now" is whenever the check runs
\* (2026+): explicit bounds lie in the past (2001, 2005) or in the future (2150, 2200) and the credential's dates lie before,
\* between and after them and on either side of now, so that a bound taken from the other option, or from the clock although
\* it was configured, shows.
DRows == [phase : {"D"}, latest_issuance : {"unset", "y2001", "y2150"}, earliest_expiry : {"unset", "y2005", "y2200"},
          exp : {"absent", "y1999", "y2010", "y2100", "y2300"}, nbf : {"y2000", "y2003", "y2010", "y2100", "y2180"}]
Year(t) == CASE t = "y1999" -> 1999 [] t = "y2000" -> 2000 [] t = "y2001" -> 2001 [] t = "y2003" -> 2003 [] t = "y2005" -> 2005
             [] t = "y2010" -> 2010 [] t = "y2100" -> 2100 [] t = "y2150" -> 2150 [] t = "y2180" -> 2180 [] t = "y2200" -> 2200
             [] t = "y2300" -> 2300
Now == 2050                           \* any year between 2010 and 2100 gives the same table
DErrors(r) ==
  LET expiry_bound == IF r.earliest_expiry = "unset" THEN Now ELSE Year(r.earliest_expiry)
      issuance_bound == IF r.latest_issuance = "unset" THEN Now ELSE Year(r.latest_issuance) IN
     (IF Year(r.nbf) > issuance_bound THEN {"issuance_date"} ELSE {})
  \cup (IF r.exp # "absent" /\ Year(r.exp) < expiry_bound THEN {"expiration_date"} ELSE {})

\* ------------------------------- both phases: one failing condition in each -------------------------------
XRows == [phase : {"X"}, s_fail : {"nonce", "signature", "scope", "identifier", "kid_fragment", "foreign"},
          u_fail : {"issuance", "expiry", "structure", "subject_holder", "revoked"}, fail_fast : {"FirstError", "AllErrors"}]

RECURSIVE SetToSeq(_)
SetToSeq(S) == IF S = {} THEN <<>> ELSE LET x == CHOOSE x \in S : TRUE IN <<x>> \o SetToSeq(S \ {x})

Evaluate(r) ==
  CASE r.phase = "S" -> [accept |-> SErrors(r) = {}, phase |-> "S", errs |-> SetToSeq(SErrors(r))]
    [] r.phase = "U" -> [accept |-> UErrors(r) = {}, phase |-> "U", errs |-> SetToSeq(UErrors(r))]
    [] r.phase = "C" -> [accept |-> CErrors(r) = {}, phase |-> "C", errs |-> SetToSeq(CErrors(r))]
    [] r.phase = "D" -> [accept |-> DErrors(r) = {}, phase |-> "D", errs |-> SetToSeq(DErrors(r))]
    [] r.phase = "X" -> [accept |-> FALSE, phase |-> "S", errs |-> <<>>]   \* rejected in the signature phase, whatever the unit phase

Init == row \in SRows \cup URows \cup CRows \cup DRows \cup XRows /\ out = Evaluate(row)
Next == UNCHANGED vars
Spec == Init /\ [][Next]_vars

\* accepted in the signature phase only with the right key of a method of a trusted document whose DID is the issuer
SAcceptMeans ==
  (row.phase = "S" /\ out.accept) =>
     LET m == Effective(row) IN
     /\ m # NoMethod /\ m.did \in Trusted(row) /\ KeyOf(m.did, m.frag) = row.signed_with
     /\ row.issuer_claim = m.did /\ row.nonce_hdr = row.nonce_opt
     /\ (row.scope = "none" \/ row.scope \in ScopesOf(m.did, m.frag))
UAcceptMeans ==
  (row.phase = "U" /\ out.accept) =>
     /\ row.issuance <= 0 /\ row.expiry # "-1" /\ row.structure = "ok"
     /\ (row.status = "revoked" => row.status_mode = "SkipAll")

\* however the dates are carried, an accepted token is unexpired and already issued
CAcceptMeans == (row.phase = "C" /\ out.accept) => (row.expiry # "-1" /\ row.issuance <= 0)

Emit == PrintT(<<"CASE", ToJson([row |-> row, out |-> out])>>)
=============================================================================
