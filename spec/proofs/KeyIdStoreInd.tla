--------------------------- MODULE KeyIdStoreInd ---------------------------
(***************************************************************************)
(* C15 (concurrent part), unbounded in the number of operations: the       *)
(* shipped (atomic) key-id store design of KeyIdStore.tla with the plans   *)
(* generalised away -- every thread may call any operation any number of   *)
(* times -- and an INDUCTIVE invariant, discharged by Apalache:             *)
(*     Init => IndInv            and       IndInv /\ Next => IndInv'       *)
(* IndInv implies AtMostOneWinner and MappingIsWinners, so "a second       *)
(* insert for a digest fails and leaves the first mapping intact, also     *)
(* when inserts race" holds for every interleaving of every history, not   *)
(* only for the 3 threads x 5 plans TLC enumerates.                        *)
(***************************************************************************)
EXTENDS Integers, FiniteSets

CONSTANT
  \* @type: Set(Int);
  Threads

VARIABLES
  \* @type: Int;
  map,
  \* @type: Int -> Str;
  st,
  \* @type: Int -> Str;
  op,
  \* @type: Int -> Bool;
  ok,
  \* @type: Int;
  wins,
  \* @type: Int;
  winner

Ops == {"insert", "delete", "get"}
States == {"idle", "called", "linearized"}

CInit == Threads = 1..16

Init == /\ map = 0 /\ wins = 0 /\ winner = 0
        /\ st = [t \in Threads |-> "idle"] /\ op = [t \in Threads |-> "get"] /\ ok = [t \in Threads |-> FALSE]

Call(t) == /\ st[t] = "idle"
           /\ \E o \in Ops : op' = [op EXCEPT ![t] = o]
           /\ st' = [st EXCEPT ![t] = "called"]
           /\ UNCHANGED <<map, ok, wins, winner>>

\* the store's critical section: check and update under one lock
Lin(t) ==
  /\ st[t] = "called"
  /\ st' = [st EXCEPT ![t] = "linearized"]
  /\ UNCHANGED op
  /\ \/ /\ op[t] = "insert" /\ map = 0
        /\ map' = t /\ wins' = wins + 1 /\ winner' = t /\ ok' = [ok EXCEPT ![t] = TRUE]
     \/ /\ op[t] = "insert" /\ map # 0
        /\ ok' = [ok EXCEPT ![t] = FALSE] /\ UNCHANGED <<map, wins, winner>>
     \/ /\ op[t] = "delete" /\ map # 0
        /\ map' = 0 /\ wins' = 0 /\ ok' = [ok EXCEPT ![t] = TRUE] /\ UNCHANGED winner
     \/ /\ op[t] = "delete" /\ map = 0
        /\ ok' = [ok EXCEPT ![t] = FALSE] /\ UNCHANGED <<map, wins, winner>>
     \/ /\ op[t] = "get"
        /\ ok' = [ok EXCEPT ![t] = (map # 0)] /\ UNCHANGED <<map, wins, winner>>

Ret(t) == /\ st[t] = "linearized"
          /\ st' = [st EXCEPT ![t] = "idle"]
          /\ UNCHANGED <<map, op, ok, wins, winner>>

Next == \E t \in Threads : Call(t) \/ Lin(t) \/ Ret(t)

TypeOK == /\ map \in {0} \cup Threads /\ winner \in {0} \cup Threads /\ wins \in 0..1
          /\ st \in [Threads -> States] /\ op \in [Threads -> Ops] /\ ok \in [Threads -> BOOLEAN]

\* the inductive invariant
IndInv == /\ TypeOK
          /\ (map = 0 => wins = 0)
          /\ (map # 0 => (wins = 1 /\ winner = map))

\* what the property asks for
AtMostOneWinner == wins <= 1
MappingIsWinners == (map # 0 /\ wins = 1) => map = winner
Safety == AtMostOneWinner /\ MappingIsWinners

\* start of the induction step: any state satisfying the invariant
IndInit == IndInv
=============================================================================
