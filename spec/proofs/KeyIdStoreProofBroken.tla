-------------------------- MODULE KeyIdStoreProofBroken --------------------------
(***************************************************************************)
(* TLAPS proof that IndInv of KeyIdStoreInd is inductive -- for EVERY set  *)
(* of threads (thread numbers are positive naturals), every history.       *)
(***************************************************************************)
EXTENDS KeyIdStoreIndBroken, TLAPS

vars == <<map, st, op, ok, wins, winner>>
Spec == Init /\ [][Next]_vars

ASSUME ThreadsArePositive == Threads \subseteq Nat \ {0}

LEMMA InitEstablishes == Init => IndInv
  BY ThreadsArePositive DEF Init, IndInv, TypeOK, States, Ops

LEMMA StepPreserves == IndInv /\ [Next]_vars => IndInv'
<1> SUFFICES ASSUME IndInv, [Next]_vars PROVE IndInv'
  OBVIOUS
<1>1. CASE UNCHANGED vars
  BY <1>1 DEF vars, IndInv, TypeOK
<1>2. ASSUME NEW t \in Threads, Call(t) PROVE IndInv'
  BY <1>2, ThreadsArePositive DEF Call, IndInv, TypeOK, States, Ops
<1>3. ASSUME NEW t \in Threads, Lin(t) PROVE IndInv'
  BY <1>3, ThreadsArePositive DEF Lin, IndInv, TypeOK, States, Ops
<1>4. ASSUME NEW t \in Threads, Ret(t) PROVE IndInv'
  BY <1>4, ThreadsArePositive DEF Ret, IndInv, TypeOK, States, Ops
<1>6. ASSUME NEW t \in Threads, Check(t) PROVE IndInv'
  BY <1>6, ThreadsArePositive DEF Check, IndInv, TypeOK, States, Ops
<1>7. ASSUME NEW t \in Threads, Write(t) PROVE IndInv'
  BY <1>7, ThreadsArePositive DEF Write, IndInv, TypeOK, States, Ops
<1>5. QED
  BY <1>1, <1>2, <1>3, <1>4, <1>6, <1>7 DEF Next

THEOREM Invariance == Spec => []IndInv
  BY InitEstablishes, StepPreserves, PTL DEF Spec

THEOREM SafetyHolds == Spec => []Safety
<1>1. IndInv => Safety
  BY DEF IndInv, TypeOK, Safety, AtMostOneWinner, MappingIsWinners
<1>2. QED
  BY <1>1, Invariance, PTL
=============================================================================
