SPECIFICATION Spec
INVARIANTS AcceptMeansBound NothingConcealedShows ReplayNeedsNonce Emit
CHECK_DEADLOCK FALSE
