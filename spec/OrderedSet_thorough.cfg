SPECIFICATION Spec
CONSTANTS
  SampleT = 1
  Keys = {"a", "b", "c", "d"}
  Vals = {0, 1}
  MaxList = 3
VIEW View
INVARIANTS TypeOK KeyUnique
PROPERTIES StepProp
ACTION_CONSTRAINT EmitT
CHECK_DEADLOCK FALSE
