------------------------------ MODULE KeyStore ------------------------------
(***************************************************************************)
(* C15 (sequential part).  The JwkStorage + KeyIdStorage contract of the   *)
(* shipped key stores over operation histories.                            *)
(*                                                                         *)
(* Key ids are opaque and freshly drawn by the store; the model numbers    *)
(* them 1, 2, ... in order of creation (slot k = the k-th id the store     *)
(* handed out).  0 stands for an id the store never issued.  Every slot    *)
(* has its own key pair.  Digests are model constants.                     *)
(***************************************************************************)
EXTENDS Naturals, Sequences, FiniteSets, TLC, Json

CONSTANTS MaxKeys,    \* ids the store may hand out in one history
          Digests     \* method digests (naturals) used with the key-id store

VARIABLES live, dead, kidmap, last
vars == <<live, dead, kidmap, last>>

Slots == 1..MaxKeys
Issued == live \cup dead
NoKid == 0

KeyTypes == {"Ed25519", "BLS12381G2", "bogus"}
Algs == {"EdDSA", "ES256", "bogus"}
\* insert: only a fully private Ed25519 JWK whose alg is the compatible JWS algorithm is storable. "wrong_alg" = a known JWS
\* algorithm that does not fit the key, "unknown_alg" = an alg member that is present but names no JWS algorithm.
JwkClasses == {"private_alg", "public_only", "no_alg", "wrong_alg", "unknown_alg", "wrong_kty", "wrong_crv"}
\* sign: the caller's public JWK selects the algorithm; anything but an EdDSA/Ed25519 public JWK is refused
PubClasses == {"own", "other", "no_alg", "wrong_alg", "unknown_alg", "wrong_kty", "wrong_crv"}

Ok(r)  == [ok |-> TRUE] @@ r
Err    == [ok |-> FALSE]

Apply(L, D, M, op) ==
  LET NextSlot == Cardinality(L \cup D) + 1 IN
  CASE op.name = "generate" ->
         IF op.kt = "Ed25519" /\ op.alg = "EdDSA"
         THEN [res |-> [ok |-> TRUE, slot |-> NextSlot], live |-> L \cup {NextSlot}, dead |-> D, kidmap |-> M]
         ELSE [res |-> Err, live |-> L, dead |-> D, kidmap |-> M]
    [] op.name = "insert" ->
         IF op.jwk = "private_alg"
         THEN [res |-> [ok |-> TRUE, slot |-> NextSlot], live |-> L \cup {NextSlot}, dead |-> D, kidmap |-> M]
         ELSE [res |-> Err, live |-> L, dead |-> D, kidmap |-> M]
    [] op.name = "sign" ->       \* a signature is only ever made with the private key stored under that id
         [res |-> [ok |-> op.slot \in L /\ op.pub \in {"own", "other"}], live |-> L, dead |-> D, kidmap |-> M]
    [] op.name = "delete" ->
         IF op.slot \in L THEN [res |-> [ok |-> TRUE], live |-> L \ {op.slot}, dead |-> D \cup {op.slot}, kidmap |-> M]
         ELSE [res |-> Err, live |-> L, dead |-> D, kidmap |-> M]
    [] op.name = "exists" ->
         [res |-> [ok |-> TRUE, v |-> op.slot \in L], live |-> L, dead |-> D, kidmap |-> M]
    [] op.name = "insert_key_id" ->
         IF M[op.d] = NoKid THEN [res |-> [ok |-> TRUE], live |-> L, dead |-> D, kidmap |-> [M EXCEPT ![op.d] = op.kid]]
         ELSE [res |-> Err, live |-> L, dead |-> D, kidmap |-> M]             \* the first mapping stays intact
    [] op.name = "get_key_id" ->
         IF M[op.d] = NoKid THEN [res |-> Err, live |-> L, dead |-> D, kidmap |-> M]
         ELSE [res |-> [ok |-> TRUE, kid |-> M[op.d]], live |-> L, dead |-> D, kidmap |-> M]
    [] op.name = "delete_key_id" ->
         IF M[op.d] = NoKid THEN [res |-> Err, live |-> L, dead |-> D, kidmap |-> M]
         ELSE [res |-> [ok |-> TRUE], live |-> L, dead |-> D, kidmap |-> [M EXCEPT ![op.d] = NoKid]]

\* key ids used as VALUES in the key-id store: 1..3 are arbitrary distinct key ids
KidVals == 1..3
Ops == [name : {"generate"}, kt : KeyTypes, alg : Algs]
       \cup [name : {"insert"}, jwk : JwkClasses]
       \cup [name : {"sign"}, slot : 0..MaxKeys, pub : PubClasses]
       \cup [name : {"delete", "exists"}, slot : 0..MaxKeys]
       \cup [name : {"insert_key_id"}, d : Digests, kid : KidVals]
       \cup [name : {"get_key_id", "delete_key_id"}, d : Digests]

\* slots that exist at the time of the call (an id can only be named after it was handed out); 0 = never issued
Nameable(op) == ("slot" \in DOMAIN op) => (op.slot = 0 \/ op.slot \in Issued)
\* the model hands out at most MaxKeys ids per history (the real stores have no such bound)
Capacity(op) == ((op.name = "generate" /\ op.kt = "Ed25519" /\ op.alg = "EdDSA") \/ (op.name = "insert" /\ op.jwk = "private_alg"))
                  => Cardinality(Issued) < MaxKeys
\* "other key's public JWK" needs a second live key
Sensible(op) == (op.name = "sign" /\ op.pub = "other") => Cardinality(live \ {op.slot}) >= 1

MapJ(M) == [d \in Digests |-> M[d]]
StateJ(L, D, M) == [live |-> L, dead |-> D, kidmap |-> M]

RECURSIVE SetToSeq(_)
SetToSeq(S) == IF S = {} THEN <<>> ELSE LET x == CHOOSE x \in S : \A y \in S : x <= y IN <<x>> \o SetToSeq(S \ {x})
MapSeq(M) == [i \in 1..Cardinality(Digests) |-> M[SetToSeq(Digests)[i]]]
J(L, D, M) == [live |-> SetToSeq(L), dead |-> SetToSeq(D), kidmap |-> MapSeq(M)]

Init == /\ live = {} /\ dead = {} /\ kidmap = [d \in Digests |-> NoKid]
        /\ last = [pre |-> J(live, dead, kidmap), op |-> [name |-> "init"], res |-> [ok |-> TRUE], post |-> J(live, dead, kidmap)]

Next == \E op \in Ops :
          /\ Nameable(op) /\ Sensible(op) /\ Capacity(op)
          /\ LET r == Apply(live, dead, kidmap, op)
             IN /\ live' = r.live /\ dead' = r.dead /\ kidmap' = r.kidmap
                /\ last' = [pre |-> J(live, dead, kidmap), op |-> op, res |-> r.res, post |-> J(r.live, r.dead, r.kidmap)]

Spec == Init /\ [][Next]_vars

-----------------------------------------------------------------------------
TypeOK == live \subseteq Slots /\ dead \subseteq Slots /\ kidmap \in [Digests -> {NoKid} \cup KidVals]
FreshIds == live \cap dead = {}                   \* an id is never handed out twice, a deleted id never comes back
StepLaws ==
  LET op == last'.op IN
  /\ (op.name \in {"generate", "insert"} /\ last'.res.ok) => last'.res.slot \notin (live \cup dead)
  /\ (op.name \in {"sign", "exists", "delete"} /\ op.slot \notin live) =>
        (IF op.name = "exists" THEN last'.res.v = FALSE ELSE ~last'.res.ok)      \* deleted / never issued ids do nothing
  /\ op.name = "insert_key_id" =>
        /\ last'.res.ok = (kidmap[op.d] = NoKid)
        /\ ~last'.res.ok => kidmap' = kidmap                                       \* the first mapping stays intact
        /\ last'.res.ok => kidmap'[op.d] = op.kid
  /\ ~last'.res.ok => (live' = live /\ dead' = dead /\ kidmap' = kidmap)
StepProp == [][StepLaws]_vars

View == <<live, dead, kidmap>>
EmitT == PrintT(<<"CASE", ToJson(last')>>)
=============================================================================
