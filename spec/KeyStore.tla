------------------------------ MODULE KeyStore ------------------------------
(***************************************************************************)
(* C15 (sequential part).  The JwkStorage + KeyIdStorage contract of the   *)
(* shipped key stores over operation histories.                            *)
(*                                                                         *)
(* Key ids are opaque and freshly drawn by the store; the model numbers    *)
(* them 1, 2, ... in order of creation (slot k = the k-th id the store     *)
(* handed out).  0 stands for an id the store never issued.  Every slot    *)
(* has its own key pair.  Digests are model constants.                     *)
(***************************************************************************)
EXTENDS Naturals, Sequences, FiniteSets, TLC, Json

CONSTANTS MaxKeys,    \* ids the store may hand out in one history
          Digests     \* method digests (naturals) used with the key-id store

VARIABLES live, dead, kidmap, bls, last     \* bls: the slots whose key is a BLS12-381 key (jpt-bbs-plus), never usable by `sign`
vars == <<live, dead, kidmap, bls, last>>

Slots == 1..MaxKeys
Issued == live \cup dead
NoKid == 0

KeyTypes == {"Ed25519", "BLS12381G2", "bogus"}
Algs == {"EdDSA", "ES256", "bogus"}
\* generate_bbs: both BBS ciphersuites make a key; any other proof algorithm (SU-ES256, the MAC family) is refused
BbsAlgs == {"BLS12381_SHA256", "BLS12381_SHAKE256"}
\* sign_bbs / update_signature: the caller's public JWK is the key's own one, the BLS public JWK of ANOTHER live key, or an
\* Ed25519 public JWK
BbsPubClasses == {"own", "other_bls", "ed"}
\* insert: only a fully private Ed25519 JWK whose alg is the compatible JWS algorithm is storable. "wrong_alg" = a known JWS
\* algorithm that does not fit the key, "unknown_alg" = an alg member that is present but names no JWS algorithm.
JwkClasses == {"private_alg", "public_only", "no_alg", "wrong_alg", "unknown_alg", "wrong_kty", "wrong_crv"}
\* sign: the caller's public JWK selects the algorithm; anything but an EdDSA/Ed25519 public JWK is refused
PubClasses == {"own", "other", "no_alg", "wrong_alg", "unknown_alg", "wrong_kty", "wrong_crv"}

Ok(r)  == [ok |-> TRUE] @@ r
Err    == [ok |-> FALSE]

Apply(L, D, M, B, op) ==
  LET NextSlot == Cardinality(L \cup D) + 1 IN
  CASE op.name = "generate" ->
         IF op.kt = "Ed25519" /\ op.alg = "EdDSA"
         THEN [res |-> [ok |-> TRUE, slot |-> NextSlot], live |-> L \cup {NextSlot}, dead |-> D, kidmap |-> M, bls |-> B]
         ELSE [res |-> Err, live |-> L, dead |-> D, kidmap |-> M, bls |-> B]
    [] op.name = "generate_bbs" ->                 \* JwkStorageBbsPlusExt::generate_bbs: a BLS key, held under a fresh id
         IF op.kt = "BLS12381G2" /\ op.alg \in BbsAlgs
         THEN [res |-> [ok |-> TRUE, slot |-> NextSlot], live |-> L \cup {NextSlot}, dead |-> D, kidmap |-> M, bls |-> B \cup {NextSlot}]
         ELSE [res |-> Err, live |-> L, dead |-> D, kidmap |-> M, bls |-> B]
    [] op.name = "insert" ->
         IF op.jwk = "private_alg"
         THEN [res |-> [ok |-> TRUE, slot |-> NextSlot], live |-> L \cup {NextSlot}, dead |-> D, kidmap |-> M, bls |-> B]
         ELSE [res |-> Err, live |-> L, dead |-> D, kidmap |-> M, bls |-> B]
    [] op.name = "sign" ->       \* a signature is only ever made with the private key stored under that id
         [res |-> [ok |-> op.slot \in (L \ B) /\ op.pub \in {"own", "other"}], live |-> L, dead |-> D, kidmap |-> M, bls |-> B]
    [] op.name \in {"sign_bbs", "update_bbs"} ->
         \* JwkStorageBbsPlusExt::sign_bbs / update_signature: only a live BLS key, presented with its own public JWK, makes
         \* (or re-makes) a BBS+ signature; an Ed25519 key never does, whatever BLS public JWK the caller presents
         [res |-> [ok |-> op.slot \in (L \cap B) /\ op.pub = "own"], live |-> L, dead |-> D, kidmap |-> M, bls |-> B]
    [] op.name = "delete" ->
         IF op.slot \in L THEN [res |-> [ok |-> TRUE], live |-> L \ {op.slot}, dead |-> D \cup {op.slot}, kidmap |-> M, bls |-> B]
         ELSE [res |-> Err, live |-> L, dead |-> D, kidmap |-> M, bls |-> B]
    [] op.name = "exists" ->
         [res |-> [ok |-> TRUE, v |-> op.slot \in L], live |-> L, dead |-> D, kidmap |-> M, bls |-> B]
    [] op.name = "insert_key_id" ->
         IF M[op.d] = NoKid THEN [res |-> [ok |-> TRUE], live |-> L, dead |-> D, kidmap |-> [M EXCEPT ![op.d] = op.kid], bls |-> B]
         ELSE [res |-> Err, live |-> L, dead |-> D, kidmap |-> M, bls |-> B]             \* the first mapping stays intact
    [] op.name = "get_key_id" ->
         IF M[op.d] = NoKid THEN [res |-> Err, live |-> L, dead |-> D, kidmap |-> M, bls |-> B]
         ELSE [res |-> [ok |-> TRUE, kid |-> M[op.d]], live |-> L, dead |-> D, kidmap |-> M, bls |-> B]
    [] op.name = "delete_key_id" ->
         IF M[op.d] = NoKid THEN [res |-> Err, live |-> L, dead |-> D, kidmap |-> M, bls |-> B]
         ELSE [res |-> [ok |-> TRUE], live |-> L, dead |-> D, kidmap |-> [M EXCEPT ![op.d] = NoKid], bls |-> B]

\* key ids used as VALUES in the key-id store: 1..3 are arbitrary distinct key ids
KidVals == 1..3
Ops == [name : {"generate"}, kt : KeyTypes, alg : Algs]
       \cup [name : {"generate_bbs"}, kt : {"BLS12381G2", "Ed25519"}, alg : BbsAlgs \cup {"SU_ES256"}]
       \cup [name : {"sign_bbs", "update_bbs"}, slot : 0..MaxKeys, pub : BbsPubClasses]
       \cup [name : {"insert"}, jwk : JwkClasses]
       \cup [name : {"sign"}, slot : 0..MaxKeys, pub : PubClasses]
       \cup [name : {"delete", "exists"}, slot : 0..MaxKeys]
       \cup [name : {"insert_key_id"}, d : Digests, kid : KidVals]
       \cup [name : {"get_key_id", "delete_key_id"}, d : Digests]

\* slots that exist at the time of the call (an id can only be named after it was handed out); 0 = never issued
Nameable(op) == ("slot" \in DOMAIN op) => (op.slot = 0 \/ op.slot \in Issued)
\* the model hands out at most MaxKeys ids per history (the real stores have no such bound)
Capacity(op) == ((op.name = "generate" /\ op.kt = "Ed25519" /\ op.alg = "EdDSA") \/ (op.name = "insert" /\ op.jwk = "private_alg")
                 \/ (op.name = "generate_bbs" /\ op.kt = "BLS12381G2" /\ op.alg \in BbsAlgs))
                  => Cardinality(Issued) < MaxKeys
\* "other key's public JWK" needs a second live key
\* "other key's public JWK" needs a second live Ed25519 key
Sensible(op) == /\ (op.name = "sign" /\ op.pub = "other") => Cardinality((live \ bls) \ {op.slot}) >= 1
                \* another key's BLS public JWK: only offered for ids that are not themselves live BLS keys (with two BLS keys of
                \* different ciphersuites the contract does not say which suite a "borrowed" JWK selects)
                /\ (op.name \in {"sign_bbs", "update_bbs"} /\ op.pub = "other_bls") =>
                      (op.slot \notin (live \cap bls) /\ Cardinality((live \cap bls) \ {op.slot}) >= 1)

MapJ(M) == [d \in Digests |-> M[d]]
StateJ(L, D, M) == [live |-> L, dead |-> D, kidmap |-> M]

RECURSIVE SetToSeq(_)
SetToSeq(S) == IF S = {} THEN <<>> ELSE LET x == CHOOSE x \in S : \A y \in S : x <= y IN <<x>> \o SetToSeq(S \ {x})
MapSeq(M) == [i \in 1..Cardinality(Digests) |-> M[SetToSeq(Digests)[i]]]
J(L, D, M, B) == [live |-> SetToSeq(L), dead |-> SetToSeq(D), kidmap |-> MapSeq(M), bls |-> SetToSeq(B)]

Init == /\ live = {} /\ dead = {} /\ kidmap = [d \in Digests |-> NoKid] /\ bls = {}
        /\ last = [pre |-> J(live, dead, kidmap, bls), op |-> [name |-> "init"], res |-> [ok |-> TRUE], post |-> J(live, dead, kidmap, bls)]

Next == \E op \in Ops :
          /\ Nameable(op) /\ Sensible(op) /\ Capacity(op)
          /\ LET r == Apply(live, dead, kidmap, bls, op)
             IN /\ live' = r.live /\ dead' = r.dead /\ kidmap' = r.kidmap /\ bls' = r.bls
                /\ last' = [pre |-> J(live, dead, kidmap, bls), op |-> op, res |-> r.res, post |-> J(r.live, r.dead, r.kidmap, r.bls)]

Spec == Init /\ [][Next]_vars

-----------------------------------------------------------------------------
TypeOK == live \subseteq Slots /\ dead \subseteq Slots /\ kidmap \in [Digests -> {NoKid} \cup KidVals] /\ bls \subseteq (live \cup dead)
FreshIds == live \cap dead = {}                   \* an id is never handed out twice, a deleted id never comes back
StepLaws ==
  LET op == last'.op IN
  /\ (op.name \in {"generate", "insert", "generate_bbs"} /\ last'.res.ok) => last'.res.slot \notin (live \cup dead)
  /\ (op.name = "sign" /\ op.slot \in bls) => ~last'.res.ok             \* a BLS key never signs through JwkStorage::sign
  /\ (op.name \in {"sign_bbs", "update_bbs"} /\ op.slot \notin (live \cap bls)) => ~last'.res.ok   \* and only a BLS key makes BBS+ signatures
  /\ (op.name \in {"sign", "exists", "delete"} /\ op.slot \notin live) =>
        (IF op.name = "exists" THEN last'.res.v = FALSE ELSE ~last'.res.ok)      \* deleted / never issued ids do nothing
  /\ op.name = "insert_key_id" =>
        /\ last'.res.ok = (kidmap[op.d] = NoKid)
        /\ ~last'.res.ok => kidmap' = kidmap                                       \* the first mapping stays intact
        /\ last'.res.ok => kidmap'[op.d] = op.kid
  /\ ~last'.res.ok => (live' = live /\ dead' = dead /\ kidmap' = kidmap /\ bls' = bls)
StepProp == [][StepLaws]_vars

View == <<live, dead, kidmap, bls>>
EmitT == PrintT(<<"CASE", ToJson(last')>>)
=============================================================================
