SPECIFICATION Spec
CONSTANTS
  SampleT = 1
  N = 8
  OorD = {0, 1, 7, 8, 1000000}
  UpdIdx = {0, 3, 7}
VIEW View
INVARIANTS TypeOK
PROPERTIES StepProp
ACTION_CONSTRAINT EmitT
CHECK_DEADLOCK FALSE
