SPECIFICATION Spec
CONSTANTS
  SampleT = 1
  Keys = {"a", "b", "c"}
  Vals = {0, 1}
  MaxList = 2
VIEW View
INVARIANTS TypeOK NeverEmpty KeyUnique OneIsOne CtorSingletonBare
ACTION_CONSTRAINT EmitT
CHECK_DEADLOCK FALSE
