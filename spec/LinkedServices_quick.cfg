SPECIFICATION Spec
INVARIANTS OnlyOrigins Emit
CHECK_DEADLOCK FALSE
