---------------------------- MODULE KeyStoreTrace ----------------------------
(* Direction V for C15 (sequential): long random histories on one live       *)
(* JwkMemStore + KeyIdMemstore; every result and the observable state after  *)
(* each call must agree with KeyStore!Apply.                                 *)
EXTENDS KeyStore, IOUtils

Rec == ndJsonDeserialize(IOEnv.TRACE)

VARIABLE l
tvars == <<live, dead, kidmap, bls, last, l>>

TraceInit == /\ l = 1 /\ live = {} /\ dead = {} /\ kidmap = [d \in Digests |-> NoKid] /\ bls = {}
             /\ last = [pre |-> J(live, dead, kidmap, bls), op |-> [name |-> "init"], res |-> [ok |-> TRUE], post |-> J(live, dead, kidmap, bls)]

TraceNext ==
  /\ l <= Len(Rec)
  /\ l' = l + 1
  /\ LET e == Rec[l] IN
     IF e.op.name = "reset"
     THEN /\ live' = {} /\ dead' = {} /\ kidmap' = [d \in Digests |-> NoKid] /\ bls' = {}
          /\ last' = [pre |-> J({}, {}, kidmap', {}), op |-> e.op, res |-> [ok |-> TRUE], post |-> J({}, {}, kidmap', {})]
     ELSE LET r == Apply(live, dead, kidmap, bls, e.op)
              \* the contract says what a store may accept, not what it must: a store may refuse a generate / insert /
              \* sign the reference accepts, provided nothing changes (named action Refuse)
              refuse == e.op.name \in {"generate", "insert", "sign", "generate_bbs", "sign_bbs", "update_bbs"} /\ "ok" \in DOMAIN e.res /\ ~e.res.ok /\ e.post = J(live, dead, kidmap, bls)
          IN \/ /\ r.res = e.res
                /\ J(r.live, r.dead, r.kidmap, r.bls) = e.post
                /\ live' = r.live /\ dead' = r.dead /\ kidmap' = r.kidmap /\ bls' = r.bls
                /\ last' = [pre |-> J(live, dead, kidmap, bls), op |-> e.op, res |-> r.res, post |-> e.post]
             \/ /\ refuse
                /\ UNCHANGED <<live, dead, kidmap, bls>>
                /\ last' = [pre |-> J(live, dead, kidmap, bls), op |-> e.op, res |-> [ok |-> FALSE], post |-> e.post]

TraceSpec == TraceInit /\ [][TraceNext]_tvars
TraceStepProp == [][last'.op.name = "reset" \/ StepLaws]_tvars

TraceAccepted ==
  LET n == TLCGet("stats").diameter - 1 IN
  IF n = Len(Rec) THEN PrintT("TRACE-ACCEPTED events=" \o ToString(n))
  ELSE PrintT("TRACE-REJECTED matched=" \o ToString(n) \o " of " \o ToString(Len(Rec))) /\ FALSE
=============================================================================
