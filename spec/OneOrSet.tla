----------------------------- MODULE OneOrSet -----------------------------
(***************************************************************************)
(* C19 (part 2).  identity_core::common::OneOrSet<T>: a non-empty,         *)
(* key-unique collection whose JSON shape is a bare value (One) or an      *)
(* array (Set).  o.tag = "novalue" models "no value constructed yet".      *)
(* viaDe is a ghost: TRUE iff the current value came out of Deserialize    *)
(* (the only way to hold a Set of exactly one element).                    *)
(***************************************************************************)
EXTENDS Naturals, Sequences, FiniteSets, TLC, Json

CONSTANTS Keys, Vals, MaxList

CONSTANT SampleT
VARIABLES o, viaDe, last
vars == <<o, viaDe, last>>

Elem == [k : Keys, v : Vals]
HasKey(q, k) == \E i \in 1..Len(q) : q[i].k = k
NoDupKeys(q) == \A i, j \in 1..Len(q) : q[i].k = q[j].k => i = j

RECURSIVE Dedup(_, _)
Dedup(list, acc) ==
  IF list = <<>> THEN acc
  ELSE Dedup(Tail(list), IF HasKey(acc, Head(list).k) THEN acc ELSE Append(acc, Head(list)))

NoValue == [tag |-> "novalue", items |-> <<>>]
One(e) == [tag |-> "one", items |-> <<e>>]
Set(q) == [tag |-> "set", items |-> q]
\* new_set / map normalisation: a set of one becomes One
Norm(q) == IF Len(q) = 1 THEN One(q[1]) ELSE Set(q)

Fail == "fail"
MapSeq(f, q) == [i \in 1..Len(q) |-> [k |-> f[q[i].k], v |-> q[i].v]]

Ok(post, de)  == [res |-> [ok |-> TRUE], post |-> post, de |-> de]
Refuse(x, de) == [res |-> [ok |-> FALSE], post |-> x, de |-> de]

Apply(x, de, op) ==
  CASE op.name \in {"new_one", "from"} -> Ok(One(op.e), FALSE)
    [] op.name = "try_from_vec" ->
         IF ~NoDupKeys(op.list) \/ op.list = <<>> THEN Refuse(x, de) ELSE Ok(Norm(op.list), FALSE)
    [] op.name = "new_set" ->
         LET q == Dedup(op.list, <<>>) IN IF q = <<>> THEN Refuse(x, de) ELSE Ok(Norm(q), FALSE)
    [] op.name = "de" ->
         IF op.shape = "bare" THEN Ok(One(op.json), TRUE)
         ELSE IF op.json = <<>> \/ ~NoDupKeys(op.json) THEN Refuse(x, de) ELSE Ok(Set(op.json), TRUE)
    [] op.name = "append" ->
         IF HasKey(x.items, op.e.k) THEN Refuse(x, de) ELSE Ok(Set(Append(x.items, op.e)), de)
    [] op.name = "contains" -> [res |-> [ok |-> HasKey(x.items, op.key)], post |-> x, de |-> de]
    [] op.name = "map" ->
         IF x.tag = "one" THEN Ok(One(MapSeq(op.f, x.items)[1]), FALSE)
         ELSE Ok(Norm(Dedup(MapSeq(op.f, x.items), <<>>)), FALSE)
    [] op.name = "try_map" ->
         IF \E i \in 1..Len(x.items) : op.f[x.items[i].k] = Fail THEN Refuse(x, de)
         ELSE IF x.tag = "one" THEN Ok(One(MapSeq(op.f, x.items)[1]), FALSE)
         ELSE Ok(Norm(Dedup(MapSeq(op.f, x.items), <<>>)), FALSE)
    [] op.name = "serde" -> [res |-> [ok |-> TRUE], post |-> x, de |-> de]   \* De(Ser(x)) = x

Lists == UNION {[1..n -> Elem] : n \in 0..MaxList}

Ctors == [name : {"new_one", "from"}, e : Elem]
         \cup [name : {"try_from_vec", "new_set"}, list : Lists]
         \cup [name : {"de"}, shape : {"bare"}, json : Elem]
         \cup [name : {"de"}, shape : {"array"}, json : Lists]
Methods == [name : {"append"}, e : Elem]
           \cup [name : {"contains"}, key : Keys]
           \cup [name : {"map"}, f : [Keys -> Keys]]
           \cup [name : {"try_map"}, f : [Keys -> Keys \cup {Fail}]]
           \cup [name : {"serde"}]

Enabled(x, op) == op \in Ctors \/ x.tag # "novalue"

Init == o = NoValue /\ viaDe = FALSE
        /\ last = [m |-> "oos", pre |-> NoValue, op |-> [name |-> "init"], res |-> [ok |-> TRUE], post |-> NoValue]

Next == \E op \in Ctors \cup Methods :
          /\ Enabled(o, op)
          /\ LET r == Apply(o, viaDe, op)
             IN /\ o' = r.post /\ viaDe' = r.de
                /\ last' = [m |-> "oos", pre |-> o, op |-> op, res |-> r.res, post |-> r.post]

Spec == Init /\ [][Next]_vars

-----------------------------------------------------------------------------
TypeOK == o.tag \in {"novalue", "one", "set"} /\ o.items \in Seq(Elem)

NeverEmpty == o.tag # "novalue" => Len(o.items) >= 1
KeyUnique  == NoDupKeys(o.items)
OneIsOne   == o.tag = "one" => Len(o.items) = 1
\* a singleton built through the constructors serialises as a bare value
CtorSingletonBare == (o.tag = "set" /\ Len(o.items) = 1) => viaDe

View == <<o, viaDe>>
\* emit every transition (SampleT = 1) or a random 1/SampleT of them (all are model-checked either way)
EmitT == RandomElement(1..SampleT) # 1 \/ PrintT(<<"CASE", ToJson(last')>>)
=============================================================================
