--------------------------- MODULE LinkedServices ---------------------------
(***************************************************************************)
(* Beyond the list: the two typed service wrappers that accompany domain   *)
(* linkage -- LinkedDomainService (DIF well-known DID configuration) and   *)
(* LinkedVerifiablePresentationService (DIF linked VP).                    *)
(*                                                                         *)
(* A generic DID-document service is accepted as a                         *)
(*   LinkedDomains service  ONLY IF its type is exactly that one type and  *)
(*     its endpoint is one URL, or a map with an `origins` list, and every *)
(*     URL is an https origin (no path, query or fragment);                *)
(*   LinkedVerifiablePresentation service ONLY IF its type is exactly that *)
(*     one type and its endpoint is one URL or a set of URLs (not a map).  *)
(* Whatever is accepted hands back exactly the URLs of the endpoint, in    *)
(* order, and serialises back to the service it was made from.  The        *)
(* constructors `new` obey the same rules.                                 *)
(***************************************************************************)
EXTENDS Naturals, Sequences, FiniteSets, TLC, Json

VARIABLES row, out
vars == <<row, out>>

Kinds == {"linked_domains", "linked_vp"}
TypeLists == {"exact", "other", "exact_then_other", "other_then_exact"}
UrlClasses == {"https_origin", "https_origin_slash", "http_origin", "with_path", "with_query", "with_fragment", "with_port"}
UrlLists == {<<u>> : u \in UrlClasses} \cup {<<u, v>> : u \in {"https_origin", "with_port"}, v \in UrlClasses}
Endpoints == [shape : {"one"}, urls : {<<u>> : u \in UrlClasses}]
             \cup [shape : {"set"}, urls : UrlLists]
             \cup [shape : {"map_origins", "map_origins_and_more"}, urls : UrlLists \cup {<<>>}]
             \cup [shape : {"map_other_key", "map_empty"}, urls : {<<>>}]

Rows == [kind : Kinds, via : {"try_from_service", "from_json"}, types : TypeLists, ep : Endpoints]
\* the constructors take a URL list only
NewRows == [kind : Kinds, via : {"new"}, urls : UrlLists]

OriginOk(u) == u \in {"https_origin", "https_origin_slash", "with_port"}
AllOrigins(us) == \A i \in 1..Len(us) : OriginOk(us[i])

Accept(r) ==
  IF r.via = "new"
  THEN (r.kind = "linked_vp" \/ AllOrigins(r.urls))
  ELSE /\ r.types = "exact"
       /\ IF r.kind = "linked_domains"
          THEN \/ (r.ep.shape = "one" /\ AllOrigins(r.ep.urls))
               \/ (r.ep.shape \in {"map_origins", "map_origins_and_more"} /\ AllOrigins(r.ep.urls))
          ELSE r.ep.shape \in {"one", "set"}

Evaluate(r) == [accept |-> Accept(r)]

Init == row \in Rows \cup NewRows /\ out = Evaluate(row)
Next == UNCHANGED vars
Spec == Init /\ [][Next]_vars

\* a linked-domains service never carries anything but https origins
OnlyOrigins == (out.accept /\ row.kind = "linked_domains") =>
                  (IF row.via = "new" THEN AllOrigins(row.urls) ELSE AllOrigins(row.ep.urls))

Emit == PrintT(<<"CASE", ToJson([row |-> row, out |-> out])>>)
=============================================================================
