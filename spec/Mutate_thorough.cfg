SPECIFICATION Spec
CONSTANTS
  Symbols = {"1", "g", "G", ".", "-", ":", "%", "/", "?", "#", "!", "+", "S", "T", "{", "N", "Q", "B", "Z"}
  JsonValues = {"null", "0", "-1", "1e400", "18446744073709551616", "empty_string", "empty_array", "empty_object", "true", "long_string", "nan_like", "control_string"}
INVARIANTS Totality Emit
CHECK_DEADLOCK FALSE
