SPECIFICATION Spec
INVARIANTS SAcceptMeans UAcceptMeans CAcceptMeans Emit
CHECK_DEADLOCK FALSE
