SPECIFICATION Spec
INVARIANTS SAcceptMeans UAcceptMeans Emit
CHECK_DEADLOCK FALSE
