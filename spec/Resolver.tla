------------------------------ MODULE Resolver ------------------------------
(***************************************************************************)
(* C20.  Resolver::resolve / resolve_multiple.                             *)
(*                                                                         *)
(* resolve_multiple is modelled the way it runs: Start removes duplicates   *)
(* and creates one future per distinct DID; a DID whose method has a        *)
(* handler invokes that handler (logged) and stays pending until the        *)
(* environment completes it -- Complete(d) is enabled for ANY pending d,    *)
(* which is where TLC explores every completion order; a DID without a      *)
(* handler is an immediate error.  The collecting stream stops at the       *)
(* first error it sees.                                                     *)
(***************************************************************************)
EXTENDS Naturals, Sequences, FiniteSets, TLC, Json

\* ReplaceOnReattach: `handlers` is the table as it stands when resolution starts.  Attaching a handler for a method that
\* already has one replaces it; the binding builds every table twice -- directly, and with a stale handler attached first
\* for every method (tagged so that an invocation of it shows up as a call with h # d.m and violates DispatchByMethod).
CONSTANTS Methods,      \* all DID method names
          Dids,         \* set of [m : method, n : number]
          MaxInput      \* longest input list

VARIABLES handlers,    \* set of methods with a handler attached
          input,       \* the list given to resolve_multiple
          fails,       \* DIDs whose handler answers with an error
          phase,       \* "start" | "running" | "done"
          pending,     \* DIDs whose handler future has not completed
          calls,       \* handler invocations: set of [h : method, d : DID]
          got,         \* DIDs resolved so far
          result,      \* "none" | "ok" | "err"
          order        \* the completion order so far (observation, for replay)
vars == <<handlers, input, fails, phase, pending, calls, got, result, order>>

Distinct(sq) == {sq[i] : i \in 1..Len(sq)}
Supported(d) == d.m \in handlers

Init == /\ handlers \in SUBSET Methods
        /\ input \in UNION {[1..k -> Dids] : k \in 0..MaxInput}
        /\ fails \in SUBSET Distinct(input)
        /\ phase = "start" /\ pending = {} /\ calls = {} /\ got = {} /\ result = "none" /\ order = <<>>

\* first poll: every distinct DID is dispatched on its method
Start ==
  /\ phase = "start"
  /\ LET ds == Distinct(input) IN
     IF \E d \in ds : ~Supported(d)
     THEN \* an unsupported method is an immediate error; the stream stops, the other futures are dropped.
          \* Handlers of other DIDs may or may not have been invoked before that -- any subset is allowed.
          /\ \E S \in SUBSET {d \in ds : Supported(d)} : calls' = {[h |-> d.m, d |-> d] : d \in S}
          /\ phase' = "done" /\ result' = "err" /\ UNCHANGED <<pending, got>>
     ELSE /\ calls' = {[h |-> d.m, d |-> d] : d \in ds}
          /\ pending' = ds
          /\ IF ds = {} THEN phase' = "done" /\ result' = "ok" ELSE phase' = "running" /\ UNCHANGED result
          /\ UNCHANGED got
  /\ UNCHANGED <<handlers, input, fails, order>>

\* the environment completes the handler future of any pending DID
Complete(d) ==
  /\ phase = "running" /\ d \in pending
  /\ order' = Append(order, d)
  /\ pending' = pending \ {d}
  /\ IF d \in fails
     THEN phase' = "done" /\ result' = "err" /\ UNCHANGED got          \* first error ends the collection
     ELSE /\ got' = got \cup {d}
          /\ IF pending' = {} THEN phase' = "done" /\ result' = "ok" ELSE UNCHANGED <<phase, result>>
  /\ UNCHANGED <<handlers, input, fails, calls>>

Next == Start \/ \E d \in Dids : Complete(d)
Spec == Init /\ [][Next]_vars

-----------------------------------------------------------------------------
(* Properties *)

\* exactly the handler registered for the DID's method is invoked, with that DID, at most once per distinct DID
DispatchByMethod == \A c \in calls : c.h = c.d.m /\ c.d \in Distinct(input) /\ c.h \in handlers
NoCallForUnsupported == \A c \in calls : Supported(c.d)
\* the outcome is a function of the inputs only -- whatever the completion order
Expected == IF \A d \in Distinct(input) : Supported(d) /\ d \notin fails THEN "ok" ELSE "err"
OrderIndependent == phase = "done" => result = Expected
OneEntryPerDistinct == (phase = "done" /\ result = "ok") => got = Distinct(input)

Done == phase = "done"
RECURSIVE SetToSeq(_)
SetToSeq(S) == IF S = {} THEN <<>> ELSE LET x == CHOOSE x \in S : TRUE IN <<x>> \o SetToSeq(S \ {x})
Emit == ~Done \/ PrintT(<<"CASE", ToJson([handlers |-> SetToSeq(handlers), input |-> input, fails |-> SetToSeq(fails),
                                          order |-> order, result |-> result, keys |-> SetToSeq(got),
                                          unsupported |-> \E d \in Distinct(input) : ~Supported(d)])>>)
=============================================================================
