SPECIFICATION Spec
INVARIANTS RoundTrip CarriedOnce NoSilentResolution Emit
CHECK_DEADLOCK FALSE
