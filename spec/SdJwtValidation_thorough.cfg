SPECIFICATION Spec
INVARIANTS FullyBound Emit
CHECK_DEADLOCK FALSE
