SPECIFICATION Spec
CONSTANTS
  Sigma <- Sigma18
  MaxLen = 4
  Mids <- MidsC
  Paths <- PathsC
  Queries <- QueriesC
  Frags <- FragsC
  Pfx <- PfxC
  Bases <- BasesC
  LongLen = 0
  SigmaLong <- SigmaLongC
  SegLen = 2
INVARIANTS Recompose CleanParts PlainDid Emit
CHECK_DEADLOCK FALSE
