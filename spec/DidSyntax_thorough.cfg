SPECIFICATION Spec
CONSTANTS
  Sigma <- Sigma18
  MaxLen = 4
  Mids <- MidsC
  Paths <- PathsC
  Queries <- QueriesC
  Frags <- FragsC
  Pfx <- PfxC
  Bases <- BasesC
  LongLen = 5
  SigmaLong <- SigmaLongC
  SegLen = 3
INVARIANTS Recompose CleanParts PlainDid Emit
CHECK_DEADLOCK FALSE
