SPECIFICATION Spec
CONSTANTS
  Sigma <- Sigma18
  MaxLen = 5
  Mids <- MidsC
  Paths <- PathsC
  Queries <- QueriesC
  Frags <- FragsC
  Pfx <- PfxC
  Bases <- BasesC
  SegLen = 3
INVARIANTS Recompose CleanParts PlainDid Emit
CHECK_DEADLOCK FALSE
