-------------------------- MODULE JoseHeaderPolicy --------------------------
(***************************************************************************)
(* C11.  The JOSE header policy for JWS (RFC 7515 section 4.1.11 "crit",   *)
(* RFC 7797 "b64", RFC 7515 section 7.2.1 disjointness), written from the  *)
(* RFCs / the property text -- NOT from validate_jws_headers.  A row is a  *)
(* pair of headers; Violations(row) names every rule it breaks; a header   *)
(* set is acceptable iff it breaks none.                                   *)
(*                                                                         *)
(* A header is a record of parameter values; "absent" marks a missing      *)
(* parameter.  crit values are sequences of names.                         *)
(***************************************************************************)
EXTENDS Naturals, Sequences, FiniteSets, TLC, Json

VARIABLES row, out
vars == <<row, out>>

Absent == "absent"
B64Vals == {Absent, "true", "false"}
CritVals == {<<Absent>>, <<>>, <<"b64">>, <<"b64", "b64">>, <<"alg">>, <<"exp">>, <<"x-unknown">>,
             \* several names: every one of them has to pass every rule
             <<"b64", "exp">>, <<"exp", "b64">>, <<"b64", "x-unknown">>, <<"b64", "alg">>}
\* a registered parameter (other than kid, which has its own flag) that is present in BOTH headers
SharedNames == {"none", "nonce", "url", "typ", "cty", "x5t#S256", "jku"}
Registered == {"alg", "jku", "jwk", "kid", "x5u", "x5c", "x5t", "x5t#S256", "typ", "cty", "crit"}
Implemented == {"b64"}

\* a header: present?, alg?, b64, crit, kid?, custom x-c?, custom exp?
\* xa: a second custom parameter ("a-trace", sorting before "x-c"), only explored next to x-c
Header == [present : BOOLEAN, alg : BOOLEAN, b64 : B64Vals, crit : CritVals, kid : BOOLEAN, xc : BOOLEAN, xa : BOOLEAN, exp : BOOLEAN]
Empty(h) == ~h.alg /\ h.b64 = Absent /\ h.crit = <<Absent>> /\ ~h.kid /\ ~h.xc /\ ~h.xa /\ ~h.exp
WellFormed(h) == (h.present \/ Empty(h)) /\ (h.xa => h.xc)

HasCrit(h) == h.crit # <<Absent>>
Names(h) == (IF h.alg THEN {"alg"} ELSE {}) \cup (IF h.b64 # Absent THEN {"b64"} ELSE {}) \cup (IF HasCrit(h) THEN {"crit"} ELSE {})
            \cup (IF h.kid THEN {"kid"} ELSE {}) \cup (IF h.xc THEN {"x-c"} ELSE {}) \cup (IF h.xa THEN {"a-trace"} ELSE {})
            \cup (IF h.exp THEN {"exp"} ELSE {})
CritNames(h) == IF HasCrit(h) THEN {h.crit[i] : i \in 1..Len(h.crit)} ELSE {}

Violations(p, u, shared) ==
     (IF shared # "none" THEN {"R8_not_disjoint"} ELSE {})
  \cup (IF HasCrit(u) THEN {"R1_crit_outside_protected"} ELSE {})
  \cup (IF p.crit = <<>> \/ u.crit = <<>> THEN {"R2_crit_empty"} ELSE {})
  \cup (IF CritNames(p) \cap Registered # {} THEN {"R3_crit_names_registered"} ELSE {})
  \cup (IF (CritNames(p) \ Registered) \ Implemented # {} THEN {"R4_crit_names_unimplemented"} ELSE {})
  \cup (IF CritNames(p) \ (Names(p) \cup Names(u)) # {} THEN {"R5_crit_names_absent_parameter"} ELSE {})
  \cup (IF u.b64 # Absent THEN {"R6_b64_outside_protected"} ELSE {})
  \cup (IF p.b64 # Absent /\ "b64" \notin CritNames(p) THEN {"R7_b64_not_in_crit"} ELSE {})
  \cup (IF Names(p) \cap Names(u) # {} THEN {"R8_not_disjoint"} ELSE {})
  \cup (IF ~p.present /\ ~u.present THEN {"R0_no_header"} ELSE {})

EffectiveB64(p) == p.b64 # "false"          \* default true

Rows == {r \in [kind : {"headers"}, p : Header, u : Header, shared : SharedNames] : WellFormed(r.p) /\ WellFormed(r.u)
            \* a shared registered name is explored on the slice of header pairs that are otherwise plain
            /\ (r.shared # "none" => (r.p.present /\ r.u.present /\ r.p.crit \in {<<Absent>>, <<"b64">>} /\ r.u.crit = <<Absent>>
                                       /\ ~r.p.xc /\ ~r.u.xc /\ ~r.p.exp /\ r.u.b64 = Absent))
            \* the second custom name is explored on header pairs without crit / b64 complications
            /\ ((r.p.xa \/ r.u.xa) => (r.p.crit = <<Absent>> /\ r.u.crit = <<Absent>> /\ r.p.b64 = Absent /\ r.u.b64 = Absent /\ ~r.p.exp))
            \* the unprotected header only needs the shapes that matter: any crit is already a violation
            /\ r.u.crit \in {<<Absent>>, <<"b64">>, <<>>} /\ ~r.u.exp}

Evaluate(r) ==
  LET v == Violations(r.p, r.u, r.shared) IN
  [violations |-> v, accept |-> v = {},
   \* verification additionally needs an algorithm in the integrity-protected header (R10)
   verify |-> v = {} /\ r.p.alg,
   b64 |-> EffectiveB64(r.p)]

Init == row \in Rows /\ out = Evaluate(row)
Next == UNCHANGED vars
Spec == Init /\ [][Next]_vars

\* consequences that must hold for every acceptable header set (sanity of the table; non-vacuity is checked by counting)
AcceptedShape ==
  out.accept =>
    /\ ~HasCrit(row.u) /\ row.u.b64 = Absent
    /\ (HasCrit(row.p) => (CritNames(row.p) = {"b64"} /\ row.p.b64 # Absent))
    /\ (row.p.b64 # Absent => HasCrit(row.p))
    /\ ~(row.p.alg /\ row.u.alg) /\ row.shared = "none"

RECURSIVE SetToSeq(_)
SetToSeq(S) == IF S = {} THEN <<>> ELSE LET x == CHOOSE x \in S : TRUE IN <<x>> \o SetToSeq(S \ {x})
Emit == PrintT(<<"CASE", ToJson([row |-> row, out |-> [violations |-> SetToSeq(out.violations), accept |-> out.accept,
                                                         verify |-> out.verify, b64 |-> out.b64]])>>)
=============================================================================
