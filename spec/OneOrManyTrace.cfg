SPECIFICATION TraceSpec
CONSTANTS
  SampleT = 1
  Keys = {"a", "b", "c"}
  Vals = {0, 1}
  MaxList = 3
  MaxLen = 8
INVARIANTS OneIsOne CtorSingletonBare
POSTCONDITION TraceAccepted
CHECK_DEADLOCK FALSE
