SPECIFICATION Spec
INVARIANTS EverySchemaHolds Emit
CHECK_DEADLOCK FALSE
