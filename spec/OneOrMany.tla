----------------------------- MODULE OneOrMany -----------------------------
(***************************************************************************)
(* C19 (part 3).  identity_core::common::OneOrMany<T>: One(T) | Many(Vec). *)
(***************************************************************************)
EXTENDS Naturals, Sequences, FiniteSets, TLC, Json

CONSTANTS Keys, Vals, MaxList, MaxLen
CONSTANT SampleT

VARIABLES o, viaDe, last
vars == <<o, viaDe, last>>

Elem == [k : Keys, v : Vals]
One(e)  == [tag |-> "one", items |-> <<e>>]
Many(q) == [tag |-> "many", items |-> q]
Norm(q) == IF Len(q) = 1 THEN One(q[1]) ELSE Many(q)

Ok(post, de) == [res |-> [ok |-> TRUE], post |-> post, de |-> de]

Apply(x, de, op) ==
  CASE op.name = "default"  -> Ok(Many(<<>>), FALSE)
    [] op.name = "from"     -> Ok(One(op.e), FALSE)
    [] op.name \in {"from_vec", "collect"} -> Ok(Norm(op.list), FALSE)
    [] op.name = "push" ->
         IF x.tag = "one" THEN Ok(Many(Append(x.items, op.e)), de)
         ELSE IF x.items = <<>> THEN Ok(One(op.e), FALSE)
         ELSE Ok(Many(Append(x.items, op.e)), de)
    [] op.name = "contains" ->
         [res |-> [ok |-> \E i \in 1..Len(x.items) : x.items[i] = op.e], post |-> x, de |-> de]
    [] op.name = "de" ->
         IF op.shape = "bare" THEN Ok(One(op.json), TRUE) ELSE Ok(Many(op.json), TRUE)
    [] op.name = "serde" -> [res |-> [ok |-> TRUE], post |-> x, de |-> de]

Lists == UNION {[1..n -> Elem] : n \in 0..MaxList}

Ops == [name : {"default", "serde"}]
       \cup [name : {"from", "push", "contains"}, e : Elem]
       \cup [name : {"from_vec", "collect"}, list : Lists]
       \cup [name : {"de"}, shape : {"bare"}, json : Elem]
       \cup [name : {"de"}, shape : {"array"}, json : Lists]

Init == o = Many(<<>>) /\ viaDe = FALSE
        /\ last = [m |-> "oom", pre |-> o, op |-> [name |-> "init"], res |-> [ok |-> TRUE], post |-> o]

Next == \E op \in Ops :
          /\ (op.name = "push" => Len(o.items) < MaxLen)
          /\ LET r == Apply(o, viaDe, op)
             IN /\ o' = r.post /\ viaDe' = r.de
                /\ last' = [m |-> "oom", pre |-> o, op |-> op, res |-> r.res, post |-> r.post]

Spec == Init /\ [][Next]_vars

TypeOK == o.tag \in {"one", "many"} /\ o.items \in Seq(Elem)
OneIsOne == o.tag = "one" => Len(o.items) = 1
CtorSingletonBare == (o.tag = "many" /\ Len(o.items) = 1) => viaDe

View == <<o, viaDe>>
\* emit every transition (SampleT = 1) or a random 1/SampleT of them (all are model-checked either way)
EmitT == RandomElement(1..SampleT) # 1 \/ PrintT(<<"CASE", ToJson(last')>>)
=============================================================================
