-------------------------- MODULE RevocationBitmap --------------------------
(***************************************************************************)
(* C06.  RevocationBitmap2022 as a set of index CLASSES held in a DID      *)
(* document service.  Each class is a set of concrete u32 indices chosen   *)
(* by the harness (one small index; a dense run of 100 000 crossing a      *)
(* roaring container boundary; 3 000 sparse pseudo-random values; the      *)
(* container-boundary values 65535/65536/... and u32::MAX), so that the    *)
(* 16 member sets drive stored, fixed- and dynamic-Huffman zlib streams    *)
(* and array / bitmap / run containers.                                    *)
(***************************************************************************)
EXTENDS Naturals, Sequences, FiniteSets, TLC, Json

CONSTANTS Cls          \* set of class numbers (naturals)

VARIABLES members, last
vars == <<members, last>>

Modes == {"Strict", "SkipUnsupported", "SkipAll"}
Kinds == {"ok", "noquery", "mismatch", "noservice", "unsupported", "nostatus", "otherissuer"}

\* JSON carries sets as sorted sequences
RECURSIVE SetToSeq(_)
SetToSeq(S) == IF S = {} THEN <<>> ELSE LET x == CHOOSE x \in S : \A y \in S : x <= y IN <<x>> \o SetToSeq(S \ {x})
ToSet(sq) == {sq[i] : i \in 1..Len(sq)}

\* JwtCredentialValidatorUtils::check_status, in the order the conditions are examined
Check(m, c, mode, kind) ==
  IF mode = "SkipAll" \/ kind = "nostatus" THEN "ok"
  ELSE IF kind = "unsupported" THEN (IF mode = "SkipUnsupported" THEN "ok" ELSE "invalid")
  ELSE IF kind = "mismatch" THEN "invalid"
  ELSE IF kind = "otherissuer" THEN "issuer"
  ELSE IF kind = "noservice" THEN "lookup"
  ELSE IF c \in m THEN "revoked" ELSE "ok"

Apply(m, op) ==
  CASE op.name = "revoke"   -> [res |-> [ok |-> TRUE], post |-> m \cup ToSet(op.s)]
    [] op.name = "unrevoke" -> [res |-> [ok |-> TRUE], post |-> m \ ToSet(op.s)]
    [] op.name = "encdec"   -> [res |-> [ok |-> TRUE], post |-> m]     \* try_from(&to_service(x)) = x
    [] op.name = "legacy"   -> [res |-> [ok |-> TRUE], post |-> m]     \* the double-encoded endpoint still decodes
    [] op.name = "query"    -> [res |-> [ok |-> TRUE, v |-> op.c \in m], post |-> m]
    [] op.name = "check"    -> [res |-> [ok |-> TRUE, v |-> Check(m, op.c, op.mode, op.kind)], post |-> m]

Ops == [name : {"revoke", "unrevoke"}, s : {SetToSeq(S) : S \in SUBSET Cls}]
       \cup [name : {"encdec", "legacy"}]
       \cup [name : {"query"}, c : Cls]
       \cup [name : {"check"}, c : Cls, mode : Modes, kind : Kinds]

Init == members = {} /\ last = [pre |-> <<>>, op |-> [name |-> "init"], res |-> [ok |-> TRUE], post |-> <<>>]
Next == \E op \in Ops :
          LET r == Apply(members, op)
          IN /\ members' = r.post
             /\ last' = [pre |-> SetToSeq(members), op |-> op, res |-> r.res, post |-> SetToSeq(r.post)]
Spec == Init /\ [][Next]_vars

-----------------------------------------------------------------------------
TypeOK == members \subseteq Cls

StepLaws ==
  LET op == last'.op IN
  /\ op.name = "revoke"   => members' = members \cup ToSet(op.s)      \* exactly the requested classes change
  /\ op.name = "unrevoke" => members' = members \ ToSet(op.s)
  /\ op.name \notin {"revoke", "unrevoke"} => members' = members
  /\ op.name = "query" => last'.res.v = (op.c \in members)
  \* a credential pointing at the service is reported revoked exactly when its index is a member
  /\ (op.name = "check" /\ op.kind \in {"ok", "noquery"} /\ op.mode # "SkipAll") =>
        (last'.res.v = "revoked") = (op.c \in members)
  /\ (op.name = "check") => (last'.res.v = "revoked" => op.c \in members)
StepProp == [][StepLaws]_vars

View == members
EmitT == PrintT(<<"CASE", ToJson(last')>>)
=============================================================================
