------------------------------ MODULE Document ------------------------------
(***************************************************************************)
(* C04.  identity_document::CoreDocument as an abstract set of entries.    *)
(*                                                                         *)
(* Ids are DID URLs <<did, fragment, query>>.  Equality of ids (the key of *)
(* the ordered sets) is equality of the triple; a resolution QUERY         *)
(* <<did or "", fragment>> matches an id when the DID agrees (if given)    *)
(* and the fragment agrees -- the URL query part is ignored               *)
(* (utils/did_url_query.rs).                                               *)
(*                                                                         *)
(*   vm   general-purpose methods                Seq(Id)                   *)
(*   rel  relationship -> entries [id, emb]       emb: embedded | reference*)
(*   svc  services                               Seq(Id)                   *)
(*                                                                         *)
(* The actions are transcribed from core_document.rs (same guards, same    *)
(* scan order, OrderedSet::append/remove semantics).  RelOrder is the scan *)
(* order of the relationship sets (authentication, assertionMethod,        *)
(* keyAgreement, capabilityDelegation, capabilityInvocation); the harness  *)
(* maps the model's relationships onto every order-preserving choice of    *)
(* real ones.                                                              *)
(*                                                                         *)
(* GuardDangling = FALSE is the behaviour of insert_method before the      *)
(* repair: the guard only consults resolve_method, which stops at the      *)
(* first matching relationship entry and returns nothing when that is a    *)
(* dangling reference -- hiding the reference itself and any method with   *)
(* the same DID+fragment behind it.  TRUE is the repaired guard (ids are   *)
(* also compared directly).                                                *)
(***************************************************************************)
EXTENDS Naturals, Sequences, FiniteSets, TLC, Json

CONSTANTS Ids,            \* set of <<did, frag, query>>
          RelOrder,       \* sequence of relationship names, in scan order
          MaxInit,        \* initial documents have at most this many entries
          MaxLoad,        \* documents offered to the deserialisation gate have at most this many entries
          GuardDangling,  \* BOOLEAN, see above
          SampleT,        \* emit every transition (1) or a random 1/SampleT of them
          SampleS         \* emit every state's resolution table (1) or a random 1/SampleS of them

VARIABLES doc, last
vars == <<doc, last>>

Rels == {RelOrder[i] : i \in 1..Len(RelOrder)}
Scopes == {"vm"} \cup Rels
Entry == [id : Ids, emb : BOOLEAN]

FullQ(id) == <<id[1], id[2]>>
Queries == {FullQ(id) : id \in Ids} \cup {<<"", id[2]>> : id \in Ids}

Matches(q, id) == (q[1] = "" \/ q[1] = id[1]) /\ q[2] = id[2]

\* index of the first element satisfying P, 0 if none
FirstIdx(sq, P(_)) ==
  IF \E i \in 1..Len(sq) : P(sq[i])
  THEN CHOOSE i \in 1..Len(sq) : P(sq[i]) /\ \A j \in 1..(i-1) : ~P(sq[j])
  ELSE 0

RemoveAt(sq, i) == SubSeq(sq, 1, i-1) \o SubSeq(sq, i+1, Len(sq))

\* OrderedSet::append on a set keyed by id
AppendId(sq, id) == IF \E i \in 1..Len(sq) : sq[i] = id THEN sq ELSE Append(sq, id)
AppendEntry(sq, e) == IF \E i \in 1..Len(sq) : sq[i].id = e.id THEN sq ELSE Append(sq, e)
\* OrderedSet::remove by key
RemoveId(sq, id) == LET k == FirstIdx(sq, LAMBDA x : x = id) IN IF k = 0 THEN sq ELSE RemoveAt(sq, k)
RemoveEntry(sq, id) == LET k == FirstIdx(sq, LAMBDA x : x.id = id) IN IF k = 0 THEN sq ELSE RemoveAt(sq, k)
HasEntry(sq, id) == \E i \in 1..Len(sq) : sq[i].id = id

-----------------------------------------------------------------------------
(* Resolution (resolve_method / resolve_method_inner / resolve_service) *)

NoneR == [loc |-> "none", idx |-> 0]
At(loc, idx) == [loc |-> loc, idx |-> idx]

QVm(d, q) == FirstIdx(d.vm, LAMBDA x : Matches(q, x))

ResolveRef(d, r, k) ==
  LET e == d.rel[r][k] IN
  IF e.emb THEN At(r, k)
  ELSE LET j == QVm(d, FullQ(e.id)) IN IF j = 0 THEN NoneR ELSE At("vm", j)

InRel(d, r, q) == FirstIdx(d.rel[r], LAMBDA e : Matches(q, e.id))

Resolve(d, q, scope) ==
  IF scope = "vm" THEN (LET j == QVm(d, q) IN IF j = 0 THEN NoneR ELSE At("vm", j))
  ELSE IF scope \in Rels THEN (LET k == InRel(d, scope, q) IN IF k = 0 THEN NoneR ELSE ResolveRef(d, scope, k))
  ELSE \* no scope: first relationship (in scan order) holding a match, else the general-purpose methods
    LET hits == {i \in 1..Len(RelOrder) : InRel(d, RelOrder[i], q) # 0} IN
    IF hits = {} THEN (LET j == QVm(d, q) IN IF j = 0 THEN NoneR ELSE At("vm", j))
    ELSE LET i == CHOOSE i \in hits : \A i2 \in hits : i <= i2
             r == RelOrder[i]
         IN ResolveRef(d, r, InRel(d, r, q))

ResolveService(d, q) == FirstIdx(d.svc, LAMBDA x : Matches(q, x))

-----------------------------------------------------------------------------
(* Validity = CoreDocumentData::check_id_constraints + key-uniqueness of every set *)

RefIds(d)     == {id \in Ids : \E r \in Rels : \E k \in 1..Len(d.rel[r]) : d.rel[r][k].id = id /\ ~d.rel[r][k].emb}
EmbIds(d)     == {id \in Ids : \E r \in Rels : \E k \in 1..Len(d.rel[r]) : d.rel[r][k].id = id /\ d.rel[r][k].emb}
VmIds(d)      == {d.vm[i] : i \in 1..Len(d.vm)}
SvcIds(d)     == {d.svc[i] : i \in 1..Len(d.svc)}
EmbCount(d, id) == Cardinality({<<r, k>> \in Rels \X (1..Cardinality(Ids)) : k <= Len(d.rel[r]) /\ d.rel[r][k].id = id /\ d.rel[r][k].emb})

SetsKeyUnique(d) ==
  /\ \A i, j \in 1..Len(d.vm) : d.vm[i] = d.vm[j] => i = j
  /\ \A i, j \in 1..Len(d.svc) : d.svc[i] = d.svc[j] => i = j
  /\ \A r \in Rels : \A i, j \in 1..Len(d.rel[r]) : d.rel[r][i].id = d.rel[r][j].id => i = j

\* the three clauses of the property
NoDupMethodId(d)         == \A id \in Ids : EmbCount(d, id) + (IF id \in VmIds(d) THEN 1 ELSE 0) <= 1
NoRefAliasesEmbedded(d)  == RefIds(d) \cap EmbIds(d) = {}
NoServiceIdIsMethodId(d) == SvcIds(d) \cap (VmIds(d) \cup EmbIds(d) \cup RefIds(d)) = {}

Valid(d) == SetsKeyUnique(d) /\ NoDupMethodId(d) /\ NoRefAliasesEmbedded(d) /\ NoServiceIdIsMethodId(d)

-----------------------------------------------------------------------------
(* Mutations *)

Ok(d)        == [res |-> [ok |-> TRUE], post |-> d]
OkV(d, v)    == [res |-> [ok |-> TRUE, v |-> v], post |-> d]
Refuse(d, e) == [res |-> [ok |-> FALSE, err |-> e], post |-> d]

InsertMethod(d, id, scope) ==
  IF Resolve(d, FullQ(id), "none") # NoneR \/ ResolveService(d, FullQ(id)) # 0 THEN Refuse(d, "exists")
  ELSE IF GuardDangling /\ (id \in VmIds(d) \cup EmbIds(d) \/ (scope # "vm" /\ id \in RefIds(d))) THEN Refuse(d, "exists")
  ELSE IF scope = "vm" THEN Ok([d EXCEPT !.vm = AppendId(@, id)])
  ELSE Ok([d EXCEPT !.rel[scope] = AppendEntry(@, [id |-> id, emb |-> TRUE])])

\* remove_method_and_scope: the entry keyed by id is removed from EVERY relationship first; the first embedded one
\* (scan order) is the answer; otherwise the general-purpose method, if any.
RemoveMethod(d, id) ==
  LET embIn == {i \in 1..Len(RelOrder) : \E k \in 1..Len(d.rel[RelOrder[i]]) :
                   d.rel[RelOrder[i]][k].id = id /\ d.rel[RelOrder[i]][k].emb}
      stripped == [d EXCEPT !.rel = [r \in Rels |-> RemoveEntry(d.rel[r], id)]]
  IN IF embIn # {}
     THEN [res |-> [ok |-> TRUE, scope |-> RelOrder[CHOOSE i \in embIn : \A i2 \in embIn : i <= i2]], post |-> stripped]
     ELSE IF id \in VmIds(d)
          THEN [res |-> [ok |-> TRUE, scope |-> "vm"], post |-> [stripped EXCEPT !.vm = RemoveId(@, id)]]
          ELSE [res |-> [ok |-> FALSE, err |-> "notfound"], post |-> stripped]   \* dangling references are dropped (documented)

InsertService(d, id) ==
  IF id \in (VmIds(d) \cup EmbIds(d) \cup RefIds(d)) \/ id \in SvcIds(d) THEN Refuse(d, "exists")
  ELSE Ok([d EXCEPT !.svc = Append(@, id)])

RemoveService(d, id) ==
  IF id \in SvcIds(d) THEN Ok([d EXCEPT !.svc = RemoveId(@, id)]) ELSE Refuse(d, "notfound")

Attach(d, q, r) ==
  LET j == QVm(d, q) IN
  IF j = 0 THEN Refuse(d, IF Resolve(d, q, "none") # NoneR THEN "embedded" ELSE "notfound")
  ELSE LET id == d.vm[j] IN
       OkV([d EXCEPT !.rel[r] = AppendEntry(@, [id |-> id, emb |-> FALSE])], ~HasEntry(d.rel[r], id))

Detach(d, q, r) ==
  LET j == QVm(d, q) IN
  IF j = 0 THEN Refuse(d, IF Resolve(d, q, "none") # NoneR THEN "embedded" ELSE "notfound")
  ELSE LET id == d.vm[j] IN
       OkV([d EXCEPT !.rel[r] = RemoveEntry(@, id)], HasEntry(d.rel[r], id))

Apply(d, op) ==
  CASE op.name = "insert_method"  -> InsertMethod(d, op.id, op.scope)
    [] op.name = "remove_method"  -> RemoveMethod(d, op.id)
    [] op.name = "insert_service" -> InsertService(d, op.id)
    [] op.name = "remove_service" -> RemoveService(d, op.id)
    [] op.name = "attach"         -> Attach(d, op.q, op.r)
    [] op.name = "detach"         -> Detach(d, op.q, op.r)

Ops == [name : {"insert_method"}, id : Ids, scope : Scopes]
       \cup [name : {"remove_method", "insert_service", "remove_service"}, id : Ids]
       \cup [name : {"attach", "detach"}, q : Queries, r : Rels]

-----------------------------------------------------------------------------
(* Initial documents: every VALID document with at most MaxInit entries (built or deserialised starting points,
   including dangling and foreign references). *)

SeqsUpTo(S, n) == UNION {[1..k -> S] : k \in 0..n}
Size(d) == Len(d.vm) + Len(d.svc) + (LET RECURSIVE Sum(_) Sum(i) == IF i = 0 THEN 0 ELSE Len(d.rel[RelOrder[i]]) + Sum(i-1) IN Sum(Len(RelOrder)))

InitDocs == {d \in [vm : SeqsUpTo(Ids, MaxInit), rel : [Rels -> SeqsUpTo(Entry, MaxInit)], svc : SeqsUpTo(Ids, MaxInit)] :
               Size(d) <= MaxInit /\ Valid(d)}

Empty == [vm |-> <<>>, rel |-> [r \in Rels |-> <<>>], svc |-> <<>>]

Init == /\ doc \in InitDocs
        /\ last = [kind |-> "init", pre |-> doc, op |-> [name |-> "init"], res |-> [ok |-> TRUE], post |-> doc]

Next == \E op \in Ops :
          LET r == Apply(doc, op)
          IN /\ doc' = r.post
             /\ last' = [kind |-> "step", pre |-> doc, op |-> op, res |-> r.res, post |-> r.post]

Spec == Init /\ [][Next]_vars

-----------------------------------------------------------------------------
(* Properties *)

DocValid == Valid(doc)                      \* implies the three clauses below and that JSON deserialisation accepts it
P_NoDupMethodId == NoDupMethodId(doc)
P_NoRefAliasesEmbedded == NoRefAliasesEmbedded(doc)
P_NoServiceIdIsMethodId == NoServiceIdIsMethodId(doc)

\* a refused operation leaves the document unchanged (remove_method's documented removal of dangling references is
\* the one named deviation: it answers "not found" yet drops references to the absent method)
RefusalLaw ==
  (~last'.res.ok /\ ~(last'.op.name = "remove_method")) => doc' = doc
RefusalProp == [][RefusalLaw]_vars

\* resolution table of a state, emitted once per distinct document for direction R
QScopes == Scopes \cup {"none"}
Table(d) == [x \in Queries \X QScopes |-> Resolve(d, x[1], x[2])]
TableSeq(d) ==
  LET S == Queries \X QScopes
      RECURSIVE Ser(_)
      Ser(T) == IF T = {} THEN <<>> ELSE LET x == CHOOSE x \in T : TRUE
                                          IN <<[q |-> x[1], scope |-> x[2], r |-> Resolve(d, x[1], x[2])]>> \o Ser(T \ {x})
  IN Ser(S)
SvcSeq(d) ==
  LET RECURSIVE Ser(_)
      Ser(T) == IF T = {} THEN <<>> ELSE LET x == CHOOSE x \in T : TRUE
                                          IN <<[q |-> x, idx |-> ResolveService(d, x)]>> \o Ser(T \ {x})
  IN Ser(Queries)

-----------------------------------------------------------------------------
(* The deserialisation / builder gate: EVERY small document -- valid or not -- is offered to from_json and to the builder;
   it must be accepted only if it is valid (two methods with one id, a reference aliasing an embedded method and a service
   id equal to a method id are refused whatever DID the colliding id is under). *)
\* (built field by field within the remaining budget: filtering the full product took TLC more than 15 minutes for n = 3.
\* An operator WITH a parameter on purpose: TLC evaluates constant-level definitions without parameters at start-up, for every
\* specification that extends this module -- with the 12 ids x 5 relationships of the trace configuration that never ends.)
RelSize(r) == LET RECURSIVE Sum(_) Sum(i) == IF i = 0 THEN 0 ELSE Len(r[RelOrder[i]]) + Sum(i-1) IN Sum(Len(RelOrder))
LoadDocs(n) ==
  UNION { UNION { { [vm |-> v, rel |-> r, svc |-> s] :
                      r \in {rr \in [Rels -> SeqsUpTo(Entry, n - Len(v) - Len(s))] : RelSize(rr) <= n - Len(v) - Len(s)} } :
                  s \in SeqsUpTo(Ids, n - Len(v)) } :
          v \in SeqsUpTo(Ids, n) }
LoadInit == /\ doc \in LoadDocs(MaxLoad)
            /\ last = [kind |-> "load", pre |-> doc, op |-> [name |-> "load"], res |-> [ok |-> Valid(doc)], post |-> doc]
LoadSpec == LoadInit /\ [][UNCHANGED vars]_vars
EmitLoad == PrintT(<<"CASE", ToJson([kind |-> "load", pre |-> doc, valid |-> Valid(doc)])>>)

View == doc
EmitT == RandomElement(1..SampleT) # 1 \/ PrintT(<<"CASE", ToJson(last')>>)
EmitS == RandomElement(1..SampleS) # 1 \/ PrintT(<<"CASE", ToJson([kind |-> "state", doc |-> doc, methods |-> TableSeq(doc), services |-> SvcSeq(doc)])>>)
=============================================================================
