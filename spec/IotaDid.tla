------------------------------ MODULE IotaDid ------------------------------
(***************************************************************************)
(* C17.  IOTA DIDs: did:iota:[<network>:]0x<64 hex>.  Decision table over  *)
(* method spelling, network name (sequence of character classes), tag      *)
(* shape, surplus segments, trailing URL parts and entry point.  The       *)
(* judging relation is one-sided like the property: whatever is accepted   *)
(* must be case-insensitively valid and be HELD in lowercase normal form   *)
(* (default network omitted), and equality must coincide with equality of  *)
(* (network, tag bytes).                                                   *)
(***************************************************************************)
EXTENDS Naturals, Sequences, FiniteSets, TLC, Json

CONSTANTS Methods,     \* spellings of the method name
          NetSeqs,     \* network names as sequences over {"a" lower, "A" upper, "1" digit, "-" other, "i" the text iota,
                       \* "I" the text iota with upper-case letters}; <<"absent">> = no network segment
          TagLens, TagHex, TagPfx,
          Suffixes, Entries,
          Pairs        \* 1 = emit equality rows for all pairs of canonical values

VARIABLES row, out
vars == <<row, out>>

Lower(c) == IF c = "A" THEN "a" ELSE IF c = "I" THEN "i" ELSE c
LowerSeq(sq) == [i \in 1..Len(sq) |-> Lower(sq[i])]
Absent == <<"absent">>
\* the default network is spelled by the four classes a a a a in the harness ("iota"); it is marked by its own symbol
IsDefault(sq) == LowerSeq(sq) = <<"i">>          \* "i" = the literal text iota (any case)
\* "i"/"I" stand for the four letters of "iota": a name may CONTAIN that text ("iota1", "xiota") without being the default
RECURSIVE RealLen(_)
RealLen(sq) == IF sq = <<>> THEN 0 ELSE (IF Head(sq) \in {"i", "I"} THEN 4 ELSE 1) + RealLen(Tail(sq))
NetValidCI(sq) == sq = Absent \/ (RealLen(sq) \in 1..6 /\ \A i \in 1..Len(sq) : Lower(sq[i]) \in {"a", "1", "i"})
TagValidCI(t) == t.len = 64 /\ t.hex # "nonhex" /\ t.pfx \in {"0x", "0X"}

ValidCI(r) == /\ r.method \in {"iota", "IOTA", "Iota"}
              /\ NetValidCI(r.net) /\ TagValidCI(r.tag)
              /\ ~r.extra /\ r.suffix = "none"

\* canonical network: "default" when absent or spelled iota; else the lower-cased sequence
CanonNet(sq) == IF sq = Absent \/ IsDefault(sq) THEN <<"default">> ELSE LowerSeq(sq)

Evaluate(r) == IF ValidCI(r) THEN [valid |-> TRUE, net |-> CanonNet(r.net)] ELSE [valid |-> FALSE]

Tags == [len : TagLens, hex : TagHex, pfx : TagPfx]
\* `extra` inserts one surplus segment; without a network segment it would simply BE the network, so that
\* combination is left out
Rows == {r \in [kind : {"parse"}, method : Methods, net : NetSeqs, tag : Tags, extra : BOOLEAN, suffix : Suffixes, entry : Entries] :
           ~(r.extra /\ r.net = Absent)}

\* IotaDID::new(bytes, network): the name must be a valid network name exactly as given (no case folding here)
NetValidExact(sq) == RealLen(sq) \in 1..6 /\ \A i \in 1..Len(sq) : sq[i] \in {"a", "1", "i"}
NewRows == [kind : {"new"}, net : NetSeqs \ {Absent}, via : {"try_from", "serde"}, bytes : {"zeros", "ones", "mixed"}]
EvaluateNew(r) == IF NetValidExact(r.net) THEN [valid |-> TRUE, net |-> CanonNet(r.net)] ELSE [valid |-> FALSE]

Init == \/ row \in Rows /\ out = Evaluate(row)
        \/ row \in NewRows /\ out = EvaluateNew(row)
Next == UNCHANGED vars
Spec == Init /\ [][Next]_vars

\* sanity of the table itself: the normal form never shows an upper-case class or the default network
CanonIsLower == out.valid => (out.net # <<"i">> /\ \A i \in 1..Len(out.net) : out.net[i] \notin {"A", "I"})
Emit == PrintT(<<"CASE", ToJson([row |-> row, out |-> out])>>)
=============================================================================
