------------------------- MODULE CredentialStructure -------------------------
(***************************************************************************)
(* Beyond the list: what "structurally well formed" means for the data     *)
(* model types (VC Data Model 1.1), as a decision table bound to           *)
(* Credential / Presentation ::check_structure and to the builders.        *)
(*   - the FIRST context is the base context (others may follow);          *)
(*   - the types contain the base type (anywhere);                         *)
(*   - a credential has at least one subject and no subject is empty       *)
(*     (neither id nor properties); a presentation has no such rule.       *)
(* The builders produce only well-formed values; deserialisation does not  *)
(* check (check_structure is the gate the validators apply).               *)
(***************************************************************************)
EXTENDS Naturals, Sequences, FiniteSets, TLC, Json

VARIABLES row, out
vars == <<row, out>>

Lists == {<<>>, <<"base">>, <<"other">>, <<"base", "other">>, <<"other", "base">>, <<"other", "other2">>}
Subjects == {"none", "id_only", "props_only", "id_and_props", "empty",
             "two_ok", "ok_then_empty", "empty_then_ok", "empty_list"}

Rows == [kind : {"credential"}, route : {"builder", "json"}, contexts : Lists, types : Lists, subjects : Subjects]
        \cup [kind : {"presentation"}, route : {"builder", "json"}, contexts : Lists, types : Lists, subjects : {"none"}]

Has(sq, x) == \E i \in 1..Len(sq) : sq[i] = x
SubjectsOk(s) == s \in {"id_only", "props_only", "id_and_props", "two_ok"}

WellFormed(r) ==
  /\ Len(r.contexts) >= 1 /\ r.contexts[1] = "base"
  /\ Has(r.types, "base")
  /\ (r.kind = "credential" => SubjectsOk(r.subjects))

Evaluate(r) == [well_formed |-> WellFormed(r)]

Init == row \in Rows /\ out = Evaluate(row)
Next == UNCHANGED vars
Spec == Init /\ [][Next]_vars

BaseFirst == out.well_formed => row.contexts[1] = "base"
Emit == PrintT(<<"CASE", ToJson([row |-> row, out |-> out])>>)
=============================================================================
