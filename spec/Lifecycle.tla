------------------------------ MODULE Lifecycle ------------------------------
(***************************************************************************)
(* Composition of the subsystems of C04 / C09 / C15 / C08 / C02 / C06:     *)
(* one issuer over time.                                                   *)
(*                                                                         *)
(*   Generate(f, sc)   JwkDocumentExt::generate_method  (document + key    *)
(*                     store + key-id store)                               *)
(*   Purge(f)          JwkDocumentExt::purge_method                        *)
(*   Attach/Detach     attach/detach_method_relationship (assertionMethod) *)
(*   Issue(f, i)       create_credential_jwt with method f for a           *)
(*                     credential whose status entry is bitmap index i     *)
(*   Revoke/Unrevoke   revoke_credentials / unrevoke_credentials           *)
(*   Validate(t, sc)   JwtCredentialValidator::validate of an EARLIER      *)
(*                     token t against the document AS IT IS NOW           *)
(*   Rebase            (IotaDocument) the document is packed into state    *)
(*                     metadata and unpacked under ANOTHER DID -- what     *)
(*                     happens when a document created under the           *)
(*                     placeholder DID is published (C14 + MethodDigest):  *)
(*                     every self-reference moves to the new DID, the      *)
(*                     stores are untouched                                *)
(*                                                                         *)
(* Every generated key has a generation number (a fresh key each time), a  *)
(* token remembers the fragment and the generation it was signed with.     *)
(* What the composition must guarantee, whatever the history:              *)
(*   - a token validates only while the method named by its kid is in the  *)
(*     document with the SAME key: purging or rotating (purge + generate   *)
(*     under the same fragment) invalidates every token of the old key,    *)
(*     and re-generating never resurrects them;                            *)
(*   - a configured scope is honoured against the relationships as they    *)
(*     are now (attach/detach take effect immediately);                    *)
(*   - revocation of an index is visible to every later validation and     *)
(*     un-revocation restores exactly that index;                          *)
(*   - signing needs the method AND its key: after a purge nothing can be  *)
(*     issued under that fragment until it is generated again;             *)
(*   - after a rebase every method keeps its key (the key-id store is      *)
(*     keyed by fragment and key material, not by the DID): issuing and    *)
(*     purging go on working, while tokens issued under the other DID no   *)
(*     longer validate against this document (and do again if it moves     *)
(*     back).                                                              *)
(***************************************************************************)
EXTENDS Naturals, Sequences, FiniteSets, TLC, Json

CONSTANTS Frags,      \* fragments of verification methods
          Idx,        \* revocation indices (classes; the harness maps them to concrete u32 indices)
          MaxGen,     \* at most this many keys are ever generated
          MaxTokens,  \* at most this many credentials are issued
          Depth,      \* behaviours are emitted at this length
          WithRebase  \* BOOLEAN: include the Rebase action (IotaDocument only)

VARIABLES meth,      \* [Frags -> [gen : 0..MaxGen, scope : {"none","vm","emb"}, attached : BOOLEAN]]   gen = 0: absent
          nextGen,
          revoked,   \* SUBSET Idx
          tokens,    \* sequence of [f, gen, i, e]
          epoch,     \* which of its two DIDs the document has now (0 / 1)
          hist       \* sequence of [op, res]  (observation only)
vars == <<meth, nextGen, revoked, tokens, epoch, hist>>

Absent == [gen |-> 0, scope |-> "none", attached |-> FALSE]

\* is method f usable under the assertionMethod relationship right now?
InAssertion(m) == m.gen # 0 /\ (m.scope = "emb" \/ m.attached)
\* is it a general purpose method (resolvable with scope VerificationMethod)?
InVm(m) == m.gen # 0 /\ m.scope = "vm"

Ok(x) == [ok |-> TRUE] @@ x
Err(k) == [ok |-> FALSE, err |-> k]

Record(op, res) == hist' = Append(hist, [op |-> op, res |-> res])

Init == /\ meth = [f \in Frags |-> Absent] /\ nextGen = 1 /\ revoked = {} /\ tokens = <<>> /\ epoch = 0 /\ hist = <<>>

Generate(f, sc) ==
  /\ nextGen <= MaxGen
  /\ IF meth[f].gen = 0
     THEN /\ meth' = [meth EXCEPT ![f] = [gen |-> nextGen, scope |-> sc, attached |-> FALSE]]
          /\ nextGen' = nextGen + 1
          /\ Record([name |-> "generate", f |-> f, scope |-> sc], [ok |-> TRUE])
     ELSE /\ UNCHANGED <<meth, nextGen>>
          /\ Record([name |-> "generate", f |-> f, scope |-> sc], Err("exists"))
  /\ UNCHANGED <<revoked, tokens, epoch>>

Purge(f) ==
  /\ IF meth[f].gen # 0
     THEN meth' = [meth EXCEPT ![f] = Absent] /\ Record([name |-> "purge", f |-> f], [ok |-> TRUE])
     ELSE UNCHANGED meth /\ Record([name |-> "purge", f |-> f], Err("not_found"))
  /\ UNCHANGED <<nextGen, revoked, tokens, epoch>>

\* attach_method_relationship(assertionMethod): only general purpose methods can be attached; Ok(false) if already attached
Attach(f) ==
  /\ LET m == meth[f] IN
     IF m.gen = 0 THEN UNCHANGED meth /\ Record([name |-> "attach", f |-> f], Err("not_found"))
     ELSE IF m.scope = "emb" THEN UNCHANGED meth /\ Record([name |-> "attach", f |-> f], Err("embedded"))
     ELSE /\ meth' = [meth EXCEPT ![f].attached = TRUE]
          /\ Record([name |-> "attach", f |-> f], [ok |-> TRUE, changed |-> ~m.attached])
  /\ UNCHANGED <<nextGen, revoked, tokens, epoch>>

Detach(f) ==
  /\ LET m == meth[f] IN
     IF m.gen = 0 THEN UNCHANGED meth /\ Record([name |-> "detach", f |-> f], Err("not_found"))
     ELSE IF m.scope = "emb" THEN UNCHANGED meth /\ Record([name |-> "detach", f |-> f], Err("embedded"))
     ELSE /\ meth' = [meth EXCEPT ![f].attached = FALSE]
          /\ Record([name |-> "detach", f |-> f], [ok |-> TRUE, changed |-> m.attached])
  /\ UNCHANGED <<nextGen, revoked, tokens, epoch>>

Issue(f, i) ==
  /\ Len(tokens) < MaxTokens
  /\ IF meth[f].gen # 0
     THEN /\ tokens' = Append(tokens, [f |-> f, gen |-> meth[f].gen, i |-> i, e |-> epoch])
          /\ Record([name |-> "issue", f |-> f, i |-> i], [ok |-> TRUE, token |-> Len(tokens) + 1])
     ELSE /\ UNCHANGED tokens /\ Record([name |-> "issue", f |-> f, i |-> i], Err("method_not_found"))
  /\ UNCHANGED <<meth, nextGen, revoked, epoch>>

Revoke(i)   == revoked' = revoked \cup {i} /\ Record([name |-> "revoke", i |-> i], [ok |-> TRUE]) /\ UNCHANGED <<meth, nextGen, tokens, epoch>>
Unrevoke(i) == revoked' = revoked \ {i}    /\ Record([name |-> "unrevoke", i |-> i], [ok |-> TRUE]) /\ UNCHANGED <<meth, nextGen, tokens, epoch>>

\* the verdict of validating token number k against the document as it is now
Verdict(t, sc) ==
  LET m == meth[t.f] IN
  IF t.e # epoch THEN Err("document_mismatch")        \* the token names a method of another DID
  ELSE IF m.gen = 0 THEN Err("method_lookup")
  ELSE IF sc = "assertionMethod" /\ ~InAssertion(m) THEN Err("method_lookup")
  ELSE IF sc = "vm" /\ ~InVm(m) THEN Err("method_lookup")
  ELSE IF m.gen # t.gen THEN Err("signature")
  ELSE IF t.i \in revoked THEN Err("revoked")
  ELSE [ok |-> TRUE]

Validate(k, sc) ==
  /\ k \in 1..Len(tokens)
  /\ Record([name |-> "validate", token |-> k, scope |-> sc], Verdict(tokens[k], sc))
  /\ UNCHANGED <<meth, nextGen, revoked, tokens, epoch>>

Rebase ==
  /\ WithRebase
  /\ epoch' = 1 - epoch
  /\ Record([name |-> "rebase", to |-> 1 - epoch], [ok |-> TRUE])
  /\ UNCHANGED <<meth, nextGen, revoked, tokens>>

Next ==
  /\ Len(hist) < Depth
  /\ \/ \E f \in Frags, sc \in {"vm", "emb"} : Generate(f, sc)
     \/ \E f \in Frags : Purge(f) \/ Attach(f) \/ Detach(f)
     \/ \E f \in Frags, i \in Idx : Issue(f, i)
     \/ \E i \in Idx : Revoke(i) \/ Unrevoke(i)
     \/ \E k \in 1..MaxTokens, sc \in {"none", "assertionMethod", "vm"} : Validate(k, sc)
     \/ Rebase

Spec == Init /\ [][Next]_vars

-----------------------------------------------------------------------------
TypeOK == /\ nextGen \in 1..(MaxGen + 1) /\ revoked \subseteq Idx /\ Len(tokens) <= MaxTokens
          /\ \A f \in Frags : meth[f].gen \in 0..MaxGen

\* keys are never reused: two present methods never share a generation, and no present method has a future generation
FreshKeys == /\ \A f, g \in Frags : (f # g /\ meth[f].gen # 0) => meth[f].gen # meth[g].gen
             /\ \A f \in Frags : meth[f].gen < nextGen

\* the composition law, stated on the last recorded validation: accepted => same key still there, in scope, not revoked
AcceptedMeansLive ==
  (hist # <<>> /\ hist[Len(hist)].op.name = "validate" /\ hist[Len(hist)].res.ok) =>
     LET t == tokens[hist[Len(hist)].op.token]  m == meth[t.f] IN
     /\ m.gen = t.gen /\ t.i \notin revoked /\ t.e = epoch
     /\ (hist[Len(hist)].op.scope = "assertionMethod" => InAssertion(m))

\* a purged key never comes back: every token whose generation is not the current one of its fragment is dead for good
\* (action property: once Verdict is not ok because of the generation, it stays so)
DeadStaysDead ==
  [][\A k \in 1..Len(tokens) : (meth[tokens[k].f].gen # tokens[k].gen) => (meth'[tokens[k].f].gen # tokens[k].gen)]_vars

\* exhaustive path enumeration keeps only steps that do something or decide something (refused mutations change nothing and are
\* covered by the per-subsystem specs); simulation keeps a fifth of them
LastE == hist'[Len(hist')]
Effective == LastE.res.ok \/ LastE.op.name = "validate"
EffectiveMostly == Effective \/ RandomElement(1..5) = 1

View == <<meth, nextGen, revoked, tokens, epoch, Len(hist)>>
Emit == Len(hist) < Depth \/ PrintT(<<"CASE", ToJson([ops |-> hist])>>)
=============================================================================
