SPECIFICATION Spec
INVARIANTS RoundTrip RewritesOnlySelf ForeignUntouched NoPlaceholderLeft Emit
CHECK_DEADLOCK FALSE
