SPECIFICATION Spec
CONSTANTS
  SampleT = 24
  N = 16
  OorD = {0, 8}
  UpdIdx = {0, 9}
VIEW View
INVARIANTS TypeOK
PROPERTIES StepProp
ACTION_CONSTRAINT EmitT
CHECK_DEADLOCK FALSE
