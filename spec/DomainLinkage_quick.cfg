SPECIFICATION Spec
INVARIANTS AcceptMeansLinked OneStatementPerDid Emit
CHECK_DEADLOCK FALSE
