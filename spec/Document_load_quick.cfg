SPECIFICATION LoadSpec
CONSTANTS
  Ids <- Ids3
  RelOrder <- Rel2
  MaxLoad = 2
  MaxInit = 1
  SampleT = 1
  SampleS = 1
  GuardDangling = TRUE
INVARIANTS EmitLoad
CHECK_DEADLOCK FALSE
