//! vh_sh — the C15 drivers of the main harness (../harness/src/c15.rs, shared source) over `StrongholdStorage`.
//!
//!   vh_sh replay C15 <cases.ndjson> <report.json>
//!   vh_sh record C15.seq|C15.race <seed> <n> <trace.ndjson>
//!
//! Snapshot files go to $VH_SH_DIR (set by the plan to a directory under /verif/work, removed after the run).
#[path = "../../harness/src/c15.rs"]
mod c15;
#[path = "../../harness/src/util.rs"]
mod util;

use identity_stronghold::StrongholdStorage;
use iota_sdk::client::secret::stronghold::StrongholdSecretManager;
use iota_sdk::client::Password;
use std::sync::atomic::AtomicU64;
use std::sync::atomic::Ordering;
use std::sync::OnceLock;
use util::*;

static COUNTER: AtomicU64 = AtomicU64::new(0);
static RT: OnceLock<tokio::runtime::Runtime> = OnceLock::new();

fn rt() -> &'static tokio::runtime::Runtime {
  RT.get_or_init(|| tokio::runtime::Builder::new_multi_thread().worker_threads(2).enable_all().build().unwrap())
}

/// One StrongholdStorage serving as key store and key-id store, as applications use it.
pub struct Sh;
impl c15::Backend for Sh {
  type K = StrongholdStorage;
  type I = StrongholdStorage;
  fn make() -> (StrongholdStorage, StrongholdStorage) {
    let dir = std::env::var("VH_SH_DIR").unwrap_or_else(|_| tool_error("VH_SH_DIR not set"));
    let n = COUNTER.fetch_add(1, Ordering::SeqCst);
    let file = std::path::Path::new(&dir).join(format!("{}-{}.stronghold", std::process::id(), n));
    let _guard = rt().enter();
    let mgr = StrongholdSecretManager::builder()
      .password(Password::from("password of the harness".to_owned()))
      .build(&file)
      .unwrap_or_else(|e| tool_error(&format!("cannot create a stronghold: {e}")));
    let st = StrongholdStorage::new(mgr);
    (st.clone(), st)
  }
  fn block_on<F: std::future::Future>(f: F) -> F::Output {
    rt().block_on(f)
  }
}

fn main() {
  install_panic_hook();
  iota_stronghold::engine::snapshot::try_set_encrypt_work_factor(0).unwrap_or_else(|_| tool_error("work factor"));
  let args: Vec<String> = std::env::args().collect();
  if args.len() < 2 {
    tool_error("usage: vh_sh replay|record ...");
  }
  match args[1].as_str() {
    "replay" => {
      if args.len() != 5 || args[2] != "C15" {
        tool_error("usage: vh_sh replay C15 <cases.ndjson> <report.json>");
      }
      let mut cases = read_cases(&args[3]);
      let seed: usize = std::env::var("VERIF_SEED").ok().and_then(|v| v.parse().ok()).unwrap_or(1);
      if cases.len() > 1 && seed != 1 {
        let k = seed.wrapping_mul(7919) % cases.len();
        cases.rotate_left(k);
      }
      let mut rep = Report::new();
      start_watchdog("c15".into(), args[4].clone(), 120);
      note_case(&serde_json::json!("start"));
      c15::replay_on::<Sh>(&cases, &mut rep);
      rep.write(&args[4]);
    }
    "record" => {
      if args.len() != 6 {
        tool_error("usage: vh_sh record <driver> <seed> <n> <trace.ndjson>");
      }
      let seed: u64 = args[3].parse().unwrap_or_else(|_| tool_error("bad seed"));
      let n: u64 = args[4].parse().unwrap_or_else(|_| tool_error("bad n"));
      let mut out = TraceOut::create(&args[5]);
      match args[2].as_str() {
        "C15.seq" => c15::record_seq_on::<Sh>(seed, n, &mut out),
        "C15.race" => c15::record_race_on::<Sh>(seed, n, &mut out),
        p => tool_error(&format!("no record driver for {p}")),
      }
      out.finish();
    }
    other => tool_error(&format!("unknown command {other}")),
  }
}
